"""Character classes used by the specifications -> concrete representatives.

The class definitions are the specification's; the harness receives concrete text.
`alts` lists further members of a class used to add Unicode breadth (seeded choice)."""

CLASS = {
    "a": "a", "b": "b", "e2": "é", "e3": "€", "e4": "\U0001F600",
    "LF": "\n", "CR": "\r", "BOM": "﻿", "SP": " ", "TAB": "\t", "FF": "\x0c",
    "BS": "\\", "SQ": "'", "DQ": '"', "HASH": "#",
}
ALTS = {
    "a": "abcxyzQ_",
    "e2": "éßλЖ",
    "e3": "€中あअ",
    "e4": "\U0001F600\U00010400\U0002000B",
}


def conc(classes, rng=None):
    """Concatenate the representatives of a list of classes (strings not in the table stand for themselves)."""
    out = []
    for c in classes:
        if rng is not None and c in ALTS:
            out.append(rng.choice(ALTS[c]))
        else:
            out.append(CLASS.get(c, c))
    return "".join(out)


def byte_offsets(classes):
    """Prefix sums of UTF-8 lengths: byte offset of every character position (len+1 entries)."""
    offs = [0]
    for c in classes:
        offs.append(offs[-1] + len(CLASS.get(c, c).encode("utf-8")))
    return offs

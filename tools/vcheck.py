#!/usr/bin/env python3
"""Runner for the model-based checks.  `bin/check <Cxx> --tier quick|thorough [--replay path]`.

Exit codes: 0 property held on everything explored (known findings are printed and tolerated),
1 a violation not listed in KNOWN_FINDINGS.json (prints `VIOLATION property=<id> replay=<path>`),
2 tool error (TLC failure, harness build failure, timeout of the tools).  A tool error never prints
a VIOLATION line.
"""
import argparse
import hashlib
import importlib
import json
import os
import random
import re
import subprocess
import sys
import time
import traceback

ROOT = os.path.dirname(os.path.dirname(os.path.abspath(__file__)))
sys.path.insert(0, os.path.join(ROOT, "tools"))
import tlc as tlcmod  # noqa: E402

WORK = os.path.join(ROOT, "work")
os.makedirs(WORK, exist_ok=True)
os.environ.setdefault("VERIF_WORK", WORK)

HARNESS_CONFIGS = {
    # name -> (cargo feature args, target dir)
    "default": (["--no-default-features", "--features", "malachite"], "target"),
    "full": (["--no-default-features", "--features", "malachite,full-lexer"], "target-full"),
    "ranges": (["--no-default-features", "--features", "malachite,all-ranges"], "target-ranges"),
    "numbig": (["--no-default-features", "--features", "numbig"], "target-numbig"),
}


class ToolError(Exception):
    pass


class Harness:
    """A running vharness process with request/response batching and a hang watchdog."""

    def __init__(self, binpath, per_request_timeout=20.0):
        self.binpath = binpath
        self.per_request_timeout = per_request_timeout
        self.proc = None
        self.calls = 0

    def _start(self):
        self.proc = subprocess.Popen([self.binpath], stdin=subprocess.PIPE, stdout=subprocess.PIPE,
                                     stderr=subprocess.DEVNULL, text=True, bufsize=1 << 20,
                                     encoding="utf-8", errors="surrogatepass")

    def run(self, requests, chunk=20000):
        """Send all requests, return responses (same order).  Hangs/aborts of the code under
        test are data: the offending request gets {"timeout": true} or {"abort": rc}."""
        out = []
        i = 0
        n = len(requests)
        while i < n:
            batch = requests[i:i + chunk]
            resp = self._run_batch(batch)
            out.extend(resp)
            i += len(batch)
        self.calls += n
        return out

    def _run_batch(self, batch):
        import select
        import threading
        results = []
        pos = 0
        while pos < len(batch):
            todo = batch[pos:]
            proc = subprocess.Popen([self.binpath], stdin=subprocess.PIPE, stdout=subprocess.PIPE,
                                    stderr=subprocess.DEVNULL)
            payload = "".join(json.dumps(r, ensure_ascii=False) + "\n" for r in todo).encode("utf-8", "surrogatepass")

            def feed(proc=proc, payload=payload):
                try:
                    proc.stdin.write(payload)
                    proc.stdin.close()
                except Exception:
                    pass
            th = threading.Thread(target=feed, daemon=True)
            th.start()
            fd = proc.stdout.fileno()
            buf = bytearray()
            got = []
            timed_out = False
            while len(got) < len(todo):
                r, _, _ = select.select([fd], [], [], self.per_request_timeout)
                if not r:
                    timed_out = True
                    proc.kill()
                    break
                data = os.read(fd, 1 << 20)
                if not data:
                    break
                buf += data
                if b"\n" in data:
                    lines = buf.split(b"\n")
                    buf = bytearray(lines.pop())
                    for ln in lines:
                        if not ln:
                            continue
                        try:
                            got.append(json.loads(ln))
                        except Exception:
                            got.append({"tool_error": "bad harness output: " + ln[:200].decode("utf-8", "replace")})
            try:
                proc.stdout.close()
            except Exception:
                pass
            rc = proc.wait()
            results.extend(got)
            pos += len(got)
            if len(got) < len(todo):
                # the request at `pos` killed or hung the process
                results.append({"timeout": True} if timed_out else {"abort": rc})
                pos += 1
        return results


class HashedSet:
    """set of cases kept as 64-bit digests (the thorough tiers see millions of distinct inputs)"""

    def __init__(self):
        self.h = set()

    @staticmethod
    def _d(x):
        b = x.encode("utf-8", "surrogatepass") if isinstance(x, str) else repr(x).encode("utf-8", "surrogatepass")
        return int.from_bytes(hashlib.blake2b(b, digest_size=8).digest(), "big")

    def add(self, x):
        self.h.add(self._d(x))

    def update(self, xs):
        for x in xs:
            self.h.add(self._d(x))

    def __len__(self):
        return len(self.h)


class Ctx:
    def __init__(self, prop, tier, seed, replay=None):
        self.prop = prop
        self.tier = tier
        self.seed = seed
        self.rng = random.Random(seed)
        self.replay_path = replay
        self.t0 = time.time()
        self.states = 0
        self.transitions = 0
        self.replayed = 0          # spec behaviours replayed into the implementation
        self.traces_validated = 0  # implementation traces accepted by TLC
        self.samples = []
        self.configs = []
        self.mismatches = []       # list of dict(sig, detail, case)
        self.distinct_cases = HashedSet()
        self.notes = []
        self.assumptions = []
        self.tool_errors = []
        self.hooks = "enabled"
        self.extra = {}
        self._harness = {}
        self.quick = tier == "quick"
        self.workers = int(os.environ.get("VERIF_TLC_WORKERS", "8"))

    # ---------------------------------------------------------------- harness
    def harness(self, config="default"):
        if config in self._harness:
            return self._harness[config]
        feats, tdir = HARNESS_CONFIGS[config]
        hdir = os.path.join(ROOT, "harness")
        env = dict(os.environ)
        env["CARGO_NET_OFFLINE"] = "true"
        cmd = ["cargo", "build", "--offline", "--target-dir", tdir] + feats
        t = time.time()
        p = subprocess.run(cmd, cwd=hdir, env=env, stdout=subprocess.PIPE, stderr=subprocess.STDOUT, text=True)
        if p.returncode != 0:
            # a changed tree may no longer compile with the hooks: retry without the guard cfg
            env2 = dict(env)
            env2["RUSTFLAGS"] = "--cfg vharness_nohooks --check-cfg cfg(vharness_nohooks) --check-cfg cfg(rustpython_parser_verif)"
            p2 = subprocess.run(cmd, cwd=hdir, env=env2, stdout=subprocess.PIPE,
                                stderr=subprocess.STDOUT, text=True)
            if p2.returncode != 0:
                raise ToolError("harness build failed (%s):\n%s" % (config, p.stdout[-3000:]))
            self.hooks = "unavailable"
        self.notes.append("harness[%s] built in %.1fs" % (config, time.time() - t))
        h = Harness(os.path.join(hdir, tdir, "debug", "vharness"))
        self._harness[config] = h
        return h

    # ---------------------------------------------------------------- TLC
    def tlc(self, spec_dir, module, cfg, expect_ok=True, **kw):
        """Run a TLC configuration.  With expect_ok, any TLC error is a tool error."""
        kw.setdefault("workers", self.workers)
        sd = os.path.join(ROOT, "spec", spec_dir)
        r = tlcmod.run_tlc(sd, module, cfg, **kw)
        self.states += r.distinct if r.distinct else r.generated
        self.transitions += r.generated
        self.configs.append({"spec": "%s/%s.tla" % (spec_dir, module), "cfg": cfg, "distinct": r.distinct,
                             "generated": r.generated, "depth": r.depth, "wall_s": round(r.wall, 1),
                             "replay_lines": len(r.replays), "violated": r.violated,
                             "mode": ("simulate " + kw["simulate"]) if kw.get("simulate") else "bfs",
                             "coverage": {k: v[1] for k, v in sorted(r.coverage.items())}})
        if r.timeout:
            raise ToolError("TLC timeout: %s" % r.cmd)
        if expect_ok and not r.ok:
            raise ToolError("TLC failed (%s): %s\n%s" % (r.cmd, r.error, r.tail[-3000:]))
        return r

    def require_coverage(self, r, actions):
        """Vacuity guard: every named action must have been taken at least once."""
        for a in actions:
            if r.coverage.get(a, (0, 0))[1] == 0:
                raise ToolError("vacuity: action %s never taken in %s" % (a, r.cmd))

    # ---------------------------------------------------------------- results
    def sample(self, x, limit=6):
        if len(self.samples) < limit:
            self.samples.append(x)

    def mismatch(self, sig, detail, case=None):
        self.mismatches.append({"sig": sig, "detail": detail, "case": case})

    def note(self, s):
        self.notes.append(s)


def load_findings():
    p = os.path.join(ROOT, "KNOWN_FINDINGS.json")
    if not os.path.exists(p):
        return {"findings": [], "fixed": []}
    return json.load(open(p))


def match_finding(f, prop, mm):
    if f.get("property") != prop or f.get("status", "open") != "open":
        return False
    m = f.get("match", {})
    if "sig" in m and m["sig"] != mm["sig"]:
        return False
    if "sig_re" in m and not re.fullmatch(m["sig_re"], mm["sig"]):
        return False
    if "detail_re" in m and not re.search(m["detail_re"], json.dumps(mm["detail"], ensure_ascii=False, sort_keys=True)):
        return False
    return True


def write_evidence(ctx, violations, known_seen, status):
    ev = {
        "property_id": ctx.prop,
        "tier": ctx.tier,
        "seed": ctx.seed,
        "level": "model_checking",
        "coverage": {
            "states": max(ctx.states, 0),
            "transitions": max(ctx.transitions, 0),
            "traces_validated_against_impl": ctx.replayed + ctx.traces_validated,
            "samples": ctx.samples[:8] if ctx.samples else [],
            "evaluations": ctx.replayed + ctx.traces_validated,
            "distinct_nontrivial": len(ctx.distinct_cases),
            "rule": ctx.extra.get("rule", "cases are the terminal states of the TLC state graph (distinct by TLC fingerprint) plus recorded implementation traces; distinct_nontrivial counts distinct replayed inputs"),
            "spec_behaviours_replayed": ctx.replayed,
            "impl_traces_accepted_by_tlc": ctx.traces_validated,
            "tlc_configs": ctx.configs,
            "exhaustive": bool(ctx.extra.get("exhaustive", False)),
            "known_findings_seen": known_seen,
            "mismatches_total": len(ctx.mismatches),
            "hooks": ctx.hooks,
            "notes": ctx.notes,
            "status": status,
        },
        "assumptions": ctx.assumptions,
        "wall_s": round(time.time() - ctx.t0, 2),
        "violations": violations,
    }
    for k, v in ctx.extra.items():
        if k in ("rule", "exhaustive"):
            continue
        if k == "programs" and isinstance(v, dict):
            # the schema reserves coverage.programs for a count: the per-family table goes under its own key
            ev["coverage"]["programs_by_family"] = v
            ev["coverage"]["programs"] = sum(x for x in v.values() if isinstance(x, int))
            continue
        ev["coverage"][k] = v
    os.makedirs(os.path.join(ROOT, "evidence"), exist_ok=True)
    path = os.path.join(ROOT, "evidence", ctx.prop + ".json")
    with open(path + ".tmp", "w") as f:
        json.dump(ev, f, indent=1, ensure_ascii=False, default=str)
    os.replace(path + ".tmp", path)


def finish(ctx):
    if ctx.replay_path:
        # replay mode: report, never touch the evidence file of the last real run
        global write_evidence
        write_evidence = lambda *a, **k: None
    findings = load_findings()
    known = {}
    new = []
    for mm in ctx.mismatches:
        hit = None
        for f in findings.get("findings", []):
            if match_finding(f, ctx.prop, mm):
                hit = f
                break
        if hit:
            known.setdefault(hit["id"], [hit, 0])[1] += 1
        else:
            new.append(mm)
    for fid, (f, n) in sorted(known.items()):
        print("KNOWN-FINDING: property=%s %s [%s, %d occurrence(s)]" % (ctx.prop, f.get("what", ""), fid, n))
    known_seen = [{"id": fid, "occurrences": n} for fid, (f, n) in sorted(known.items())]
    if new:
        # group by signature; one replay file per distinct signature (max 10)
        bysig = {}
        for mm in new:
            bysig.setdefault(mm["sig"], []).append(mm)
        os.makedirs(os.path.join(ROOT, "replays"), exist_ok=True)
        k = 0
        for sig, lst in sorted(bysig.items()):
            k += 1
            if k > 10:
                break
            mm = lst[0]
            h = hashlib.sha1((ctx.prop + sig + json.dumps(mm["case"], sort_keys=True, default=str)).encode()).hexdigest()[:12]
            path = os.path.join(ROOT, "replays", "%s-%s.json" % (ctx.prop, h))
            with open(path, "w") as f:
                json.dump({"property": ctx.prop, "sig": sig, "detail": mm["detail"], "case": mm["case"],
                           "occurrences": len(lst), "seed": ctx.seed, "tier": ctx.tier}, f, indent=1,
                          ensure_ascii=False, default=str)
            print("VIOLATION property=%s replay=%s" % (ctx.prop, path))
            print("  signature: %s (%d case(s)); detail: %s" % (sig, len(lst), json.dumps(mm["detail"], ensure_ascii=False, default=str)[:600]))
        write_evidence(ctx, len(new), known_seen, "violation")
        return 1
    write_evidence(ctx, 0, known_seen, "ok")
    return 0


def main():
    ap = argparse.ArgumentParser()
    ap.add_argument("prop")
    ap.add_argument("--tier", default=os.environ.get("VERIF_TIER", "quick"), choices=["quick", "thorough"])
    ap.add_argument("--replay", default=None)
    ap.add_argument("--seed", type=int, default=None)
    a = ap.parse_args()
    seed = a.seed if a.seed is not None else int(os.environ.get("VERIF_SEED", "20261003"))
    prop = a.prop.upper()
    ctx = Ctx(prop, a.tier, seed, a.replay)
    try:
        mod = importlib.import_module("checks." + prop.lower())
        if a.replay:
            case = json.load(open(a.replay))
            mod.replay(ctx, case)
        else:
            mod.run(ctx)
        rc = finish(ctx)
    except ToolError as e:
        print("TOOL-ERROR property=%s: %s" % (prop, e), file=sys.stderr)
        ctx.notes.append("tool error: %s" % str(e)[:2000])
        try:
            write_evidence(ctx, 0, [], "tool_error")
        except Exception:
            pass
        sys.exit(2)
    except Exception:
        traceback.print_exc()
        sys.exit(2)
    print("%s tier=%s: states=%d transitions=%d replayed=%d traces=%d mismatches=%d wall=%.1fs -> %s" % (
        prop, a.tier, ctx.states, ctx.transitions, ctx.replayed, ctx.traces_validated, len(ctx.mismatches),
        time.time() - ctx.t0, "OK" if rc == 0 else "VIOLATION"))
    sys.exit(rc)


if __name__ == "__main__":
    main()

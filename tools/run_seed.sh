#!/bin/bash
# run_seed.sh <patch.diff> <tier> <prop>... : apply a seeded change to /repo, run the checks, undo it straight afterwards.
P=$1; TIER=$2; shift 2
git -C /repo apply $P || exit 2
for c in "$@"; do
  /verif/bin/check $c --tier $TIER > /tmp/seedrun-$c.log 2>&1; rc=$?
  echo "$c tier=$TIER rc=$rc: $(grep -c '^VIOLATION' /tmp/seedrun-$c.log) violation line(s); $(grep '^VIOLATION' -A1 /tmp/seedrun-$c.log | grep signature | head -3 | cut -c1-220 | tr '\n' '|')"
done
git -C /repo checkout -- .

#!/bin/bash
# confirm_seed.sh <seed-dir> <worktree> <demo-target-dir-in-worktree> <cargo-test-args...>
# Confirms in a scratch worktree: suite passes with patch; demo fails with patch and passes without.
SEED=$1; WT=$2; DEST=$3; shift 3
cd $WT || exit 2
git checkout -q -- . && git clean -fdq -e target
git apply $SEED/patch.diff || { echo "patch does not apply"; exit 2; }
echo "--- existing suite with patch"
cargo test --workspace --no-fail-fast --offline 2>&1 | grep -E "^test result" | awk '{p+=$4; f+=$6} END {print "passed",p,"failed",f}'
mkdir -p $DEST && cp $SEED/demo/*.rs $DEST/
echo "--- demo with patch"
cargo test --offline "$@" 2>&1 | grep -E "^test result|panicked" | head -5
git apply -R $SEED/patch.diff
echo "--- demo without patch"
cargo test --offline "$@" 2>&1 | grep -E "^test result" | head -3
git checkout -q -- . && git clean -fdq -e target

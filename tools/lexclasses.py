"""The lexer's character classes (spec/lexer/Lexer.tla): representatives, further members, and the abstraction
function from real text to classes (used to record traces of real files)."""
import unicodedata

PUNCT = {"!": "BANG", '"': "DQ", "#": "HASH", "$": "DOLLAR", "%": "PCT", "&": "AMP", "'": "SQ", "(": "LP", ")": "RP",
         "*": "STAR", "+": "PLUS", ",": "COMMA", "-": "MINUS", ".": "DOT", "/": "SLASH", ":": "COLON", ";": "SEMI",
         "<": "LT", "=": "EQ", ">": "GT", "?": "QM", "@": "AT", "[": "LB", "\\": "BS", "]": "RB", "^": "CARET",
         "`": "BT", "{": "LC", "|": "VBAR", "}": "RC", "~": "TILDE"}
REP = {v: k for k, v in PUNCT.items()}
REP.update({"SP": " ", "TAB": "\t", "FF": "\x0c", "LF": "\n", "CR": "\r", "D0": "0", "D1": "1", "D2": "5", "D8": "9",
            "Lb": "b", "Lr": "r", "Lu": "u", "Lf": "f", "Le": "e", "Lj": "j", "Lx": "x", "Lo": "o", "Lh": "a", "La": "q", "US": "_",
            "XS2": "é", "XS3": "中", "XS4": "\U00010400", "XC2": "́", "XC3": "ः", "XC4": "\U0001D165",
            "EM3": "⌚", "EM4": "\U0001F600", "OT2": " ", "OT3": "€", "OT4": "\U0001F100", "BOM": "﻿", "CTL": "\x01"})
ALT = {"D2": "234567", "D8": "89", "Lb": "bB", "Lr": "rR", "Lu": "uU", "Lf": "fF", "Le": "eE", "Lj": "jJ", "Lx": "xX", "Lo": "oO",
       "Lh": "acdACD", "La": "qzkwQZKW", "XS2": "\u00e9\u03bb\u0416", "XS3": "\u4e2d\u3042", "OT2": "\u00a0\u00b1", "OT3": "\u20ac\u2028", "CTL": "\x01\x7f\x0b"}


def conc(classes, rng=None):
    return "".join((rng.choice(ALT[c]) if rng is not None and c in ALT else REP[c]) for c in classes)


_XID_CACHE = {}


def _is_xid_start(ch):
    # Python's str.isidentifier implements XID_Start / XID_Continue
    return ch.isidentifier()


def _is_xid_continue(ch):
    return ("a" + ch).isidentifier()


EMOJI_PRES = None


def classify(ch, first=False):
    o = ord(ch)
    if o < 128:
        if ch in PUNCT:
            return PUNCT[ch]
        if ch == " ":
            return "SP"
        if ch == "\t":
            return "TAB"
        if ch == "\x0c":
            return "FF"
        if ch == "\n":
            return "LF"
        if ch == "\r":
            return "CR"
        if ch == "0":
            return "D0"
        if ch == "1":
            return "D1"
        if ch in "234567":
            return "D2"
        if ch in "89":
            return "D8"
        if ch == "_":
            return "US"
        if ch.isalpha():
            lo = ch.lower()
            return {"b": "Lb", "r": "Lr", "u": "Lu", "f": "Lf", "e": "Le", "j": "Lj", "x": "Lx", "o": "Lo", "a": "Lh", "c": "Lh", "d": "Lh"}.get(lo, "La")
        return "CTL"
    n = len(ch.encode("utf-8", "surrogatepass"))
    if o == 0xFEFF:
        return "BOM" if first else "OT3"
    if _is_xid_start(ch):
        return "XS%d" % n
    if _is_xid_continue(ch):
        return "XC%d" % n
    return "OT%d" % n      # emoji-presentation characters are resolved by the caller when needed


def abstract(text):
    return [classify(c, k == 0) for k, c in enumerate(text)]

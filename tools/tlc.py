"""TLC wrapper: runs a configuration, streams REPLAY lines, parses the final statistics.

TLC is the engine that explores the specification; this module only launches it and reads
its output.  A TLC failure (parse error, timeout, unexpected invariant violation in a
configuration that is supposed to hold) is reported as a tool error, never as a property
violation by itself -- the check modules decide what an invariant violation means.
"""
import json
import os
import re
import shutil
import subprocess
import tempfile
import time

JAR = "/opt/veriftools/tla/tla2tools.jar"
COMMUNITY = "/opt/veriftools/tla/CommunityModules-deps.jar"


def tla_unescape(s):
    """Undo TLC's printing of a string value (without the outer quotes)."""
    out = []
    i = 0
    n = len(s)
    while i < n:
        c = s[i]
        if c == "\\" and i + 1 < n:
            d = s[i + 1]
            if d == "n":
                out.append("\n")
            elif d == "t":
                out.append("\t")
            elif d == "r":
                out.append("\r")
            elif d == "f":
                out.append("\f")
            else:
                out.append(d)
            i += 2
        else:
            out.append(c)
            i += 1
    return "".join(out)


class TlcResult:
    def __init__(self):
        self.ok = False              # finished without error
        self.error = None            # text of first "Error:" block
        self.violated = None         # name of violated invariant / property, if any
        self.generated = 0
        self.distinct = 0
        self.depth = 0
        self.replays = []            # parsed JSON objects from REPLAY lines
        self.coverage = {}           # action name -> (distinct, total)
        self.wall = 0.0
        self.cmd = ""
        self.tail = ""
        self.timeout = False
        self.rc = None
        self.trace = []              # raw counterexample text (lines)
        self.tagged = {}             # other tagged JSON lines printed by the spec, e.g. "BAD[...]"


_RE_STATS = re.compile(r"(\d+) states generated, (\d+) distinct states found")
_RE_DEPTH = re.compile(r"The depth of the complete state graph search is (\d+)")
_RE_COV = re.compile(r"^<(\w+) line \d+, col \d+ to line \d+, col \d+ of module (\w+)>: (\d+):(\d+)")
_RE_TAG = re.compile(r'^"([A-Z]{2,12})[\[{]')
_RE_SIMSTAT = re.compile(r"The number of states generated: (\d+)")


def run_tlc(spec_dir, module, cfg, workers=8, simulate=None, depth=None, seed=None,
            timeout=600, env=None, java_opts=None, heap="6g", on_replay=None,
            deadlock=False, coverage=True, keep_replays=True, dfs=False, extra=None):
    """Run TLC on spec_dir/module.tla with spec_dir/cfg.

    simulate: None for BFS, or "num=N" string for -simulate.
    on_replay: optional callback(obj) called for each REPLAY line (streaming).
    """
    res = TlcResult()
    meta = tempfile.mkdtemp(prefix="tlcmeta-", dir=os.environ.get("VERIF_WORK", "/verif/work"))
    jopts = ["-XX:+UseParallelGC", "-XX:ParallelGCThreads=4", "-Xmx" + heap, "-Xss64m"]
    if dfs:
        jopts += ["-Dtlc2.tool.queue.IStateQueue=StateDeque", "-Xss1g"]
    if java_opts:
        jopts += java_opts
    cmd = ["java"] + jopts + ["-cp", JAR + ":" + COMMUNITY, "tlc2.TLC"]
    e = dict(os.environ)
    if env:
        e.update(env)
    args = ["-workers", str(workers), "-metadir", meta, "-cleanup", "-noGenerateSpecTE",
            "-config", cfg]
    if coverage and not simulate:
        args += ["-coverage", "1"]
    if simulate:
        args += ["-simulate", simulate]
        if depth:
            args += ["-depth", str(depth)]
    if seed is not None:
        args += ["-seed", str(seed)]
    if deadlock:
        args += ["-deadlock"]
    if extra:
        args += extra
    args += [module + ".tla"]
    res.cmd = "tlc " + " ".join(args)
    t0 = time.time()
    proc = subprocess.Popen(["timeout", str(timeout)] + cmd + args, cwd=spec_dir, env=e,
                            stdout=subprocess.PIPE, stderr=subprocess.STDOUT, text=True,
                            errors="replace")
    tail = []
    in_error = False
    err_lines = []
    for line in proc.stdout:
        line = line.rstrip("\n")
        if line.startswith('"REPLAY'):
            body = tla_unescape(line[7:-1] if line.endswith('"') else line[7:])
            try:
                obj = json.loads(body)
            except Exception as ex:  # malformed line: tool error
                res.error = "bad REPLAY line: %s: %s" % (ex, line[:200])
                continue
            if on_replay:
                on_replay(obj)
            if keep_replays:
                res.replays.append(obj)
            continue
        mt = _RE_TAG.match(line)
        if mt:
            try:
                res.tagged.setdefault(mt.group(1), []).append(json.loads(tla_unescape(line[1 + len(mt.group(1)):-1])))
            except Exception as ex:
                res.error = "bad tagged line: %s: %s" % (ex, line[:200])
            continue
        if line.startswith("Picked up JAVA_TOOL_OPTIONS"):
            continue
        tail.append(line)
        if len(tail) > 400:
            del tail[:200]
        m = _RE_STATS.search(line)
        if m:
            res.generated = int(m.group(1))
            res.distinct = int(m.group(2))
        m = _RE_DEPTH.search(line)
        if m:
            res.depth = int(m.group(1))
        m = _RE_SIMSTAT.search(line)
        if m:
            res.generated = max(res.generated, int(m.group(1)))
        m = _RE_COV.match(line)
        if m:
            name = m.group(1)
            d, t = int(m.group(3)), int(m.group(4))
            old = res.coverage.get(name, (0, 0))
            res.coverage[name] = (old[0] + d, old[1] + t)
        if line.startswith("Error:"):
            in_error = True
            if res.error is None:
                res.error = line
            mm = re.search(r"Invariant (\w+) is violated", line)
            if mm:
                res.violated = mm.group(1)
            mm = re.search(r"Action property (\w+) is violated|Temporal properties were violated", line)
            if mm and not res.violated:
                res.violated = mm.group(1) or "temporal"
        if in_error:
            err_lines.append(line)
    proc.wait()
    res.rc = proc.returncode
    res.wall = time.time() - t0
    res.timeout = proc.returncode == 124
    res.tail = "\n".join(tail[-120:])
    res.trace = err_lines[:400]
    res.ok = (proc.returncode == 0 and res.error is None)
    shutil.rmtree(meta, ignore_errors=True)
    return res

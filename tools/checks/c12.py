"""C12 -- Fold and Visitor traverse the whole tree faithfully; the constant-tuple optimiser is local and idempotent.

Specs: spec/ast/Traversal.tla (T) and spec/ast/Optimizer.tla (M + G).
T: for every program the harness records, through the public traits only, every will_map_user / map_user callback of
   an identity folder and every visit_stmt / visit_expr / visit_pattern / visit_excepthandler call of the default
   Visitor.  The program's tree (canonical Debug projection, field order kept) becomes a node table; TLC validates
   the recorded callbacks against Traversal.tla's depth-first walk of that table: one enter and one exit per
   range-carrying node, one visit per statement / expression / pattern / handler, parents first, declaration order.
   Besides: folding with the identity gives an equal tree; folding with "+1000" then "-1000" gives the original.
   Both the default build and all-nodes-with-ranges (where products carry ranges and are observed too).
M: Optimizer.tla -- Idempotent, Lossless, Maximal for every statement over constants, names, tuples and lists
   (targets included) within the budget; PinnedExact characterises the pinned rewriting's deviation.
G: every Optimizer.tla statement is parsed, optimised by the real ConstantOptimizer and compared with Opt; on all
   other programs the optimised tree must equal the generic expectation (load tuples of constants replaced, nothing
   else changed) and optimising twice must change nothing.
Programs: every PyGen.tla sub-language, curated snippets (f-strings, decorators, type parameters, ...), corpus files.
"""
import json
import os
import pytree
from checks import pygen, syntaxrun as sr, lexcommon as lx

SUBLANGS = ["exprcore", "atoms", "atoms2", "calls", "simple", "compound", "defs", "pats", "softkw"]
EXTRA = [
    "f'{a!r:>{w}}x{b}' 'y'\n", "x = f'{a}{b:{c}}'\n", "@d\nasync def f(p, /, a: int = 1, *v: str, k=2, **w) -> r:\n    async with a as b, c:\n        await x\n    async for i in y:\n        yield i\n",
    "class C[T: int, *Ts, **P](B, metaclass=M):\n    type X[U] = list[U]\n", "try:\n    pass\nexcept* (A, B) as e:\n    raise X from e\nelse:\n    pass\nfinally:\n    pass\n",
    "match x:\n    case [1, *r] | {'k': v, **rest} if g:\n        pass\n    case C(a, b=1) as c:\n        pass\n    case None | True:\n        pass\n    case _:\n        pass\n",
    "with (a as b, c as d):\n    del x, y[0]\n", "global g\nnonlocal n\n", "import a.b as c, d\nfrom .. import e as f, g\n", "x: int = 1\ny: str\nz += 1\nassert a, b\n",
    "lambda p, /, a=1, *v, k, **w: (yield)\n", "{**a, 1: 2, **b}\n{*a, 1}\n[x async for x in y if z if w]\n{k: v for k, v in y}\n(x for x in y for z in x)\n",
    "a[1:2, ::3, *b]\n", "(a := 1, b if c else d, not e, -f, g ** h, i < j < k, l and m or n)\n", "() = x\n[(), a] = y\nfor () in z: pass\n", "(1, 2, (3, 's'))\n((), (1,), [2, (3, 4)])\n",
    "f((1, 2), k=(3, 4), *(5, 6), **{(7, 8): (9, a)})\n", "while a:\n    break\nelse:\n    continue\n", "if a:\n    pass\nelif b:\n    pass\nelse:\n    pass\n", "return\n", "def f():\n    return (1, 2)\n",
    "x = (yield from y)\n", "await z\n", "a.b.c[d](e)(f=g)\n", "1j + 2.5 - 10**30 + b'x' + 'y' + None + ... + True\n",
]
OPAQUE_PINNED = ["Arguments", "Arg", "Keyword", "Alias", "WithItem", "MatchCase", "Comprehension"]


def cat_of(t):
    if t.startswith("Stmt"):
        return "stmt"
    if t.startswith("Expr") and t != "ExprContext":
        return "expr"
    if t.startswith("Pattern"):
        return "pattern"
    if t == "ExceptHandlerExceptHandler":
        return "handler"
    return "other"


def is_node(v):
    return isinstance(v, dict) and "_t" in v and v["_t"] != "Complex"


def build_table(tree, table, prog):
    """appends the nodes of `tree` to table (1-based ids); returns the id of the root"""
    me = {"kind": tree["_t"], "cat": cat_of(tree["_t"]), "prog": prog}
    table.append(me)
    my_id = len(table)
    r = tree.get("range")
    me["ranged"] = isinstance(r, list)
    me["s"], me["e"] = (r if isinstance(r, list) else (0, 0))
    kids = []
    for f in tree.get("_f", []):
        if f == "range":
            continue
        v = tree[f]
        if is_node(v):
            kids.append(build_table(v, table, prog))
        elif isinstance(v, list):
            for x in v:
                if is_node(x):
                    kids.append(build_table(x, table, prog))
    me["kids"] = kids
    me["ncat"] = sum((1 if table[k - 1]["cat"] != "other" else 0) + table[k - 1]["ncat"] for k in kids)
    return my_id


def strip_f(t):
    if isinstance(t, dict):
        # "_f" is the field-order list of a struct; a float constant is {"_f": "<text>"} and must stay
        return {k: strip_f(v) for k, v in t.items() if not (k == "_f" and isinstance(v, list))}
    if isinstance(t, list):
        return [strip_f(x) for x in t]
    return t


def opt_expected(t):
    """the property's rewriting on the canonical projection"""
    if isinstance(t, list):
        return [opt_expected(x) for x in t]
    if not isinstance(t, dict):
        return t
    out = {k: opt_expected(v) for k, v in t.items()}
    if out.get("_t") == "ExprTuple" and out.get("ctx") == "Load" and all(isinstance(e, dict) and e.get("_t") == "ExprConstant" for e in out["elts"]):
        return {"_k": "Constant", "_t": "ExprConstant", "kind": None, "range": out["range"], "value": {"_k": "Tuple", "_a": [[e["value"] for e in out["elts"]]]}}
    return out


def first_path(a, b, path=""):
    if isinstance(a, dict) and isinstance(b, dict):
        if a.get("_t") != b.get("_t"):
            return "%s:%s->%s" % (path or "top", a.get("_t"), b.get("_t"))
        for k in sorted(set(a) | set(b)):
            if a.get(k) != b.get(k):
                return first_path(a.get(k), b.get(k), (a.get("_t", "?") + "." + k))
    if isinstance(a, list) and isinstance(b, list):
        if len(a) != len(b):
            return "%s:len" % path
        for x, y in zip(a, b):
            if x != y:
                return first_path(x, y, path)
    return "%s:value" % (path or "top")


# ---------------------------------------------------------------------------------------------- trace validation
def validate(ctx, items, label, config):
    """items: [(src, mode, resp)] -> Traversal.tla validation of the fold and visitor callbacks"""
    from vcheck import ToolError
    import re
    chunks, cur, n = [], [], 0
    for it in items:
        sz = len(it[2].get("fold_events", [])) + len(it[2].get("visit_events", []))
        if n + sz > 40000 and cur:
            chunks.append(cur)
            cur, n = [], 0
        cur.append(it)
        n += sz
    if cur:
        chunks.append(cur)
    for ci, chunk in enumerate(chunks):
        pending = list(chunk)
        for attempt in range(6):
            if not pending:
                break
            table, events, owners = [], [], []
            for pi, (src, mode, resp) in enumerate(pending):
                root = build_table(resp["tree"], table, pi)
                for m, key in (("fold", "fold_events"), ("visit", "visit_events")):
                    events.append({"ev": "reset", "root": root, "mode": m, "s": 0, "e": 0})
                    owners.append(pi)
                    for ev in resp.get(key, []):
                        events.append({"ev": ev[0], "s": ev[1], "e": ev[2], "root": 0, "mode": m})
                        owners.append(pi)
            events.append({"ev": "end", "root": 0, "mode": "-", "s": 0, "e": 0})
            owners.append(len(pending) - 1)
            base = os.path.join(os.environ["VERIF_WORK"], "trav-%s-%d-%d" % (label, os.getpid(), ci))
            with open(base + ".tree", "w") as f:
                for nd in table:
                    f.write(json.dumps(nd) + "\n")
            with open(base + ".trace", "w") as f:
                for e in events:
                    f.write(json.dumps(e) + "\n")
            r = ctx.tlc("ast", "Traversal", "Traversal.cfg", expect_ok=False, workers=1, dfs=True,
                        env={"TRACE": base + ".trace", "TREE": base + ".tree"}, timeout=3000, coverage=False, heap="8g")
            for p in (base + ".tree", base + ".trace"):
                try:
                    os.remove(p)
                except OSError:
                    pass
            if r.ok:
                ctx.traces_validated += len(pending)
                ctx.extra["trace_events"] = ctx.extra.get("trace_events", 0) + len(events)
                ctx.extra["tree_nodes"] = ctx.extra.get("tree_nodes", 0) + len(table)
                break
            mm = re.search(r"UNMATCHED at (\d+)", r.tail)
            if not mm:
                raise ToolError("Traversal.tla failed to run (%s): %s\n%s" % (label, r.error, r.tail[-2000:]))
            at = int(mm.group(1))
            ev = events[at - 1] if at <= len(events) else None
            # a walk that still waits for callbacks when the next program starts: the culprit is the walk before
            blame = at - 1 if ev and ev["ev"] in ("reset", "end") and at > 1 else at
            pi = owners[min(blame, len(owners)) - 1]
            src, mode, resp = pending[pi]
            md = events[min(blame, len(events)) - 1]["mode"]
            ctx.mismatch("%s.trace_rejected[%s]:%s" % (md, config, hidden_kind(resp, md)),
                         {"src": src[:300], "first_unmatched_event": ev, "event_index": at}, {"fam": "trav", "src": src, "mode": mode, "config": config})
            ctx.traces_validated += pi
            pending = pending[pi + 1:]
        else:
            ctx.note("more than 6 rejected programs in one chunk (%s); remaining programs of the chunk not validated" % label)


def hidden_kind(resp, mode):
    """diagnosis for a rejected trace: the first node (walk order) whose callback is missing"""
    table = []
    build_table(resp["tree"], table, 0)
    if mode == "visit":
        want = [(n["cat"], n["s"], n["e"], n["kind"]) for n in walk(table, 1) if n["cat"] != "other"]
        got = [tuple(e) for e in resp.get("visit_events", [])]
        for i, w in enumerate(want):
            if i >= len(got) or got[i] != w[:3]:
                par = parent_kind(table, w)
                return "missing %s under %s" % (w[3], par)
        return "extra"
    want = [n for n in walk(table, 1) if n["ranged"]]
    got = [e for e in resp.get("fold_events", []) if e[0] == "enter"]
    for i, w in enumerate(want):
        if i >= len(got) or got[i][1:] != [w["s"], w["e"]]:
            return "enter %s" % w["kind"]
    return "exit order"


def walk(table, i):
    n = table[i - 1]
    yield n
    for k in n["kids"]:
        yield from walk(table, k)


def parent_kind(table, w):
    for n in table:
        for k in n["kids"]:
            c = table[k - 1]
            if (c["cat"], c["s"], c["e"], c["kind"]) == w:
                return n["kind"]
    return "?"


# ---------------------------------------------------------------------------------------------- programs
def run_programs(ctx, progs, label, config):
    h = ctx.harness(config)
    reqs = [{"op": "traverse", "src": s, "mode": m} for s, m in progs]
    items = []
    kinds = ctx.extra.setdefault("_kinds", set())
    for req, resp in zip(reqs, h.run(reqs)):
        if "tree" not in resp:
            continue
        ctx.replayed += 1
        src, mode = req["src"], req["mode"]
        base = {"fam": "trav", "src": src, "mode": mode, "config": config}
        for k in ("fold_panic", "shift_panic", "visit_panic", "opt_panic"):
            if resp.get(k):
                ctx.mismatch(k + "[%s]" % config, {"src": src[:300]}, base)
        if resp.get("fold_equal") is False:
            ctx.mismatch("fold.identity[%s]:%s" % (config, first_path(strip_f(resp["tree"]), resp.get("fold_tree"))), {"src": src[:300]}, base)
        if resp.get("shift_back_equal") is False:
            ctx.mismatch("fold.shift_back[%s]" % config, {"src": src[:300]}, base)
        if any(e[0] == "exit_wrong_context" for e in resp.get("fold_events", [])):
            ctx.mismatch("fold.context[%s]" % config, {"src": src[:300]}, base)
        plain = strip_f(resp["tree"])
        want = opt_expected(plain)
        got = resp.get("opt_tree", plain) if resp.get("opt_changed") else plain
        if got != want:
            ctx.mismatch("opt.generic:%s" % first_path(want, got), {"src": src[:300]}, base)
        if resp.get("opt_idempotent") is False:
            ctx.mismatch("opt.idempotent", {"src": src[:300]}, base)
        if want != plain:
            ctx.extra["programs_with_constant_tuples"] = ctx.extra.get("programs_with_constant_tuples", 0) + 1
        collect_kinds(resp["tree"], kinds)
        items.append((src, mode, resp))
    validate(ctx, items, label, config)
    ctx.distinct_cases.update(s for s, m in progs)
    ctx.extra.setdefault("programs", {})["%s[%s]" % (label, config)] = len(items)


def collect_kinds(t, acc):
    if isinstance(t, dict):
        if "_t" in t:
            acc.add(t["_t"])
        for v in t.values():
            collect_kinds(v, acc)
    elif isinstance(t, list):
        for v in t:
            collect_kinds(v, acc)


# ---------------------------------------------------------------------------------------------- optimiser replay
def absconst(v):
    if isinstance(v, dict) and v.get("_k") == "Tuple":
        return {"k": "K", "vals": [absconst(x) for x in v["_a"][0]]}
    if isinstance(v, dict) and v.get("_k") == "Int":
        return {"k": "C", "v": str(v["_a"][0])}
    if isinstance(v, dict) and v.get("_k") == "Str":
        return {"k": "C", "v": "'%s'" % v["_a"][0]}
    return {"k": "?", "v": str(v)}


def abstract(t):
    k = t.get("_t")
    if k == "StmtExpr":
        return {"k": "E", "value": abstract(t["value"])}
    if k == "StmtAssign":
        return {"k": "A", "target": abstract(t["targets"][0]), "value": abstract(t["value"])}
    if k == "StmtFor":
        return {"k": "F", "target": abstract(t["target"]), "value": abstract(t["iter"])}
    if k == "ExprConstant":
        return absconst(t["value"])
    if k == "ExprName":
        return {"k": "N"}
    if k == "ExprTuple":
        return {"k": "T", "ctx": t["ctx"], "elts": [abstract(x) for x in t["elts"]]}
    if k == "ExprList":
        return {"k": "L", "ctx": t["ctx"], "elts": [abstract(x) for x in t["elts"]]}
    return {"k": "?" + str(k)}


def optimizer_replay(ctx):
    r = ctx.tlc("ast", "Optimizer", "Optimizer_%s.cfg" % ("quick" if ctx.quick else "thorough"), coverage=False, timeout=1800)
    rp = ctx.tlc("ast", "Optimizer", "Optimizer_pinned.cfg", expect_ok=False, coverage=False, timeout=600)
    from vcheck import ToolError
    if rp.ok or "Lossless" not in (rp.violated or rp.tail):
        raise ToolError("Optimizer.tla: the pinned variant is expected to violate Lossless (it documents the repaired defect)")
    if len(r.replays) < 1000:
        raise ToolError("vacuity: Optimizer.tla emitted %d statements" % len(r.replays))
    h = ctx.harness("default")
    reqs = [{"op": "traverse", "src": c["src"], "mode": "Module"} for c in r.replays]
    folded = 0
    for c, req, resp in zip(r.replays, reqs, h.run(reqs)):
        ctx.replayed += 1
        base = {"fam": "opt", "src": c["src"], "want": c["want"], "pinned": c["pinned"]}
        if "tree" not in resp:
            ctx.mismatch("opt.rejected", {"src": c["src"], "observed": str(resp)[:200]}, base)
            continue
        tree = resp.get("opt_tree") if resp.get("opt_changed") else strip_f(resp["tree"])
        got = abstract(tree["body"][0])
        if got != c["want"]:
            ctx.mismatch("opt.abstract#%s" % ("pinned" if got == c["pinned"] else "new"), {"src": c["src"], "expected": c["want"], "observed": got}, base)
        if resp.get("opt_idempotent") is False:
            ctx.mismatch("opt.idempotent", {"src": c["src"]}, base)
        folded += 1 if c["want"] != abstract(strip_f(resp["tree"])["body"][0]) else 0
        ctx.distinct_cases.add(c["src"])
    ctx.extra["optimizer_statements"] = len(r.replays)
    ctx.extra["optimizer_statements_changed"] = folded
    ctx.sample({"optimizer_statement": r.replays[len(r.replays) // 2]["src"]})


def run(ctx):
    ctx.extra["exhaustive"] = True
    ctx.extra["rule"] = "every Optimizer.tla statement; Traversal.tla validates the recorded fold / visitor callbacks of every generated program, curated snippet and corpus file (default and all-nodes-with-ranges builds)"
    ctx.assumptions += ["callbacks are matched by range (fold) and by category and range (visitor); two different nodes with the same range and category are interchangeable for the walk",
                        "the node table is read from the derive(Debug) output of the tree, independently of Fold and Visitor"]
    optimizer_replay(ctx)
    limit = 700 if ctx.quick else 30000
    for name in SUBLANGS:
        cases = sr.generate(ctx, name)
        if len(cases) > limit:
            cases = cases[::(len(cases) + limit - 1) // limit]
            ctx.extra["exhaustive"] = False
        progs = [(pygen.realize(c)[0], c["mode"]) for c in cases]
        run_programs(ctx, progs, name, "default")
        run_programs(ctx, progs[::3], name, "ranges")
    snippets = json.load(open(os.path.join(pygen.ROOT, "corpus", "locate_snippets.json")))
    files = [open(f, encoding="utf-8").read() for f in lx.corpus_files(ctx, limit_quick=8, max_bytes_quick=25000)]
    for config in ("default", "ranges"):
        run_programs(ctx, [(s, "Module") for s in EXTRA + snippets], "curated", config)
        run_programs(ctx, [(s, "Module") for s in files], "corpus", config)
    kinds = ctx.extra.pop("_kinds")
    ctx.extra["node_kinds_exercised"] = len(kinds)
    need = {"StmtFunctionDef", "StmtAsyncFunctionDef", "StmtClassDef", "StmtReturn", "StmtDelete", "StmtAssign", "StmtTypeAlias", "StmtAugAssign", "StmtAnnAssign", "StmtFor",
            "StmtAsyncFor", "StmtWhile", "StmtIf", "StmtWith", "StmtAsyncWith", "StmtMatch", "StmtRaise", "StmtTry", "StmtTryStar", "StmtAssert", "StmtImport", "StmtImportFrom",
            "StmtGlobal", "StmtNonlocal", "StmtExpr", "StmtPass", "StmtBreak", "StmtContinue", "ExprBoolOp", "ExprNamedExpr", "ExprBinOp", "ExprUnaryOp", "ExprLambda", "ExprIfExp",
            "ExprDict", "ExprSet", "ExprListComp", "ExprSetComp", "ExprDictComp", "ExprGeneratorExp", "ExprAwait", "ExprYield", "ExprYieldFrom", "ExprCompare", "ExprCall",
            "ExprFormattedValue", "ExprJoinedStr", "ExprConstant", "ExprAttribute", "ExprSubscript", "ExprStarred", "ExprName", "ExprList", "ExprTuple", "ExprSlice",
            "PatternMatchValue", "PatternMatchSingleton", "PatternMatchSequence", "PatternMatchMapping", "PatternMatchClass", "PatternMatchStar", "PatternMatchAs", "PatternMatchOr",
            "ExceptHandlerExceptHandler", "Arguments", "ArgWithDefault", "Arg", "Keyword", "Alias", "WithItem", "MatchCase", "Comprehension",
            "TypeParamTypeVar", "TypeParamParamSpec", "TypeParamTypeVarTuple", "ModModule", "ModExpression"}
    from vcheck import ToolError
    if need - kinds:
        raise ToolError("vacuity: node kinds never exercised: %s" % sorted(need - kinds))


def replay(ctx, rec):
    c = rec["case"]
    ctx.states = ctx.transitions = 1
    if c["fam"] == "opt":
        h = ctx.harness("default")
        resp = h.run([{"op": "traverse", "src": c["src"], "mode": "Module"}])[0]
        ctx.replayed += 1
        if "tree" in resp:
            tree = resp.get("opt_tree") if resp.get("opt_changed") else strip_f(resp["tree"])
            got = abstract(tree["body"][0])
            if got != c["want"]:
                ctx.mismatch("opt.abstract#%s" % ("pinned" if got == c["pinned"] else "new"), {"expected": c["want"], "observed": got}, c)
            if resp.get("opt_idempotent") is False:
                ctx.mismatch("opt.idempotent", {}, c)
    else:
        ctx.extra["_kinds"] = set()
        run_programs(ctx, [(c["src"], c["mode"])], "replay", c.get("config", "default"))
        ctx.extra.pop("_kinds", None)
    ctx.sample({"fam": c["fam"]})

"""C19 -- printf-style (%) templates.

M: CFormat.tla -- splitter machine (CursorOK, PartsOK) and the conversions' width/left-adjust laws.
G: every template '%' + s, |s| <= MaxLen over 15 classes, for text and bytes: expected parts or rejection with the
   character index; every (flags, width, precision, type, value) cell of the conversion tables: expected text.
Spec validation: each template / cell is also evaluated by CPython's % operator.
"""
import json
import re

CH = {"PCT": "%", "LP": "(", "RP": ")", "HASH": "#", "ZERO": "0", "MINUS": "-", "PLUS": "+", "SP": " ", "ONE": "1",
      "STAR": "*", "DOT": ".", "LEN": "h", "TD": "d", "TB": "b", "OTHER": "q"}
ALT = {"ONE": "123456789", "LEN": "hlL", "TD": "diuoxXeEfFgGcrsa", "OTHER": "qjkz!$é"}


class V(int):
    """a value every conversion accepts (int, index, float, bytes)"""
    def __bytes__(self):
        return b"v"


class AnyMap(dict):
    def __missing__(self, k):
        return V(1)


def cpython_split_status(text, as_bytes, has_key):
    """('ok',) | ('err', kind, index|None) | None when CPython's answer is not a parser verdict (TypeError)."""
    t = text.encode("utf-8") if as_bytes else text
    a = _status(t, [AnyMap()]) if has_key else None
    return a if a is not None else _status(t, [tuple([V(1)] * n) for n in range(0, 9)])


def _status(t, tries):
    for a in tries:
        try:
            t % a
            return ("ok",)
        except ValueError as e:
            m = str(e)
            if "incomplete format key" in m:
                return ("err", "incomplete format key", None)
            if "incomplete format" in m:
                return ("err", "incomplete format", None)
            mm = re.search(r"unsupported format character .* at index (\d+)", m)
            if mm:
                return ("err", "unsupported format character", int(mm.group(1)))
            return None
        except TypeError as e:
            m = str(e)
            if "not all arguments converted" in m:
                return ("ok",)
            if "not enough arguments" in m:
                continue
            return None
        except (OverflowError, MemoryError):
            return None
    return None


RUST_KIND = {"incomplete format key": "UnmatchedKeyParentheses", "incomplete format": "IncompleteFormat",
             "unsupported format character": "UnsupportedFormatChar"}


def conc_parts(case, f):
    out = []
    for p in case["parts"]:
        if p["k"] == "lit":
            out.append({"k": "lit", "t": f(p["t"])})
        else:
            w = p["width"]
            pr = p["prec"]
            out.append({"k": "spec", "key": f(p["key"][1:]) if p["key"] else None, "flags": p["flags"],
                        "width": None if not w else ("*" if w == ["STAR"] else int(f(w))),
                        "prec": None if not pr else ("." if pr == ["DOT"] else ("*" if pr == ["DOT", "STAR"] else int(f(pr[1:])))),
                        "ty": f([p["ty"]])})
    return out


def run_split(ctx, cases, as_bytes, variants):
    h = ctx.harness("default")
    reqs, meta = [], []
    for case in cases:
        for v in range(variants):
            rng = ctx.rng if v else None
            table = {c: (rng.choice(ALT[c]) if rng and c in ALT else CH[c]) for c in CH}
            if as_bytes:
                table["OTHER"] = table["OTHER"] if table["OTHER"] != "é" else "q"
            f = lambda cls, table=table: "".join(table[c] for c in cls)
            reqs.append({"op": "cfmt_split", "s": f(case["inp"]), "bytes": as_bytes})
            meta.append((case, f))
    resps = h.run(reqs)
    dis = unval = 0
    for (case, f), req, resp in zip(meta, reqs, resps):
        ctx.replayed += 1
        text = req["s"]
        ctx.distinct_cases.add(("b" if as_bytes else "s") + text)
        has_key = any(p["k"] == "spec" and p["key"] for p in case["parts"]) or (not case["ok"] and "LP" in case["inp"])
        ref = cpython_split_status(text, as_bytes, has_key)
        want_status = ("ok",) if case["ok"] else ("err", case["err"]["kind"], case["err"]["at"] if case["err"]["kind"] == "unsupported format character" else None)
        if ref is None:
            unval += 1
        elif ref != want_status:
            dis += 1
            if dis <= 5:
                ctx.note("spec_reference_disagreement: %r bytes=%s spec=%s cpython=%s" % (text, as_bytes, want_status, ref))
            continue
        tag = ("err:" + case["err"]["kind"] + last_class(case)) if not case["ok"] else "ok"
        base = {"fam": "cfmt_split", "case": case, "request": req}
        if "panic" in resp or "timeout" in resp or "abort" in resp:
            ctx.mismatch("cfmt_split.panic@" + tag, {"input": text, "resp": resp}, base)
            continue
        if case["ok"]:
            if "ok" not in resp:
                ctx.mismatch("cfmt_split.rejects_valid@" + first_spec_tag(case), {"input": text, "observed": resp}, base)
                continue
            got = [{k: v for k, v in p.items() if k != "i"} for p in resp["ok"]]
            want = conc_parts(case, f)
            if got != want:
                ctx.mismatch("cfmt_split.parts@" + first_spec_tag(case), {"input": text, "expected": want, "observed": got}, base)
        else:
            if "err" not in resp:
                ctx.mismatch("cfmt_split.accepts_invalid@" + tag, {"input": text, "observed": resp}, base)
                continue
            kind = RUST_KIND[case["err"]["kind"]]
            if not resp["err"]["kind"].startswith(kind):
                ctx.mismatch("cfmt_split.error_kind@" + tag, {"input": text, "expected": kind, "observed": resp["err"]}, base)
            elif case["err"]["kind"] == "unsupported format character" and resp["err"]["index"] != case["err"]["at"]:
                ctx.mismatch("cfmt_split.error_index@" + tag, {"input": text, "expected": case["err"]["at"], "observed": resp["err"]}, base)
    ctx.extra["spec_reference_disagreements"] = ctx.extra.get("spec_reference_disagreements", 0) + dis
    ctx.extra["not_validated_by_cpython"] = ctx.extra.get("not_validated_by_cpython", 0) + unval


def first_spec_tag(case):
    for p in case["parts"]:
        if p["k"] == "spec":
            return "ty:" + p["ty"]
    return "nospec"


def last_class(case):
    """class of the character the reference rejects (for unsupported format character)"""
    if case["err"]["kind"] == "unsupported format character":
        return ":" + case["inp"][case["err"]["at"]]
    return ""


def cpython_cell(case):
    spec = case["spec"]
    try:
        if case["kind"] == "int":
            return spec % case["val"]
        if case["kind"] == "bytes":
            return (spec.encode() % case["sval"].encode()).decode()
        if case["kind"] == "str":
            return (spec[:-1] + "s") % case["sval"]     # r/a: the library formats the already converted text
        return spec % case["sval"]
    except Exception as e:
        return "EXC:" + type(e).__name__


WIDE = str.maketrans({"a": "\u00e9", "b": "\u2764", "Z": "\U0001f600"})


def widen(case):
    """the same cell with multi-byte characters (1 character each): width and precision count characters, not bytes"""
    c = dict(case)
    c["sval"] = case["sval"].translate(WIDE)
    c["out"] = case["out"].translate(WIDE)
    c["wide"] = True
    return c


def run_cells(ctx, cases):
    h = ctx.harness("default")
    cases = cases + [widen(c) for c in cases if c["kind"] in ("str", "chr") and not c.get("wide") and c["sval"].translate(WIDE) != c["sval"]]
    reqs = [{"op": "cfmt_cell", "spec": c["spec"], "kind": c["kind"], "val": c["val"], "sval": c["sval"]} for c in cases]
    resps = h.run(reqs)
    dis = 0
    for case, req, resp in zip(cases, reqs, resps):
        ctx.replayed += 1
        ctx.distinct_cases.add(json.dumps(req, sort_keys=True))
        ref = cpython_cell(case)
        if ref != case["out"]:
            dis += 1
            if dis <= 5:
                ctx.note("spec_reference_disagreement: cell %s spec=%r cpython=%r" % (req, case["out"], ref))
            continue
        base = {"fam": "cfmt_cell", "case": case, "request": req}
        if "out" not in resp:
            ctx.mismatch("cfmt_cell.%s.%s" % (case["kind"], "panic" if "panic" in resp else "error"), {"request": req, "expected": case["out"], "observed": resp}, base)
        elif resp["out"] != case["out"]:
            ctx.mismatch("cfmt_cell.%s.text" % case["kind"], {"request": req, "expected": case["out"], "observed": resp["out"]}, base)
    ctx.extra["spec_reference_disagreements"] = ctx.extra.get("spec_reference_disagreements", 0) + dis


def run(ctx):
    tier = "quick" if ctx.quick else "thorough"
    ctx.extra["exhaustive"] = True
    ctx.extra["rule"] = "every template '%'+s (|s| <= MaxLen, 15 classes) for text and bytes with 2 concretisations; every cell of the conversion table (12 flag sets x 6 widths x 6 precisions x types x value pools)"
    ctx.assumptions += ["CPython 3.11's % operator validates the specification on every generated template and cell",
                        "'*' width/precision are resolved by the caller in this library and are only checked structurally"]
    for name, b in (("split", False), ("splitb", True)):
        r = ctx.tlc("fmt", "CFormat", "CFormat_%s_%s.cfg" % (name, tier), timeout=2400)
        ctx.require_coverage(r, ["SplitNext"])
        ctx.sample(r.replays[len(r.replays) // 2])
        run_split(ctx, r.replays, b, 2)
    r = ctx.tlc("fmt", "CFormat", "CFormat_format.cfg", timeout=1200)
    ctx.require_coverage(r, ["FormatCell"])
    ctx.sample(r.replays[len(r.replays) // 2])
    run_cells(ctx, r.replays)
    import checks.floatcells as fc
    fc.run_cformat_floats(ctx)


def replay(ctx, rec):
    c = rec["case"]
    ctx.states = ctx.transitions = 1
    if c["fam"] == "cfmt_cell":
        run_cells(ctx, [c["case"]])
    elif c["fam"] == "cfmt_split":
        case = c["case"]
        h = ctx.harness("default")
        req = c["request"]
        resp = h.run([req])[0]
        ctx.replayed += 1
        ok = ("ok" in resp) == case["ok"]
        if not ok or "panic" in resp:
            ctx.mismatch("cfmt_split.replay", {"input": req["s"], "observed": resp, "spec_ok": case["ok"], "spec_err": case["err"]}, c)
    else:
        import checks.floatcells as fc
        fc.replay_cell(ctx, c)
    ctx.sample(c)

"""C20 -- str.format templates and field names.

M: FormatString.tla (CPython MarkupIterator / field_name_split as machines) -- NormalFormOK, CursorOK, PartsOK.
G: every template <= MaxLen over the 12-class alphabet (bare, and wrapped in one replacement field), every field
   name <= MaxLen; expected parts / rejection replayed on FormatString::from_str and FieldName::parse.
T: seeded random longer templates, run on the real code, validated by TLC one call per event (FormatStringTrace).
Spec validation: every generated template is also given to CPython's _string.formatter_parser /
formatter_field_name_split; a disagreement between the specification and CPython is a specification bug
(reported as spec_reference_disagreement, excluded from the verdict).
"""
import json
import os

CH = {"LB": "{", "RB": "}", "LK": "[", "RK": "]", "BANG": "!", "COLON": ":", "DOT": ".", "0": "7", "a": "a",
      "PLUS": "+", "e2": "é", "d2": "٣", "SP": " ", "MINUS": "-"}
ALT = {"0": "0123456789", "a": "abz_Q", "e2": "éλЖ", "d2": "٣५"}


def conc(cls, rng=None):
    return "".join((rng.choice(ALT[c]) if rng and c in ALT else CH[c]) for c in cls)


def norm_expected_template(case, f):
    out = []
    for p in case["parts"]:
        if p["k"] == "lit":
            out.append({"k": "lit", "t": f(p["t"])})
        else:
            out.append({"k": "field", "name": f(p["name"]), "conv": f([p["conv"]]) if p["conv"] else "", "spec": f(p["spec"])})
    return out


def cpython_template(text):
    import _string
    try:
        out = []
        for lit, name, spec, conv in _string.formatter_parser(text):
            if lit:
                if out and out[-1]["k"] == "lit":
                    out[-1]["t"] += lit
                else:
                    out.append({"k": "lit", "t": lit})
            if name is not None:
                out.append({"k": "field", "name": name, "conv": conv or "", "spec": spec or ""})
        return out
    except ValueError:
        return None


def cpython_field(text):
    import _string
    try:
        first, rest = _string.formatter_field_name_split(text)
        parts = []
        for is_attr, v in rest:
            if is_attr:
                parts.append({"k": "attr", "t": v})
            elif isinstance(v, int):
                parts.append({"k": "item_index", "n": v})
            else:
                parts.append({"k": "item_key", "t": v})
        if isinstance(first, int):
            f = {"k": "index", "n": first}
        elif first == "":
            f = {"k": "auto"}
        else:
            f = {"k": "keyword", "t": first}
        return {"first": f, "parts": parts}
    except ValueError:
        return None


def expected_field(case, f):
    ps = case["parts"]
    def one(p, first):
        t = f(p["t"])
        if p["k"] in ("index", "item_index"):
            return {"k": p["k"], "n": int(t)}
        if p["k"] == "auto":
            return {"k": "auto"}
        return {"k": p["k"], "t": t}
    return {"first": one(ps[0], True), "parts": [one(p, False) for p in ps[1:]]}


def run_cases(ctx, cases, variants):
    h = ctx.harness("default")
    reqs, meta = [], []
    for case in cases:
        for v in range(variants):
            rng = ctx.rng if v else None
            # one concretisation per variant; the same choice must be used for input and expectation
            table = {c: (rng.choice(ALT[c]) if rng and c in ALT else CH[c]) for c in CH}
            f = lambda cls, table=table: "".join(table[c] for c in cls)
            text = f(case["inp"])
            op = "field_name" if case["fam"] == "field_name" else "fmt_template"
            reqs.append({"op": op, "s": text})
            meta.append((case, f))
    resps = h.run(reqs)
    disagreements = 0
    for (case, f), req, resp in zip(meta, reqs, resps):
        ctx.replayed += 1
        text = req["s"]
        ctx.distinct_cases.add(req["op"] + text)
        if case["fam"] == "field_name":
            want = expected_field(case, f) if case["ok"] else None
            ref = cpython_field(text)
        else:
            want = norm_expected_template(case, f) if case["ok"] else None
            ref = cpython_template(text)
        if ref != want:
            # the specification disagrees with the reference it formalises: a spec bug, never a violation
            disagreements += 1
            if disagreements <= 5:
                ctx.note("spec_reference_disagreement: %r spec=%s cpython=%s" % (text, want, ref))
            continue
        if case.get("depth", 0) >= 2:
            # more than one level of nested braces in a format spec: outside the property's stated scope
            ctx.extra["skipped_depth2"] = ctx.extra.get("skipped_depth2", 0) + 1
            continue
        got = resp.get("ok") if "ok" in resp else None
        if "panic" in resp or "timeout" in resp or "abort" in resp:
            ctx.mismatch("%s.panic" % req["op"], {"input": text, "resp": resp}, {"fam": case["fam"], "case": case, "request": req, "want": want})
            continue
        if got != want:
            sig = classify(req["op"], text, want, got, case)
            # the recorded findings are recognised exactly: the observed result must be what the pinned-implementation
            # mirror of the specification predicts; any other deviation is a new violation
            if case["fam"] != "field_name":
                pin = case.get("pinned", {})
                pinned_want = norm_expected_template({"parts": pin.get("parts", [])}, f) if pin.get("ok") else None
                sig += "#pinned" if got == pinned_want else "#new"
            ctx.mismatch(sig, {"input": text, "expected": want, "observed": resp},
                         {"fam": case["fam"], "case": case, "request": req, "want": want})
    ctx.extra["spec_reference_disagreements"] = ctx.extra.get("spec_reference_disagreements", 0) + disagreements


def tags_of(case):
    """Labels of the specification branches this behaviour went through (computed by the specification: TagsOf)."""
    return sorted(case.get("tags", []))


def classify(op, text, want, got, case=None):
    return classify0(op, text, want, got) + ("@" + "+".join(tags_of(case)) if case else "")


def classify0(op, text, want, got):
    """Signature of a mismatch: which decision differs (accept/reject, which part kind)."""
    if want is None:
        return op + ".accepts_invalid"
    if got is None:
        return op + ".rejects_valid"
    if op == "field_name":
        if want["first"] != got["first"]:
            return "field_name.head:%s->%s" % (want["first"]["k"], got["first"]["k"])
        for a, b in zip(want["parts"], got["parts"]):
            if a != b:
                return "field_name.part:%s->%s" % (a["k"], b["k"])
        return "field_name.parts_len"
    if len(want) != len(got):
        return "fmt_template.parts_len"
    for a, b in zip(want, got):
        if a != b:
            if a["k"] != b["k"]:
                return "fmt_template.part_kind"
            for key in a:
                if a[key] != b.get(key):
                    return "fmt_template.%s" % key
    return "fmt_template.other"


def run(ctx):
    tier = "quick" if ctx.quick else "thorough"
    ctx.extra["exhaustive"] = True
    ctx.extra["rule"] = "every class string <= MaxLen (templates: bare and wrapped in {..}; field names), 2 concretisations each; distinct = distinct concrete inputs"
    ctx.assumptions += ["CPython 3.11 _string.formatter_parser/formatter_field_name_split validate the specification on every generated input",
                        "format specs with more than one level of nested braces are outside the stated scope and skipped"]
    for mode in ("template", "field", "name"):
        r = ctx.tlc("fmt", "FormatString", "FormatString_%s_%s.cfg" % (mode, tier), timeout=2400)
        ctx.require_coverage(r, ["NameFirst", "NameNext"] if mode == "name" else ["MarkupNext"])
        ctx.sample(r.replays[len(r.replays) // 2])
        run_cases(ctx, r.replays, 2)
    trace_validation(ctx)


INV = {v: k for k, v in CH.items()}


def abstract(text):
    return [INV.get(ch, "a") for ch in text]


def trace_validation(ctx):
    """T: random longer inputs on the real code; TLC evaluates the specification on each logged call."""
    from vcheck import ToolError
    h = ctx.harness("default")
    n = 400 if ctx.quick else 4000
    alpha_t = ["LB", "RB", "LK", "RK", "BANG", "COLON", "DOT", "0", "a", "a", "PLUS", "e2"]
    weights_t = [5, 5, 2, 2, 2, 2, 2, 2, 4, 4, 1, 1]
    reqs, evs = [], []
    for k in range(n):
        op = "field_name" if k % 3 == 0 else "fmt_template"
        ln = ctx.rng.randint(5, 14)
        cls = ctx.rng.choices(alpha_t, weights_t, k=ln)
        if op == "field_name":
            cls = [c for c in cls if c not in ("LB", "RB", "COLON")]
        reqs.append({"op": op, "s": conc(cls)})
        evs.append({"op": op, "inp": cls})
    resps = h.run(reqs)
    for ev, resp in zip(evs, resps):
        if "ok" in resp:
            ev["ok"] = True
            if ev["op"] == "field_name":
                f = resp["ok"]["first"]
                ps = [{"k": f["k"], "t": abstract(f.get("t", str(f.get("n", ""))) if f["k"] != "auto" else "")}]
                if f["k"] == "index":
                    # the digits as written (leading zeros are not observable from the value): take them from the input
                    import re
                    ps[0]["t"] = abstract(re.match(r"[0-9]*", conc(ev["inp"])).group(0))
                for p in resp["ok"]["parts"]:
                    ps.append({"k": p["k"], "t": abstract(p["t"]) if "t" in p else None})
                ev["parts"] = ps
            else:
                ev["parts"] = [({"k": "lit", "t": abstract(p["t"])} if p["k"] == "lit" else
                                {"k": "field", "name": abstract(p["name"]), "conv": (abstract(p["conv"])[0] if p["conv"] else ""),
                                 "spec": abstract(p["spec"])}) for p in resp["ok"]]
        else:
            ev["ok"] = False
            ev["parts"] = []
    # item_index parts lose their spelling; give them the digits between the brackets of the input (spec compares class text)
    for ev in evs:
        if ev["op"] == "field_name" and ev["ok"]:
            import re
            items = re.findall(r"\[([^\]]*)\]", conc(ev["inp"]))
            it = iter(items)
            for p in ev["parts"][1:]:
                if p["k"] in ("item_index", "item_key"):
                    txt = next(it, "")
                    if p["t"] is None:
                        p["t"] = abstract(txt)
    path = os.path.join(os.environ["VERIF_WORK"], "c20-trace-%d.ndjson" % os.getpid())
    with open(path, "w") as f:
        for e in evs:
            f.write(json.dumps(e) + "\n")
    r = ctx.tlc("fmt", "FormatStringTrace", "FormatStringTrace.cfg", expect_ok=False, workers=1, dfs=True,
                env={"TRACE": path}, timeout=900, coverage=False)
    if not r.ok:
        raise ToolError("FormatStringTrace failed: %s\n%s" % (r.error, r.tail[-1500:]))
    bad = r.tagged.get("BAD", [[]])[-1]
    for b in bad:
        ev = evs[b["at"] - 1]
        text = conc(ev["inp"])
        # same narrow signatures as the replay direction: recompute the spec tags through a tiny TLC-free projection
        ctx.mismatch("%s.trace.%s@%s%s" % (ev["op"], b["why"], "+".join(sorted(b["tags"])), "" if ev["op"] == "field_name" else ("#pinned" if b.get("pinned") else "#new")), {"input": text, "observed": ev},
                     {"fam": "trace", "request": {"op": ev["op"], "s": text}})
    ctx.traces_validated += len(evs) - len(bad)
    os.remove(path)


def replay(ctx, rec):
    c = rec["case"]
    h = ctx.harness("default")
    resp = h.run([c["request"]])[0]
    ctx.replayed += 1
    ctx.states = ctx.transitions = 1
    got = resp.get("ok") if "ok" in resp else None
    if got != c["want"]:
        ctx.mismatch(classify(c["request"]["op"], c["request"]["s"], c["want"], got, c["case"]),
                     {"input": c["request"]["s"], "expected": c["want"], "observed": resp}, c)
    ctx.sample(c)

"""Driver for spec/lexer/SoftKw.tla (mirror of SoftKeywordTransformer) -- used by C01.

G  TLC explores the transformer machine on every lexer-producible token stream <= MaxLen over the alphabet (with the
   design invariants Shape, MidLineIsName, KeywordHasColon, TypeKeywordHasEqual, AliasNameIsName) and prints
   (raw, out) for every stream.  Here each stream is rendered to text; the real lexer must produce that raw stream
   (sanity of the rendering), and `lex()` (lexer + transformer) must produce exactly the mirror's decisions.
   Then every completion of the text that the reference (CPython 3.11, 3.12 for PEP 695) accepts is parsed and the
   tree compared with the reference tree.  The *role* the reference gives each soft keyword token is read off the
   reference tree; a difference is attributed to the heuristic (known finding F-C01-2) only when the mirror's
   decision differs from the reference role for some token of the text -- i.e. the specification predicts the gap.
T  SoftKwTrace.tla validates (raw, transformed) token kinds recorded from real source files, one event per logical line.
"""
import json
import os
import re

import pytree
from checks import pygen, lexcommon as lx, syntaxrun as sr

REN = {"Match": "match", "Case": "case", "Type": "type", "Name": "x", "Colon": ":", "Equal": "=", "Lpar": "(", "Rpar": ")",
       "Lsqb": "[", "Rsqb": "]", "Lbrace": "{", "Rbrace": "}", "Lambda": "lambda", "Comma": ",", "Dot": ".", "Semi": ";",
       "Int": "1", "Newline": "\n", "Comment": "# c", "NonLogicalNewline": "\n", "Star": "*", "Minus": "-", "Vbar": "|", "As": "as", "If": "if"}
SOFT = ("Match", "Case", "Type")


def render(raw, indent=""):
    """text of a stream (tokens separated by one space) and the character offset of every token"""
    out, offs = [], []
    n = 0
    bol = True
    for k in raw:
        if k in ("Newline", "NonLogicalNewline"):
            offs.append(n)
            out.append("\n")
            n += 1
            bol = True
            continue
        lead = indent if bol else " "
        out.append(lead + REN[k])
        offs.append(n + len(lead))
        n += len(lead) + len(REN[k])
        bol = False
    return "".join(out), offs


def kinds(resp):
    return [lx.tok_kind(t[0]) for t in resp.get("toks", [])]


def completions(raw):
    """candidate programs containing the stream's lines: (label, text, offsets of the stream's tokens)"""
    t0, o0 = render(raw)
    yield "plain", t0, o0
    yield "header", t0 + "    case _: pass\n", o0
    t1, o1 = render(raw, "    ")
    pre = "match x:\n"
    yield "inmatch", pre + t1, [o + len(pre) for o in o1]
    yield "inmatch+body", pre + t1 + "        pass\n", [o + len(pre) for o in o1]


def name_positions(tree, acc):
    """start offsets of tokens the reference uses as identifiers"""
    if isinstance(tree, dict):
        k = tree.get("k")
        r = tree.get("range")
        if r:
            if k in ("Name", "keyword", "arg", "MatchStar", "alias"):
                acc.add(r[0])
            elif k == "MatchAs" and tree.get("pattern") is None and tree.get("name") is not None:
                acc.add(r[0])
            elif k == "MatchAs" and tree.get("name") is not None:
                acc.add(r[1] - len(tree["name"]))
            elif k == "Attribute":
                acc.add(r[1] - len(tree["attr"]))
            elif k == "MatchMapping" and tree.get("rest"):
                pass
        for v in tree.values():
            name_positions(v, acc)
    elif isinstance(tree, list):
        for v in tree:
            name_positions(v, acc)
    return acc


def top_kinds(tree):
    return "+".join(s.get("k", "?") for s in tree.get("body", [])[:3]) if isinstance(tree.get("body"), list) else "?"


def classify(ctx, s, label, text, offs, ref, resp):
    """(signature, detail, predicted-gap?) of one parsed completion against the reference tree, or (None, None, False)"""
    names = name_positions(ref, set())
    gap = [(k, "kw" if k == o else "name", "name" if off in names else "kw")
           for k, o, off in zip(s["raw"], s["out"], offs) if k in SOFT]
    gap = [g for g in gap if g[1] != g[2]]
    bad = None
    treesig = None
    if "ok" not in resp:
        bad = "rejects" if "err" in resp else "crash"
    else:
        want = pytree.strip_ranges(ref)
        if s.get("mode") == "Interactive":
            want = dict(want, k="Interactive")
        d = pytree.tree_diff(want, pytree.strip_ranges(pytree.from_rust(resp["ok"])))
        if d:
            bad = "tree"
            treesig = "tree@" + sr.tree_sig(d)
    if bad is None:
        if gap:
            # decision differs from the reference role and yet the tree is right: the role computation is wrong
            ctx.note("softkw: role/decision differ on an agreeing program %r %s" % (text, gap))
        return None, None, False
    if gap and bad == "rejects":
        g = gap[0]
        return "softkw.gap:%s=%s,reference=%s:%s" % (g[0], g[1], g[2], top_kinds(ref)), {"src": text, "decisions": s["out"]}, True
    if bad == "tree" and not gap:
        # the soft keywords were classified as the reference does: an ordinary tree difference, named as C01 names it
        return treesig, {"src": text, "mode": s.get("mode"), "decisions": s["out"]}, False
    return "softkw.%s:%s:%s" % (bad, label, top_kinds(ref)), {"src": text, "decisions": s["out"], "observed": str(resp)[:300]}, False


def run_streams(ctx):
    from vcheck import ToolError
    tier = "quick" if ctx.quick else "thorough"
    streams = []
    for cfg, mode in (("SoftKw_%s.cfg" % tier, "Module"), ("SoftKw_brackets_%s.cfg" % tier, "Module"),
                      ("SoftKw_interactive_%s.cfg" % tier, "Interactive"), ("SoftKw_expression_%s.cfg" % tier, "Expression")):
        r = ctx.tlc("lexer", "SoftKw", cfg, coverage=False, timeout=3000)
        for c in r.replays:
            c["mode"] = mode
        streams += r.replays
    seen = set()
    streams = [s for s in streams if not ((s["mode"],) + tuple(s["raw"]) in seen or seen.add((s["mode"],) + tuple(s["raw"])))]
    if len(streams) < 1000:
        raise ToolError("vacuity: SoftKw generated %d streams" % len(streams))
    h = ctx.harness("default")
    # 1. binding: the real transformer makes the mirror's decisions (the mode only sets the initial start_of_line)
    reqs = []
    for s in streams:
        text, _ = render(s["raw"])
        reqs.append({"op": "lex_raw", "src": text, "mode": s["mode"]})
        reqs.append({"op": "lex", "src": text, "mode": s["mode"]})
    resps = h.run(reqs)
    render_mismatch = 0
    kept = 0
    decided = {"kw": 0, "name": 0}
    for i, s in enumerate(streams):
        text = reqs[2 * i]["src"]
        rawk, outk = kinds(resps[2 * i]), kinds(resps[2 * i + 1])
        ctx.replayed += 1
        ctx.distinct_cases.add("sk" + s["mode"][0] + text)
        base = {"fam": "softkw", "stream": s, "src": text}
        if "toks" not in resps[2 * i + 1] or "toks" not in resps[2 * i]:
            ctx.mismatch("softkw.crash", {"src": text, "observed": str(resps[2 * i + 1])[:300]}, base)
            continue
        if rawk != s["raw"] or resps[2 * i].get("err"):
            render_mismatch += 1
            continue
        kept += 1
        for a, b in zip(s["raw"], s["out"]):
            if a in SOFT:
                decided["kw" if a == b else "name"] += 1
        if outk != s["out"] or resps[2 * i + 1].get("err"):
            j = next((j for j, (a, b) in enumerate(zip(outk, s["out"])) if a != b), min(len(outk), len(s["out"])))
            ctx.mismatch("softkw.mirror[%s]:%s:%s" % (s["mode"], s["raw"][j] if j < len(s["raw"]) else "len", "spec=%s" % (s["out"][j] if j < len(s["out"]) else "-")),
                         {"src": text, "mode": s["mode"], "raw": s["raw"], "spec_out": s["out"], "observed": outk}, base)
    if render_mismatch:
        raise ToolError("SoftKw rendering: %d streams were lexed to a different raw token stream" % render_mismatch)
    ctx.extra["softkw_streams"] = kept
    ctx.extra["softkw_decisions"] = decided
    if decided["kw"] < 50 or decided["name"] < 50:
        raise ToolError("vacuity: soft keyword decisions %s" % decided)
    # 2. every completion the reference accepts parses to the reference tree, except where the mirror predicts the gap
    cands = []
    for s in streams:
        if s["mode"] == "Expression":
            continue
        for label, text, offs in completions(s["raw"]):
            cands.append((s, label, text, offs))
    refs = [pytree.from_cpython(t, "Module") for (_, _, t, _) in cands]
    miss = [i for i, rf in enumerate(refs) if rf is None and "type" in cands[i][2]]
    if miss:
        got = pygen.Py312().trees([(cands[i][2], "Module") for i in miss])
        for i, g in zip(miss, got):
            refs[i] = g
    todo = [i for i, rf in enumerate(refs) if rf is not None]
    presps = h.run([{"op": "parse", "src": cands[i][2], "mode": cands[i][0]["mode"]} for i in todo])
    ctx.extra["softkw_reference_accepted"] = len(todo)
    gaps = 0
    for i, resp in zip(todo, presps):
        s, label, text, offs = cands[i]
        ref = refs[i]
        ctx.replayed += 1
        ctx.distinct_cases.add("skp" + text)
        base = {"fam": "softkw_parse", "stream": s, "src": text, "label": label}
        sig, detail, isgap = classify(ctx, s, label, text, offs, ref, resp)
        if sig:
            gaps += 1 if isgap else 0
            ctx.mismatch(sig, detail, base)
    ctx.extra["softkw_predicted_gaps"] = gaps


def run_features(ctx):
    """C10: SoftKwFeat.tla (FilterOK model-checked); the full-lexer build makes the full machine's decisions and the
    default build the plain machine's on every generated stream"""
    from vcheck import ToolError
    tier = "quick" if ctx.quick else "thorough"
    r = ctx.tlc("lexer", "SoftKwFeat", "SoftKwFeat_%s.cfg" % tier, coverage=False, timeout=3000)
    if len(r.replays) < 1000:
        raise ToolError("vacuity: SoftKwFeat generated %d streams" % len(r.replays))
    reqs = [{"op": "lex", "src": render(c["raw"])[0], "mode": "Module"} for c in r.replays]
    full = ctx.harness("full").run(reqs)
    plain = ctx.harness("default").run(reqs)
    rawreq = [{"op": "lex_raw", "src": q["src"], "mode": "Module"} for q in reqs]
    fraw = ctx.harness("full").run(rawreq)
    bad_render = 0
    for c, q, f, p, fr in zip(r.replays, reqs, full, plain, fraw):
        ctx.replayed += 1
        ctx.distinct_cases.add("skf" + q["src"])
        base = {"fam": "softkw_feat", "stream": c, "src": q["src"]}
        if "toks" not in f or "toks" not in p or "toks" not in fr:
            ctx.mismatch("softkw.feat.crash", {"src": q["src"], "observed": str(f)[:200]}, base)
            continue
        if kinds(fr) != c["raw"] or fr.get("err"):
            bad_render += 1
            continue
        if kinds(f) != c["out"]:
            ctx.mismatch("softkw.feat.full_mirror", {"src": q["src"], "spec": c["out"], "observed": kinds(f)}, base)
        if kinds(p) != c["plain"]:
            ctx.mismatch("softkw.feat.plain_mirror", {"src": q["src"], "spec": c["plain"], "observed": kinds(p)}, base)
    if bad_render > len(r.replays) // 50:
        raise ToolError("SoftKwFeat rendering: %d of %d streams were lexed to a different raw stream by the full-lexer build" % (bad_render, len(r.replays)))
    ctx.extra["softkw_feat_streams"] = len(r.replays) - bad_render
    ctx.extra["softkw_feat_unrendered"] = bad_render


def replay_features(ctx, c):
    q = {"op": "lex", "src": c["src"], "mode": "Module"}
    f = ctx.harness("full").run([q])[0]
    p = ctx.harness("default").run([q])[0]
    ctx.replayed += 1
    if kinds(f) != c["stream"]["out"]:
        ctx.mismatch("softkw.feat.full_mirror", {"src": c["src"], "observed": kinds(f)}, c)
    if kinds(p) != c["stream"]["plain"]:
        ctx.mismatch("softkw.feat.plain_mirror", {"src": c["src"], "observed": kinds(p)}, c)


def record_lines(ctx, sources):
    """(raw kinds, transformed kinds) per logical line of each source"""
    h = ctx.harness("default")
    reqs = []
    for s in sources:
        reqs.append({"op": "lex_raw", "src": s, "mode": "Module"})
        reqs.append({"op": "lex", "src": s, "mode": "Module"})
    resps = h.run(reqs)
    events, owners = [], []
    for k, s in enumerate(sources):
        a, b = resps[2 * k], resps[2 * k + 1]
        if "toks" not in a or "toks" not in b:
            ctx.mismatch("softkw.crash", {"observed": str(b)[:300]}, {"fam": "softkw_trace", "src": s[:20000]})
            continue
        rawk, outk = kinds(a), kinds(b)
        if len(rawk) != len(outk):
            ctx.mismatch("softkw.trace_length", {"raw": len(rawk), "out": len(outk)}, {"fam": "softkw_trace", "src": s[:20000]})
            continue
        start = 0
        first = True
        for j, kd in enumerate(rawk):
            if kd == "Newline" or j == len(rawk) - 1:
                events.append({"raw": rawk[start:j + 1], "out": outk[start:j + 1], "first": first})
                owners.append(k)
                first = False
                start = j + 1
    return events, owners


def validate_lines(ctx, events, owners, sources):
    from vcheck import ToolError
    if not events:
        return
    path = os.path.join(os.environ["VERIF_WORK"], "softkw-trace-%d.ndjson" % os.getpid())
    with open(path, "w") as f:
        for e in events:
            f.write(json.dumps(e) + "\n")
    r = ctx.tlc("lexer", "SoftKwTrace", "SoftKwTrace.cfg", expect_ok=False, workers=1, dfs=True, env={"TRACE": path},
                timeout=3000, coverage=False, heap="8g")
    if r.ok:
        ctx.traces_validated += len(set(owners))
        ctx.extra["softkw_trace_lines"] = len(events)
        ctx.extra["softkw_trace_soft_tokens"] = sum(1 for e in events for k in e["raw"] if k in SOFT)
    else:
        mm = re.search(r"UNMATCHED at (\d+)", r.tail)
        if not mm:
            raise ToolError("SoftKwTrace failed to run: %s\n%s" % (r.error, r.tail[-2000:]))
        at = int(mm.group(1))
        ev = events[at - 1] if 0 < at <= len(events) else None
        k = owners[at - 1] if 0 < at <= len(owners) else -1
        ctx.mismatch("softkw.trace_rejected", {"first_unmatched_line": ev, "index": at, "file_index": k},
                     {"fam": "softkw_trace", "src": sources[k][:20000] if k >= 0 else ""})
    try:
        os.remove(path)
    except OSError:
        pass


SNIPPETS = [
    "match x:\n    case 1: pass\n    case [a, *b]: pass\n    case {'k': v}: pass\n    case Point(x=0) | None: pass\n    case _ if x: pass\n",
    "match = 1\ncase = match\ntype = case\nprint(match, case, type)\nmatch(x)\ntype(x)\nmatch[0] = 1\nmatch.x = 2\n",
    "type X = int\ntype Y[T] = list[T]\ntype match = int\ntype type = type\n",
    "match (x := 1):\n    case lambda: 1\n",
    "match x: # c\n    case y if (lambda: 1)(): pass\n",
    "if x:\n    match y:\n        case 1:\n            type Z = int\n        case _:\n            match = 3\n",
    "match x,:\n    case (1,): pass\nmatch -x:\n    case 1: pass\nmatch *a, b:\n    case [*_]: pass\n",
    "x = {match: case for type in y}\nf(match=1, case=2, type=3)\nclass A:\n    match: int\n    type: str = ''\n",
]


def run_trace(ctx):
    files = lx.corpus_files(ctx, limit_quick=8, max_bytes_quick=25000)
    sources = [open(f, encoding="utf-8").read() for f in files]
    patma = os.path.join(pygen.ROOT, "corpus", "py", "test_patma.py")
    if ctx.quick and os.path.exists(patma):
        sources.append("\n".join(open(patma, encoding="utf-8").read().split("\n")[:1200]) + "\n")
    sources += SNIPPETS
    events, owners = record_lines(ctx, sources)
    validate_lines(ctx, events, owners, sources)


def run(ctx):
    run_streams(ctx)
    run_trace(ctx)


def replay(ctx, c):
    h = ctx.harness("default")
    if c["fam"] == "softkw":
        s = c["stream"]
        resp = h.run([{"op": "lex", "src": c["src"], "mode": s.get("mode", "Module")}])[0]
        ctx.replayed += 1
        if kinds(resp) != s["out"]:
            ctx.mismatch("softkw.mirror:replay", {"src": c["src"], "spec_out": s["out"], "observed": kinds(resp)}, c)
    elif c["fam"] == "softkw_parse":
        st = c["stream"]
        resp = h.run([{"op": "parse", "src": c["src"], "mode": st.get("mode", "Module")}])[0]
        ctx.replayed += 1
        ref = pytree.from_cpython(c["src"], "Module") or pygen.Py312().trees([(c["src"], "Module")])[0]
        offs = next((o for (lb, t, o) in completions(st["raw"]) if lb == c.get("label")), None)
        if ref is not None and offs is not None:
            sig, detail, _ = classify(ctx, st, c.get("label"), c["src"], offs, ref, resp)
            if sig:
                ctx.mismatch(sig, detail, c)
    else:
        events, owners = record_lines(ctx, [c["src"]])
        validate_lines(ctx, events, owners, [c["src"]])

"""C06 -- string, bytes and numeric literals decode to their Python values.

Specs: spec/literal/StrLit.tla (escape decoding, line-ending normalisation, where a literal ends, prefixes, implicit
concatenation) and spec/literal/NumLit.tla (the automaton of numeric literals: class, radix, cleaned digits).
G: TLC enumerates every literal body up to MaxLen over the alphabets (deep: 24 characters chosen per decoder rule;
   sweep: backslash followed by every printable ASCII character and every special; prefix: every spelling of every
   prefix) x literal forms, with the value computed by the specification.  Each case is first validated against
   CPython (ast.literal_eval of the same source): a disagreement is a specification bug, counted and excluded.  Then
   the parser's Constant must carry exactly that value and kind marker, and the lexer's token the literal's text.
   Numeric literals: every literal of the automaton up to MaxLen (plus upper-case spellings); value = reference
   conversion of the specification's cleaned digits in its radix, compared exactly (floats bit for bit).
   Magnitude pools (the arithmetic itself cannot be specified in TLC's 32-bit integers): boundary and halfway
   doubles, long digit strings, random decimal strings and exponents, integers up to thousands of digits in each
   radix with underscores, imaginary literals.
"""
import ast as pyast
import json
import random
import struct

Q = {"SQ": "'", "DQ": '"'}
SUBST = {"<E9>": "é", "<1F600>": "\U0001F600"}


def subst(s):
    for k, v in SUBST.items():
        s = s.replace(k, v)
    return s


def lit_src(c, second=False):
    sfx = "2" if second else ""
    q = Q[c["q" + sfx]] * (3 if c["triple" + sfx] else 1)
    return c["prefix" + sfx] + q + subst(c["body" + sfx]) + q


def source_of(c):
    s = lit_src(c)
    if "body2" in c:
        s += " " + lit_src(c, True)
    return s


def ref_value(src):
    """CPython's evaluation: (list of code points / bytes, kind marker) or None"""
    import warnings
    try:
        with warnings.catch_warnings():
            warnings.simplefilter("ignore")
            node = pyast.parse(src, mode="eval").body
    except (SyntaxError, ValueError):
        return None
    if not isinstance(node, pyast.Constant):
        return None
    v = node.value
    if isinstance(v, str):
        return [ord(ch) for ch in v], node.kind
    if isinstance(v, bytes):
        return list(v), node.kind
    return None


def rust_value(resp):
    """(code points / bytes, kind) from a parse response of an expression"""
    if "ok" not in resp:
        return None
    body = resp["ok"]["body"]
    if body.get("_t") != "ExprConstant":
        return ("?" + str(body.get("_t")), None)
    v = body["value"]
    if isinstance(v, dict) and v.get("_k") == "Str":
        return [ord(ch) for ch in v["_a"][0]], body.get("kind")
    if isinstance(v, dict) and v.get("_k") == "Bytes":
        return list(v["_a"][0]), body.get("kind")
    return ("?" + json.dumps(v)[:40], None)


def rule_of(c):
    """which decoder rule a case exercises first (for signatures)"""
    b = c["body"] + c.get("body2", "")
    i = b.find("\\")
    what = "plain"
    if i >= 0 and i + 1 < len(b):
        n = b[i + 1]
        what = "esc_" + ("oct" if n in "01234567" else "nl" if n in "\r\n" else n if n.isalnum() else "punct")
    elif "\r" in b:
        what = "cr"
    return "%s%s%s" % (c["kind"], "+raw" if "r" in c["prefix"].lower() else "", ":" + what)


def run_strings(ctx, cfg, label, limit):
    r = ctx.tlc("literal", "StrLit", cfg, coverage=False, timeout=3000)
    cases = r.replays
    from vcheck import ToolError
    if len(cases) < 1000:
        raise ToolError("vacuity: %s emitted %d cases" % (cfg, len(cases)))
    if len(cases) > limit:
        cases = cases[::(len(cases) + limit - 1) // limit]
        ctx.extra["exhaustive"] = False
    h = ctx.harness("default")
    reqs, meta = [], []
    dis = 0
    rejected_by_spec = 0
    for c in cases:
        src = source_of(c)
        ref = ref_value(src)
        want = c["want"]
        if want["ok"] != (ref is not None) or (ref is not None and (ref[0] != want["val"] or (ref[1] == "u") != c["u"])):
            dis += 1
            if dis <= 5:
                ctx.note("spec_reference_disagreement[%s]: %r spec=%s cpython=%s" % (label, src, json.dumps(want)[:80], str(ref)[:80]))
            continue
        if not want["ok"]:
            rejected_by_spec += 1
            continue
        reqs.append({"op": "parse", "src": src, "mode": "Expression"})
        meta.append(c)
    for c, req, resp in zip(meta, reqs, h.run(reqs)):
        ctx.replayed += 1
        check_string(ctx, c, req["src"], resp)
    ctx.distinct_cases.update(r["src"] for r in reqs)
    ctx.extra["spec_reference_disagreements"] = ctx.extra.get("spec_reference_disagreements", 0) + dis
    ctx.extra.setdefault("string_cases", {})[label] = {"accepted": len(reqs), "invalid_in_spec_and_reference": rejected_by_spec}
    if meta:
        ctx.sample({"literal": reqs[len(reqs) // 2]["src"], "value": meta[len(reqs) // 2]["want"]["val"]})


def check_string(ctx, c, src, resp):
    base = {"fam": "str", "case": c, "src": src}
    # a lone surrogate is stored as U+FFFD by this parser (documented difference)
    want = [0xFFFD if 0xD800 <= cp <= 0xDFFF and c["kind"] == "str" else cp for cp in c["want"]["val"]]
    got = rust_value(resp)
    if got is None:
        ctx.mismatch("strlit.rejected@%s" % rule_of(c), {"src": src, "observed": str(resp)[:200]}, base)
    elif got[0] != want:
        ctx.mismatch("strlit.value@%s" % rule_of(c), {"src": src, "expected": want[:20], "observed": got[0][:20] if isinstance(got[0], list) else got[0]}, base)
    elif (got[1] == "u") != c["u"]:
        ctx.mismatch("strlit.kind[%s]@%s" % (c["prefix"], rule_of(c)), {"src": src, "expected_u": c["u"], "observed": got[1]}, base)


# ---------------------------------------------------------------------------------------------- numbers
def num_ref(text):
    try:
        v = pyast.literal_eval(text)
    except (SyntaxError, ValueError, MemoryError):
        return None
    if isinstance(v, bool) or not isinstance(v, (int, float, complex)):
        return None
    return v


def fbits(x):
    return struct.unpack("<Q", struct.pack("<d", x))[0]


def num_rust(resp):
    if "ok" not in resp:
        return None
    body = resp["ok"]["body"]
    if body.get("_t") != "ExprConstant":
        return ("node", body.get("_t"))
    v = body["value"]
    k = v.get("_k") if isinstance(v, dict) else None
    if k == "Int":
        a = v["_a"][0]
        return ("int", int(a["_big"]) if isinstance(a, dict) else int(a))
    if k == "Float":
        a = v["_a"][0]
        return ("float", float(a["_f"] if isinstance(a, dict) else a))
    if isinstance(v, dict) and (v.get("_t") == "Complex" or k == "Complex"):
        def f(x):
            return float(x["_f"] if isinstance(x, dict) else x)
        return ("imag", complex(f(v["real"]), f(v["imag"])))
    return ("other", json.dumps(v)[:40])


def same_num(kind, a, b):
    if kind == "int":
        return a == b
    if kind == "float":
        return fbits(a) == fbits(b)
    return fbits(a.real) == fbits(b.real) and fbits(a.imag) == fbits(b.imag)


def shape_of(text):
    t = text.lower()
    s = "hex" if t.startswith("0x") else "oct" if t.startswith("0o") else "bin" if t.startswith("0b") else "dec"
    return s + ("_us" if "_" in t else "") + ("_pt" if "." in t and s == "dec" else "") + ("_exp" if s == "dec" and "e" in t else "") + ("_j" if t.endswith("j") else "") + ("_lz" if s == "dec" and len(t) > 1 and t[0] == "0" and t[1] in "0123456789_" else "")


def check_numbers(ctx, items, label):
    """items: (text, expected class or None, reference value)"""
    h = ctx.harness("default")
    reqs = [{"op": "parse", "src": t, "mode": "Expression"} for t, k, v in items]
    for (t, k, v), req, resp in zip(items, reqs, h.run(reqs)):
        ctx.replayed += 1
        base = {"fam": "num", "src": t}
        got = num_rust(resp)
        kind = "int" if isinstance(v, int) else "float" if isinstance(v, float) else "imag"
        if got is None:
            ctx.mismatch("numlit.rejected@%s" % shape_of(t), {"src": t[:80], "observed": str(resp)[:200]}, base)
        elif got[0] != kind:
            ctx.mismatch("numlit.class@%s:%s->%s" % (shape_of(t), kind, got[0]), {"src": t[:80], "observed": str(got)[:80]}, base)
        elif not same_num(kind, v, got[1]):
            ctx.mismatch("numlit.value@%s" % shape_of(t), {"src": t[:80], "expected": repr(v)[:60], "observed": repr(got[1])[:60]}, base)
    ctx.distinct_cases.update(t for t, k, v in items)
    ctx.extra.setdefault("number_cases", {})[label] = len(items)


UPPER = str.maketrans("exobjaf", "EXOBJAF")


def run_numbers(ctx):
    r = ctx.tlc("literal", "NumLit", "NumLit_%s.cfg" % ("quick" if ctx.quick else "thorough"), coverage=False, timeout=3000)
    from vcheck import ToolError
    if len(r.replays) < 10000:
        raise ToolError("vacuity: NumLit.tla emitted %d literals" % len(r.replays))
    items, dis = [], 0
    for i, c in enumerate(r.replays):
        text = c["text"]
        ref = num_ref(text)
        # the specification's reading of the literal against the reference
        ok = ref is not None
        if ok:
            if c["class"] == "int":
                ok = isinstance(ref, int) and int(c["clean"], c["radix"]) == ref
            elif c["class"] == "float":
                ok = isinstance(ref, float) and fbits(float(c["clean"])) == fbits(ref)
            else:
                ok = isinstance(ref, complex) and ref.real == 0.0 and fbits(float(c["clean"])) == fbits(ref.imag)
        if not ok:
            dis += 1
            if dis <= 5:
                ctx.note("spec_reference_disagreement[num]: %r spec=%s cpython=%r" % (text, c, ref))
            continue
        items.append((text, c["class"], ref))
        if i % 4 == 0 and text.translate(UPPER) != text:
            items.append((text.translate(UPPER), c["class"], ref))
    ctx.extra["spec_reference_disagreements"] = ctx.extra.get("spec_reference_disagreements", 0) + dis
    check_numbers(ctx, items, "automaton")
    ctx.sample({"number_literal": items[len(items) // 2][0]})


def is_number_literal_ref(text):
    """CPython: the whole text is one numeric literal"""
    try:
        with __import__("warnings").catch_warnings():
            __import__("warnings").simplefilter("ignore")
            n = pyast.parse(text, mode="eval").body
    except (SyntaxError, ValueError, MemoryError):
        return False
    return (isinstance(n, pyast.Constant) and isinstance(n.value, (int, float, complex)) and not isinstance(n.value, bool)
            and n.col_offset == 0 and n.end_col_offset == len(text))


def run_number_strings(ctx):
    """every string over the numeric alphabet (not only the automaton's viable prefixes): it is a numeric literal for the
    parser exactly when the automaton accepts it"""
    r = ctx.tlc("literal", "NumLit", "NumLit_all_%s.cfg" % ("quick" if ctx.quick else "thorough"), coverage=False, timeout=3000)
    from vcheck import ToolError
    if len(r.replays) < 10000:
        raise ToolError("vacuity: NumLit (all strings) emitted %d strings" % len(r.replays))
    h = ctx.harness("default")
    cases, dis = [], 0
    for c in r.replays:
        ref = is_number_literal_ref(c["text"])
        if ref != (c["class"] != "none"):
            dis += 1
            if dis <= 5:
                ctx.note("spec_reference_disagreement[numstrings]: %r spec=%s cpython_literal=%s" % (c["text"], c["class"], ref))
            continue
        cases.append(c)
    ctx.extra["spec_reference_disagreements"] = ctx.extra.get("spec_reference_disagreements", 0) + dis
    reqs = [{"op": "parse", "src": c["text"], "mode": "Expression"} for c in cases]
    n_none = 0
    for c, req, resp in zip(cases, reqs, h.run(reqs)):
        ctx.replayed += 1
        t = c["text"]
        lit = False
        if "ok" in resp:
            b = resp["ok"]["body"]
            v = b.get("value") if b.get("_t") == "ExprConstant" else None
            isnum = isinstance(v, dict) and (v.get("_k") in ("Int", "Float") or v.get("_t") == "Complex" or v.get("_k") == "Complex")
            lit = bool(isnum and b.get("range") == [0, len(t.encode("utf-8"))])
        if c["class"] == "none":
            n_none += 1
            if lit:
                ctx.mismatch("numlit.nonliteral_accepted@%s" % shape_of(t), {"src": t, "observed": str(resp)[:160]}, {"fam": "numstr", "src": t, "class": "none"})
        elif not lit:
            ctx.mismatch("numlit.literal_not_recognised@%s" % shape_of(t), {"src": t, "observed": str(resp)[:160]}, {"fam": "numstr", "src": t, "class": c["class"]})
    ctx.extra.setdefault("number_cases", {})["all_strings"] = len(cases)
    ctx.extra["number_strings_not_literals"] = n_none


QUOTED_BODIES = ("'x'", '"x"', "'" * 3 + "x" + "'" * 3, '"' * 3 + "x" + '"' * 3)


def run_prefixes(ctx):
    """StrPrefix.tla: every letter sequence up to three letters in front of a quoted body, in four quote styles"""
    import warnings
    r = ctx.tlc("literal", "StrPrefix", "StrPrefix.cfg", coverage=False, timeout=600)
    from vcheck import ToolError
    if len(r.replays) < 800:
        raise ToolError("vacuity: StrPrefix emitted %d prefixes" % len(r.replays))
    h = ctx.harness("default")
    items, dis = [], 0
    for c in r.replays:
        for q in QUOTED_BODIES:
            src = c["prefix"] + q
            try:
                with warnings.catch_warnings():
                    warnings.simplefilter("ignore")
                    n = pyast.parse(src, mode="eval").body
                ref = isinstance(n, (pyast.Constant, pyast.JoinedStr)) and n.col_offset == 0 and n.end_col_offset == len(src)
                refkind = ("fstring" if isinstance(n, pyast.JoinedStr) else "bytes" if isinstance(n.value, bytes) else "str") if ref else None
                refu = (getattr(n, "kind", None) == "u") if ref else False
            except (SyntaxError, ValueError):
                ref, refkind, refu = False, None, False
            if ref != c["valid"] or (ref and (refkind != c["kind"] or refu != c["u"])):
                dis += 1
                ctx.note("spec_reference_disagreement[prefix]: %r spec=%s cpython=%s/%s" % (src, c, ref, refkind))
                continue
            items.append((c, src))
    ctx.extra["spec_reference_disagreements"] = ctx.extra.get("spec_reference_disagreements", 0) + dis
    for (c, src), resp in zip(items, h.run([{"op": "parse", "src": s, "mode": "Expression"} for c, s in items])):
        ctx.replayed += 1
        base = {"fam": "prefix", "src": src, "valid": c["valid"], "kind": c["kind"], "u": c["u"]}
        got = None
        if "ok" in resp:
            b = resp["ok"]["body"]
            if b.get("range") == [0, len(src)]:
                if b.get("_t") == "ExprJoinedStr":
                    got = ("fstring", False)
                elif b.get("_t") == "ExprConstant" and isinstance(b.get("value"), dict) and b["value"].get("_k") in ("Str", "Bytes"):
                    got = ("bytes" if b["value"]["_k"] == "Bytes" else "str", b.get("kind") == "u")
        if c["valid"] and got is None:
            ctx.mismatch("prefix.not_recognised[%s]" % c["prefix"].lower(), {"src": src, "observed": str(resp)[:160]}, base)
        elif not c["valid"] and got is not None:
            ctx.mismatch("prefix.accepted[%s]" % c["prefix"].lower(), {"src": src}, base)
        elif c["valid"] and got[0] != c["kind"]:
            ctx.mismatch("prefix.kind[%s]:%s->%s" % (c["prefix"].lower(), c["kind"], got[0]), {"src": src}, base)
        elif c["valid"] and got[1] != c["u"]:
            ctx.mismatch("strlit.kind[%s]@prefix" % c["prefix"], {"src": src, "expected_u": c["u"], "observed_u": got[1]}, base)
    ctx.extra.setdefault("string_cases", {})["prefix_sequences"] = len(items)


def pools(ctx):
    rng = random.Random(ctx.seed)
    n = 1500 if ctx.quick else 60000
    texts = ["9007199254740993", "9007199254740993.0", "1.00000000000000011102230246251565404236316680908203125", "1.00000000000000011102230246251565404236316680908203124",
             "1.00000000000000011102230246251565404236316680908203126", "2.4703282292062327e-324", "2.4703282292062328e-324", "4.9e-324", "5e-324", "2.2250738585072011e-308",
             "2.2250738585072014e-308", "1.7976931348623157e308", "1.7976931348623158e308", "1.7976931348623159e308", "1.8e308", "1e309", "1e-400", "0.0e999", "0e-999",
             "123456789012345678901234567890.0", "1" + "0" * 400 + ".0", "0." + "0" * 400 + "1", "8.5", "0.5", "1e23", "8.41e21", "1e22", "3.0e-310", "6.02214076e23",
             "0.1", "0.2", "0.3", "1.1", "2.5e-5", "179769313486231580793728971405303415079934132710037826936173778980444968292764750946649017977587207096330286416692887910946555547851940402630657488671505820681908902000708383676273854845817711531764475730270069855571366959622842914819860834936475292719074168444365510704342711559699508093042880177904174497791.9999999999999999999999999999999999999999999999999999999999999999999999",
             "2" * 770 + ".0", "1e+00000000000000000000000000001", "1_000.000_1e1_0", "0" * 50 + "1.5", "00000.0", "0e0", ".0", "0.", "1.e1", "1e0j", "0j", "1_0j", "0.0_0j"]
    while len(texts) < n // 2:
        digits = "".join(rng.choice("0123456789") for _ in range(rng.randint(1, 40)))
        if rng.random() < 0.7:
            p = rng.randint(0, len(digits))
            digits = digits[:p] + "." + digits[p:]
            if digits == ".":
                continue
        if rng.random() < 0.6 or "." not in digits:
            digits += rng.choice("eE") + rng.choice(["", "+", "-"]) + str(rng.randint(0, 400 if rng.random() < 0.8 else 20))
        elif "." not in digits:
            digits += ".0"
        if rng.random() < 0.15:
            digits += rng.choice("jJ")
        texts.append(digits)
    # the window in which a "digits as integer, scaled once by an exact power of ten" conversion is tempting (Clinger's
    # fast path): significands of 15..17 digits around 2**53, the decimal point at every place, exponents up to +-23.
    # Correct rounding must hold there too (a 16-digit significand above 2**53 is not exact before scaling).
    sig = [2**53 - 1, 2**53, 2**53 + 1, 2**53 + 3, 2**52 + 1, 10**15, 10**15 + 1, 10**16 - 1, 10**16 + 1, 9999791839761057, 9992384432405373]
    sig += [rng.randint(2**53 + 1, 10**16 - 1) for _ in range(40 if ctx.quick else 2000)]
    sig += [rng.randint(10**14, 10**15 - 1) for _ in range(10 if ctx.quick else 300)] + [rng.randint(10**16, 10**17 - 1) for _ in range(10 if ctx.quick else 300)]
    for sg in sig:
        d = str(sg)
        for pnt in range(0, len(d) + 1):
            texts.append(d[:pnt] + "." + d[pnt:])
        for ex in (-23, -22, -16, -7, -1, 1, 7, 10, 22, 23):
            texts.append("%se%d" % (d, ex))
            texts.append("%s.%se%+d" % (d[:3], d[3:], ex))
    # doubles from random bit patterns, written with 17 significant digits and shortest repr
    for _ in range(n // 4):
        v = struct.unpack("<d", struct.pack("<Q", rng.getrandbits(63)))[0]
        if v == v and v != float("inf"):
            texts.append(repr(v))
            texts.append("%.17e" % v)
    # integers of many sizes in every radix, with underscores
    for _ in range(n // 4):
        radix = rng.choice([2, 8, 10, 16])
        ln = rng.choice([1, 2, 9, 10, 19, 20, 21, 38, 39, 64, 100, rng.randint(1, 3000 if not ctx.quick else 600)])
        ds = "".join(rng.choice("0123456789abcdefABCDEF"[:radix if radix <= 10 else 22]) for _ in range(ln))
        if radix == 10:
            ds = ds.lstrip("0") or "0"
        if rng.random() < 0.4 and len(ds) > 1:
            out = ds[0]
            for ch in ds[1:]:
                out += ("_" if rng.random() < 0.3 else "") + ch
            ds = out
        texts.append({2: rng.choice(["0b", "0B"]), 8: rng.choice(["0o", "0O"]), 10: "", 16: rng.choice(["0x", "0X"])}[radix] + ds)
    items = []
    for t in texts:
        ref = num_ref(t)
        if ref is not None:
            items.append((t, None, ref))
    check_numbers(ctx, items, "magnitude_pools")


def run(ctx):
    ctx.extra["exhaustive"] = True
    ctx.extra["rule"] = "every literal body of StrLit.tla's configurations x literal forms; every literal of NumLit.tla's automaton up to MaxLen; magnitude pools"
    ctx.assumptions += ["CPython's evaluation of the same literal validates the specification's value on every case (disagreements counted, must be 0)",
                        "integer/float arithmetic beyond 32 bits is the reference's (int(clean, radix), float(clean)); TLC decides structure, class, radix and cleaned digits",
                        "\\N{...} is represented by one name (BULLET); the name table itself is the unicode_names2 crate's"]
    big = 10 ** 9
    run_strings(ctx, "StrLit_sweep.cfg", "sweep", 120000 if ctx.quick else big)
    run_strings(ctx, "StrLit_deep_%s.cfg" % ("quick" if ctx.quick else "thorough"), "deep", 120000 if ctx.quick else big)
    run_strings(ctx, "StrLit_prefix.cfg", "prefix", big)
    # named escapes and astral \U beyond the alphabet's representatives
    extra = []
    for name, cp in (("LATIN SMALL LETTER A", 97), ("EN DASH", 0x2013), ("GRINNING FACE", 0x1F600), ("bullet", 0x2022), ("NO-BREAK SPACE", 0xA0), ("LINE FEED", 10), ("NULL", 0)):
        extra.append({"prefix": "", "q": "SQ", "triple": False, "kind": "str", "u": False, "body": "\\N{%s}" % name, "want": {"ok": True, "val": [cp]}})
    for cp in (0, 0x7F, 0x80, 0xFF, 0x100, 0xD7FF, 0xE000, 0xFFFF, 0x10000, 0x10FFFF, 0x1F600):
        extra.append({"prefix": "", "q": "DQ", "triple": False, "kind": "str", "u": False, "body": "\\U%08x" % cp, "want": {"ok": True, "val": [cp]}})
        if cp <= 0xFFFF:
            extra.append({"prefix": "", "q": "DQ", "triple": False, "kind": "str", "u": False, "body": "\\u%04X" % cp, "want": {"ok": True, "val": [cp]}})
    for v in range(0, 512):
        extra.append({"prefix": "b" if v % 2 else "", "q": "SQ", "triple": False, "kind": "bytes" if v % 2 else "str", "u": False, "body": "\\%o" % v, "want": {"ok": True, "val": [v % 256 if v % 2 else v]}})
    for v in range(0, 256):
        extra.append({"prefix": "b" if v % 2 else "", "q": "SQ", "triple": False, "kind": "bytes" if v % 2 else "str", "u": False, "body": "\\x%02x" % v, "want": {"ok": True, "val": [v]}})
    h = ctx.harness("default")
    reqs = []
    keep = []
    for c in extra:
        src = source_of(c)
        ref = ref_value(src)
        if ref is None or ref[0] != c["want"]["val"]:
            ctx.extra["spec_reference_disagreements"] = ctx.extra.get("spec_reference_disagreements", 0) + 1
            ctx.note("spec_reference_disagreement[extra]: %r %s" % (src, ref))
            continue
        reqs.append({"op": "parse", "src": src, "mode": "Expression"})
        keep.append(c)
    for c, req, resp in zip(keep, reqs, h.run(reqs)):
        ctx.replayed += 1
        check_string(ctx, c, req["src"], resp)
    ctx.extra["string_cases"]["value_sweeps"] = len(reqs)
    run_prefixes(ctx)
    run_numbers(ctx)
    run_number_strings(ctx)
    pools(ctx)


def replay(ctx, rec):
    c = rec["case"]
    ctx.states = ctx.transitions = 1
    h = ctx.harness("default")
    resp = h.run([{"op": "parse", "src": c["src"], "mode": "Expression"}])[0]
    ctx.replayed += 1
    if c["fam"] == "prefix":
        ok = "ok" in resp and resp["ok"]["body"].get("range") == [0, len(c["src"])] and resp["ok"]["body"].get("_t") in ("ExprConstant", "ExprJoinedStr")
        if ok != c["valid"]:
            ctx.mismatch("prefix.%s@replay" % ("accepted" if ok else "not_recognised"), {"src": c["src"]}, c)
        elif ok and c["kind"] == "str" and (resp["ok"]["body"].get("kind") == "u") != c["u"]:
            ctx.mismatch("strlit.kind[%s]@prefix" % c["src"][0], {"src": c["src"]}, c)
    elif c["fam"] == "numstr":
        lit = False
        if "ok" in resp:
            b = resp["ok"]["body"]
            v = b.get("value") if b.get("_t") == "ExprConstant" else None
            lit = isinstance(v, dict) and (v.get("_k") in ("Int", "Float") or v.get("_t") == "Complex") and b.get("range") == [0, len(c["src"].encode("utf-8"))]
        if lit != (c["class"] != "none"):
            ctx.mismatch("numlit.%s@replay" % ("nonliteral_accepted" if lit else "literal_not_recognised"), {"src": c["src"]}, c)
    elif c["fam"] == "str":
        check_string(ctx, c["case"], c["src"], resp)
    else:
        ref = num_ref(c["src"])
        if ref is not None:
            check_numbers(ctx, [(c["src"], None, ref)], "replay")
    ctx.sample({"fam": c["fam"]})

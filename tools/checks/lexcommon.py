"""Replay and trace validation shared by the lexer-family checks (C05, C03, C10, C08)."""
import glob
import json
import os
import keyword

import lexclasses as lc
from checks.common import ROOT

KW = {w: w[0].upper() + w[1:] for w in keyword.kwlist}
KW.update({"match": "Match", "case": "Case", "type": "Type"})

ERRMAP = {"OtherError": "OtherError", "Eof": "Eof", "StringError": "StringError", "UnrecognizedToken": "UnrecognizedToken",
          "NestingError": "NestingError", "IndentationError": "IndentationError", "TabError": "TabError",
          "TabsAfterSpaces": "TabsAfterSpaces", "LineContinuationError": "LineContinuationError"}


def tok_kind(t):
    """kind name of a canonical token"""
    if isinstance(t, str):
        return t
    if t is None:
        return "None"       # Tok::None (the keyword) prints like Option::None
    if t is True:
        return "True"
    if t is False:
        return "False"
    return t.get("_t") or t.get("_k")


def compare_lex(case, text, resp):
    """Compare a lex_raw response with the specification's expected token list / error.  Yields (sig, detail)."""
    out = []
    if "toks" not in resp:
        return [("lex.crash", {"text": text, "observed": resp})]
    toks = resp["toks"]
    exp = case["toks"]
    b = text.encode("utf-8", "surrogatepass")
    n = min(len(toks), len(exp))
    for k in range(n):
        ek, es, ee = exp[k]
        got, gs, ge = toks[k]
        gk = tok_kind(got)
        word = b[es - case["start"]:ee - case["start"]].decode("utf-8", "replace")
        want_kind = KW.get(word, "Name") if ek == "Word" else ek
        if gk != want_kind:
            out.append(("lex.kind:%s->%s" % (want_kind if ek != "Word" else ("Name" if want_kind == "Name" else "Keyword"), gk if gk not in KW.values() else "Keyword"),
                        {"text": text, "index": k, "expected": [want_kind, es, ee], "observed": [gk, gs, ge]}))
            return out
        if (gs, ge) != (es, ee):
            out.append(("lex.range@%s" % ek, {"text": text, "index": k, "expected": [ek, es, ee], "observed": [gk, gs, ge]}))
            return out
        if ek in ("Word", "Name") and want_kind == "Name" and got.get("name") != word:
            out.append(("lex.name_value", {"text": text, "index": k, "expected": word, "observed": got}))
    if len(toks) != len(exp):
        out.append(("lex.token_count", {"text": text, "expected": exp[n:n + 3], "observed": [[tok_kind(t[0]), t[1], t[2]] for t in toks[n:n + 3]]}))
        return out
    eerr = case["err"]
    gerr = resp["err"]
    if eerr and not gerr:
        out.append(("lex.missing_error@%s" % eerr[0], {"text": text, "expected": eerr}))
    elif gerr and not eerr:
        out.append(("lex.unexpected_error@%s" % tok_kind(gerr["kind"]), {"text": text, "observed": gerr}))
    elif eerr and gerr:
        gk = tok_kind(gerr["kind"])
        if gk != eerr[0]:
            out.append(("lex.error_kind:%s->%s" % (eerr[0], gk), {"text": text, "expected": eerr, "observed": gerr}))
        elif gerr["at"] != eerr[1]:
            out.append(("lex.error_offset@%s" % eerr[0], {"text": text, "expected": eerr, "observed": gerr}))
    return out


def replay_lex(ctx, cases, config="default", variants=1):
    h = ctx.harness(config)
    reqs, meta = [], []
    for case in cases:
        for v in range(variants):
            text = lc.conc(case["inp"], ctx.rng if v else None)
            reqs.append({"op": "lex_raw", "src": text, "start": case["start"]})
            meta.append(case)
    resps = h.run(reqs)
    for case, req, resp in zip(meta, reqs, resps):
        ctx.replayed += 1
        ctx.distinct_cases.add(("F" if case["full"] else "P") + req["src"])
        for sig, detail in compare_lex(case, req["src"], resp):
            ctx.mismatch(sig, detail, {"fam": "lex", "case": case, "request": req, "config": config})


def corpus_files(ctx, limit_quick=14, max_bytes_quick=30000):
    files = sorted(glob.glob(os.path.join(ROOT, "corpus", "py", "*.py")))
    if ctx.quick:
        files = [f for f in files if os.path.getsize(f) <= max_bytes_quick][:limit_quick]
    return files


def record_lex_trace(ctx, sources, config, full):
    """Run the bare lexer on each source with hooks on; return the ndjson event list."""
    h = ctx.harness(config)
    reqs = [{"op": "lex_raw", "src": s, "start": st, "events": True} for (s, st) in sources]
    resps = h.run(reqs)
    events = []
    owners = []
    for k, ((src, st), resp) in enumerate(zip(sources, resps)):
        if "events" not in resp:
            ctx.mismatch("lex.crash", {"observed": resp}, {"fam": "lex_trace", "src": src[:2000], "start": st, "config": config})
            continue
        b = src.encode("utf-8", "surrogatepass")
        classes = lc.abstract(src)
        # emoji-presentation characters that the lexer accepted as names: reclassify (the emoji table is a parameter)
        pos = {}
        off = st
        for idx, ch in enumerate(src):
            pos[off] = idx
            off += len(ch.encode("utf-8", "surrogatepass"))
        for ev in resp["events"]:
            if ev.get("ev") == "tok" and ev["k"] == "Name":
                idx = pos.get(ev["s"])
                if idx is not None and classes[idx].startswith("OT") and ev["e"] - ev["s"] == len(src[idx].encode("utf-8")):
                    classes[idx] = "EM%d" % (ev["e"] - ev["s"])
        boff = [st]
        for ch in src:
            boff.append(boff[-1] + len(ch.encode("utf-8", "surrogatepass")))
        events.append({"ev": "init", "text": classes, "start": st, "boff": boff})
        owners.append(k)
        for ev in resp["events"]:
            if ev.get("ev") == "tok":
                ev["word"] = b[ev["s"] - st:ev["e"] - st].decode("utf-8", "replace")
            events.append(ev)
            owners.append(k)
    return events, owners


def validate_lex_trace(ctx, events, owners, sources, full, label):
    from vcheck import ToolError
    if not events:
        return
    path = os.path.join(os.environ["VERIF_WORK"], "lex-trace-%s-%d.ndjson" % (label, os.getpid()))
    with open(path, "w") as f:
        for e in events:
            f.write(json.dumps(e) + "\n")
    r = ctx.tlc("lexer", "LexerTrace", "LexerTraceFull.cfg" if full else "LexerTrace.cfg", expect_ok=False, workers=1, dfs=True,
                env={"TRACE": path}, timeout=3000, coverage=False, heap="8g")
    nfiles = len(set(owners))
    if r.ok:
        ctx.traces_validated += nfiles
        ctx.extra["trace_events_" + label] = len(events)
    else:
        import re
        mm = re.search(r"UNMATCHED at (\d+)", r.tail)
        if not mm:
            raise ToolError("LexerTrace failed to run (%s): %s\n%s" % (label, r.error, r.tail[-2000:]))
        at = int(mm.group(1))
        ev = events[at - 1] if 0 < at <= len(events) else None
        k = owners[at - 1] if 0 < at <= len(owners) else -1
        src, st = sources[k] if k >= 0 else ("", 0)
        ctx.mismatch("lex.trace_rejected@%s" % (ev.get("k") if ev else "?"), {"first_unmatched_event": ev, "index": at, "file_index": k, "context": src.encode()[max(0, (ev or {}).get("s", 0) - st - 40):(ev or {}).get("e", 0) - st + 20].decode("utf-8", "replace") if ev and "s" in ev else ""},
                     {"fam": "lex_trace", "src": src[:20000], "start": st, "full": full})
        ctx.traces_validated += len(set(owners[:at - 1]))
    try:
        os.remove(path)
    except OSError:
        pass

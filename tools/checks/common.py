"""Helpers shared by the check modules."""
import json
import os

ROOT = os.path.dirname(os.path.dirname(os.path.dirname(os.path.abspath(__file__))))


def class_of(ch, first):
    if ch == "\n":
        return "LF"
    if ch == "\r":
        return "CR"
    if ch == "﻿" and first:
        return "BOM"
    n = len(ch.encode("utf-8", "surrogatepass"))
    return {1: "a", 2: "e2", 3: "e3", 4: "e4"}[n]


def classes_of(text):
    """Abstraction of a real text for Lines.tla: only line breaks, a leading BOM and UTF-8 widths matter."""
    return [class_of(c, i == 0) for i, c in enumerate(text)]


def tree_nodes(t, path=()):
    """Yield (path, node) for every object node of a canonical tree."""
    if isinstance(t, dict):
        yield path, t
        for k, v in t.items():
            yield from tree_nodes(v, path + (k,))
    elif isinstance(t, list):
        for i, v in enumerate(t):
            yield from tree_nodes(v, path + (i,))


def load_programs(ctx, purpose):
    """Programs used for trace validation: curated snippets (+ larger corpus files in the thorough tier)."""
    progs = json.load(open(os.path.join(ROOT, "corpus", "locate_snippets.json")))
    extra = os.path.join(ROOT, "corpus", "programs.json")
    if os.path.exists(extra):
        more = json.load(open(extra))
        progs += more if not ctx.quick else more[:60]
    return progs


def kind_of(n):
    if isinstance(n, dict):
        return n.get("_k") or n.get("_t")
    return None


def first_diff(a, b, trail=()):
    """First structural difference between two canonical trees: (trail, field, a, b) or None.
    trail = ((kind, field), ...) of the enclosing nodes, outermost first; `range` values are leaves."""
    if isinstance(a, dict) and isinstance(b, dict):
        ka, kb = kind_of(a), kind_of(b)
        if ka != kb:
            return (trail, "<kind>", ka, kb)
        for k in sorted(set(a) | set(b)):
            if k not in a or k not in b:
                return (trail, k, a.get(k, "<absent>"), b.get(k, "<absent>"))
            if k == "range":
                if a[k] != b[k]:
                    return (trail + ((ka, k),), "<value>", a[k], b[k])
                continue
            d = first_diff(a[k], b[k], trail + ((ka, k),) if ka else trail)
            if d:
                return d
        return None
    if isinstance(a, list) and isinstance(b, list):
        if len(a) != len(b):
            return (trail, "<len>", len(a), len(b))
        for x, y in zip(a, b):
            d = first_diff(x, y, trail)
            if d:
                return d
        return None
    if a != b:
        return (trail, "<value>", a, b)
    return None


def diff_sig(d, depth=2):
    """Short signature of a first_diff result: the innermost `depth` (kind.field) steps + what differs."""
    trail, field, _, _ = d
    return ">".join("%s.%s" % kf for kf in trail[-depth:]) + ":" + str(field)

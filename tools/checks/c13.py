"""C13 -- row/column locations, linear vs indexed locator.

M: Locator.tla (mirror of LinearLocatorState/locate_inner) against the declarative rows/columns of
   Lines.tla for all texts and all forward call sequences within bounds (TLC invariants).
G: those behaviours replayed on the real LinearLocator and RandomLocator.
T: real programs are parsed and folded with both locators; the locate/locate_only calls recorded by the
   hooks (cursor before, offset, answer) and every answer of the indexed locator are validated by TLC
   against LocatorTrace.tla (forward-only precondition, declarative row/column).
"""
import json
import os
import re
from chars import conc

from checks.common import classes_of, tree_nodes, load_programs, first_diff, diff_sig


# ---------------------------------------------------------------- G
def lc_request(case, rng=None):
    return {"op": "locate_calls", "text": conc(case["text"], rng),
            "calls": [{"only": c["only"], "o": c["o"]} for c in case["calls"]]}


def lc_compare(case, req, resp):
    out = []
    if "linear" not in resp:
        return [("locate_calls.crash", {"resp": resp})]
    for k, c in enumerate(case["calls"]):
        want = [c["row"], c["col"]]
        if resp["linear"][k] != want:
            out.append(("locate_calls.linear", {"call": k, "only": c["only"], "expected": want, "observed": resp["linear"][k]}))
        if resp["random"][k] != want:
            out.append(("locate_calls.random", {"call": k, "expected": want, "observed": resp["random"][k]}))
    return out


def run_g(ctx, tier):
    r = ctx.tlc("locate", "Locator", "Locator_%s.cfg" % tier, timeout=2400)
    ctx.require_coverage(r, ["Locate", "LocateOnly"])
    h = ctx.harness("default")
    cases = r.replays
    ctx.sample(cases[len(cases) // 2])
    reqs = [lc_request(c) for c in cases]
    # a second pass with other class members for a seeded subset
    extra = [c for c in cases if ctx.rng.random() < 0.2]
    reqs2 = [lc_request(c, ctx.rng) for c in extra]
    resps = h.run(reqs + reqs2)
    for case, req, resp in zip(cases + extra, reqs + reqs2, resps):
        ctx.replayed += 1
        ctx.distinct_cases.add(json.dumps(req, sort_keys=True))
        for sig, detail in lc_compare(case, req, resp):
            ctx.mismatch(sig, detail, {"fam": "locate_calls", "case": case, "request": req})


# ---------------------------------------------------------------- T
def pair_ranges(plain, located, out):
    """Walk the plain and the located tree in parallel; collect (offset, row, col)."""
    if isinstance(plain, dict) and isinstance(located, dict):
        pr, lr = plain.get("range"), located.get("range")
        if isinstance(pr, list) and isinstance(lr, dict) and lr.get("_t") == "SourceRange":
            out.append((pr[0], lr["start"]["row"], lr["start"]["column"]))
            if lr.get("end"):
                out.append((pr[1], lr["end"]["row"], lr["end"]["column"]))
        for k, v in plain.items():
            if k != "range" and k in located:
                pair_ranges(v, located[k], out)
    elif isinstance(plain, list) and isinstance(located, list):
        for a, b in zip(plain, located):
            pair_ranges(a, b, out)


def strip_ranges(t):
    if isinstance(t, dict):
        return {k: strip_ranges(v) for k, v in t.items()}
    if isinstance(t, list):
        return [strip_ranges(v) for v in t]
    return t


def field_of_offset(plain, o):
    """(parent kind, field) of the first node (pre-order) whose range starts at o."""
    res = []

    def walk(node, parent, field):
        if res:
            return
        if isinstance(node, dict):
            r = node.get("range")
            kind = node.get("_k") or node.get("_t")
            if isinstance(r, list) and r[0] == o and parent is not None:
                res.append("%s.%s" % (parent, field))
                return
            for k, v in node.items():
                if k not in ("range", "_k", "_t"):
                    walk(v, kind or parent, k if kind else field)
        elif isinstance(node, list):
            for v in node:
                walk(v, parent, field)
    walk(plain, None, None)
    return res[0] if res else "?"


def run_t(ctx, programs):
    h = ctx.harness("default")
    reqs = [{"op": "locate_tree", "src": src} for src in programs]
    resps = h.run(reqs)
    events = []
    owners = []   # event index -> program index
    plains = {}
    for i, (src, resp) in enumerate(zip(programs, resps)):
        if "err" in resp or "plain" not in resp:
            continue
        plains[i] = resp["plain"]
        events.append({"ev": "init", "text": classes_of(src)})
        owners.append(i)
        for e in resp["events"]:
            events.append(e)
            owners.append(i)
        pairs = []
        pair_ranges(resp["plain"], resp["random"], pairs)
        for (o, row, col) in sorted(set(pairs)):
            events.append({"ev": "rand", "o": o, "row": row, "col": col})
            owners.append(i)
        lin, rnd = resp["linear"], resp["random"]
        if isinstance(lin, dict) and "panic" in lin:
            # the debug self-check / precondition fired; TLC will name the deviation from the events.
            pass
        elif lin != rnd:
            d = first_diff(lin, rnd)
            ctx.mismatch("locate_tree.linear_vs_random@" + diff_sig(d), {"src": src, "linear": d[2], "random": d[3]},
                         {"fam": "locate_tree", "src": src})
        if isinstance(rnd, dict) and "panic" in rnd:
            ctx.mismatch("locate_tree.random_panic", {"src": src}, {"fam": "locate_tree", "src": src})
    if not events:
        return
    path = os.path.join(os.environ["VERIF_WORK"], "c13-trace-%d.ndjson" % os.getpid())
    with open(path, "w") as f:
        for e in events:
            f.write(json.dumps(e) + "\n")
    r = ctx.tlc("locate", "LocatorTrace", "LocatorTrace.cfg", expect_ok=False, workers=1, dfs=True,
                env={"TRACE": path}, timeout=1800, coverage=False)
    from vcheck import ToolError
    if not r.ok:
        raise ToolError("LocatorTrace did not accept the trace format: %s\n%s" % (r.error, r.tail[-1500:]))
    bad = r.tagged.get("BAD", [[]])[-1]
    badprogs = set()
    for b in bad:
        idx = b["at"] - 1
        i = owners[idx]
        ev = events[idx]
        why = b["why"]
        badprogs.add(i)
        slug = re.sub(r"[^a-z]+", "_", why.lower()).strip("_")
        where = field_of_offset(plains[i], ev.get("o", -1)) if "o" in ev else "?"
        ctx.mismatch("locate.%s@%s" % (slug, where), {"event": ev, "why": why, "src": programs[i]},
                     {"fam": "locate_tree", "src": programs[i]})
    # a linear panic that TLC did not explain is still a deviation of the real code
    for i, resp in enumerate(resps):
        lin = resp.get("linear")
        if isinstance(lin, dict) and "panic" in lin and i not in badprogs:
            ctx.mismatch("locate_tree.linear_panic_unexplained", {"src": programs[i], "panic": lin["panic"]},
                         {"fam": "locate_tree", "src": programs[i]})
    ctx.traces_validated += len(plains) - len(badprogs)
    ctx.extra["trace_events"] = len(events)
    ctx.sample({"trace_prefix": events[:5]})
    try:
        os.remove(path)
    except OSError:
        pass


def run(ctx):
    tier = "quick" if ctx.quick else "thorough"
    ctx.extra["rule"] = ("G: every (text <= MaxLen, forward sequence of <= 3 locate/locate_only calls) of Locator.tla; "
                         "T: one trace per parsed program (hook events of LinearLocator + all answers of RandomLocator)")
    ctx.assumptions += ["offsets that split a CR LF pair are not node or error offsets and are excluded",
                        "debug assertions are on in the harness build, so the locator's self-check panics are visible"]
    run_g(ctx, tier)
    progs = load_programs(ctx, "locate")
    run_t(ctx, progs)


def replay(ctx, rec):
    c = rec["case"]
    ctx.states = ctx.transitions = 1
    if c["fam"] == "locate_calls":
        h = ctx.harness("default")
        resp = h.run([c["request"]])[0]
        ctx.replayed += 1
        for sig, detail in lc_compare(c["case"], c["request"], resp):
            ctx.mismatch(sig, detail, c)
    else:
        run_t(ctx, [c["src"]])
    ctx.sample(c)

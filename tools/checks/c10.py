"""C10 -- cargo feature choices do not change what is parsed.

M: LexerFeat.tla -- two copies of the lexer machine (plain / full-lexer) on the same text: filtering Comment and
   NonLogicalNewline tokens out of the full stream gives the plain stream, same error, same nesting/indentation state.
G: the harness is built in four configurations (default; full-lexer; all-nodes-with-ranges; num-bigint instead of
   malachite-bigint).  TLC-generated texts (lexer alphabets), generated programs and corpus files are parsed in each
   and the projections (acceptance, tree, mandatory ranges, error kind and offset) must be identical; under
   full-lexer the token stream filtered must equal the plain one (implementation side of FilterOK).
"""
import json
import os
import lexclasses as lc
from checks import lexcommon as lx
from checks.common import first_diff, diff_sig, load_programs

CONFIGS = ["default", "full", "ranges", "numbig"]


def drop_optional_ranges(t, ref):
    """make the all-nodes-with-ranges tree comparable: where the reference build has no range ("()"), ignore it"""
    if isinstance(t, dict) and isinstance(ref, dict):
        out = {}
        for k, v in t.items():
            if k == "range" and ref.get("range") == "()":
                out[k] = "()"
            elif k in ref:
                out[k] = drop_optional_ranges(v, ref[k])
            else:
                out[k] = v
        return out
    if isinstance(t, list) and isinstance(ref, list) and len(t) == len(ref):
        return [drop_optional_ranges(a, b) for a, b in zip(t, ref)]
    return t


def compare_parse(ctx, inputs, label):
    reqs = [{"op": "parse", "src": s, "mode": m} for (s, m) in inputs]
    results = {}
    for c in CONFIGS:
        results[c] = ctx.harness(c).run(reqs)
    for k, (src, mode) in enumerate(inputs):
        ref = results["default"][k]
        ctx.replayed += 1
        ctx.distinct_cases.add(mode + src)
        for c in CONFIGS[1:]:
            got = results[c][k]
            base = {"fam": "feature_parse", "src": src[:5000], "mode": mode, "config": c}
            if ("ok" in ref) != ("ok" in got) or ("err" in ref) != ("err" in got):
                ctx.mismatch("feature.%s.acceptance" % c, {"src": src[:300], "default": str(ref)[:200], c: str(got)[:200]}, base)
            elif "err" in ref:
                if ref["err"]["kind"] != got["err"]["kind"] or ref["err"]["offset"] != got["err"]["offset"]:
                    ctx.mismatch("feature.%s.error" % c, {"src": src[:300], "default": ref["err"], c: got["err"]}, base)
            elif "ok" in ref:
                a = ref["ok"]
                b = drop_optional_ranges(got["ok"], a) if c == "ranges" else got["ok"]
                if a != b:
                    d = first_diff(a, b)
                    ctx.mismatch("feature.%s.tree@%s" % (c, diff_sig(d)), {"src": src[:300], "default": d[2], c: d[3]}, base)
            else:
                ctx.mismatch("feature.%s.crash" % c, {"src": src[:300], "default": str(ref)[:200], c: str(got)[:200]}, base)


def compare_tokens(ctx, sources):
    """implementation side of FilterOK: lex(full) filtered = lex(default)"""
    reqs = [{"op": "lex", "src": s, "mode": "Module"} for s in sources]
    plain = ctx.harness("default").run(reqs)
    full = ctx.harness("full").run(reqs)
    for src, p, f in zip(sources, plain, full):
        ctx.replayed += 1
        if "toks" not in p or "toks" not in f:
            ctx.mismatch("feature.full.lex_crash", {"src": src[:300]}, {"fam": "feature_lex", "src": src[:5000]})
            continue
        ft = [t for t in f["toks"] if lx.tok_kind(t[0]) not in ("Comment", "NonLogicalNewline")]
        if ft != p["toks"] or p["err"] != f["err"]:
            ctx.mismatch("feature.full.token_filter", {"src": src[:300]}, {"fam": "feature_lex", "src": src[:5000]})


def bigints(ctx):
    rng = ctx.rng
    out = []
    for radix, pre, digits in ((10, "", "0123456789"), (16, "0x", "0123456789abcdefABCDEF"), (8, "0o", "01234567"), (2, "0b", "01")):
        for n in (1, 9, 18, 19, 20, 39, 40, 64, 65, 130, 300):
            d = "".join(rng.choice(digits) for _ in range(n))
            if radix == 10:
                d = d.lstrip("0") or "0"
            out.append(("x = %s%s\n" % (pre, d), "Module"))
            out.append(("x = -%s%s_%s\n" % (pre, d, d[:3] or "1"), "Module"))
    out.append(("x = 18446744073709551615 + 18446744073709551616 + 340282366920938463463374607431768211456\n", "Module"))
    return out


def run(ctx):
    tier = "quick" if ctx.quick else "thorough"
    ctx.extra["rule"] = "every input is parsed in the four feature configurations; inputs: TLC-generated class strings (layout, strings, numbers alphabets), big integer literals in every radix, curated programs, corpus files"
    ctx.assumptions += ["the four harness builds differ only in the cargo features of the repository crates"]
    r = ctx.tlc("lexer", "LexerFeat", "LexerFeat_%s.cfg" % tier, timeout=3000, coverage=False)
    if r.distinct < 10000:
        from vcheck import ToolError
        raise ToolError("vacuity: LexerFeat explored %d states" % r.distinct)
    inputs = []
    # "unicomment": comments holding 2-, 3- and 4-byte characters (the two builds have separate comment scanners)
    for a in ("layout", "strs", "nums", "unicomment"):
        rr = ctx.tlc("lexer", "LexerMC", "LexerMC_%s_%s.cfg" % (a, "quick"), timeout=3000, coverage=False)
        cases = rr.replays if not ctx.quick or a == "unicomment" else rr.replays[::3]
        inputs += [(lc.conc(c["inp"]), "Module") for c in cases]
        if a == "nums":
            inputs += [(lc.conc(c["inp"]), "Expression") for c in cases[::2]]
    ctx.sample({"text": inputs[len(inputs) // 2][0]})
    inputs += bigints(ctx)
    inputs += [(s, "Module") for s in load_programs(ctx, "features")]
    inputs += [(s, "Interactive") for s in load_programs(ctx, "features")[:20]]
    files = lx.corpus_files(ctx)
    inputs += [(open(f, encoding="utf-8").read(), "Module") for f in files]
    compare_parse(ctx, inputs, "all")
    compare_tokens(ctx, [s for (s, m) in inputs if m == "Module"][-(len(files) + 60):])
    ctx.extra["inputs"] = len(inputs)
    # the soft-keyword pass under full-lexer: SoftKwFeat.tla (FilterOK) + both builds against the two machines
    from checks import softkw
    softkw.run_features(ctx)


def replay(ctx, rec):
    c = rec["case"]
    ctx.states = ctx.transitions = 1
    if c["fam"] == "softkw_feat":
        from checks import softkw
        softkw.replay_features(ctx, c)
    elif c["fam"] == "feature_parse":
        compare_parse(ctx, [(c["src"], c["mode"])], "replay")
    else:
        compare_tokens(ctx, [c["src"]])
    ctx.sample({"src": c["src"][:200]})

"""C17 -- float text conversions.

M: FloatParse.tla -- the float() grammar as a scanner vs a declarative definition (AgreeOK); FloatCells.tla --
   laws of the %f/%e and repr-shape definitions (FixedLaw, ExpLaw, ReprLaw).
G: (a) every candidate string <= MaxLen over {digit, _, ., e, sign, whitespace, INF, NAN, other}: accept/reject
       replayed on float::parse_str / parse_bytes; accepted values compared bit-for-bit with CPython float();
   (b) repr: (shortest digits, exponent) pairs over every decimal exponent plus boundary doubles: expected text,
       parse-back, no shorter digit string parses to the same double;
   (c) %f/%e/%g cells on exact dyadic values, precisions 0..20, both cases, alternate form;
   (d) float.hex()/fromhex(): doubles named by (sign, exponent, 13 hex mantissa digits), accepted spellings.
Spec validation by CPython on every cell.
"""
import json
import struct
from checks import floatcells as fc

CH = {"d": "1", "_": "_", ".": ".", "e": "e", "s": "-", "w": " ", "INF": "inf", "INFINITY": "infinity", "NAN": "nan", "x": "j"}
ALT = {"d": "0123456789", "e": "eE", "s": "+-", "w": " \t\n\r\x0b\x0c", "INF": ["inf", "INF", "Inf", "iNf"],
       "INFINITY": ["infinity", "INFINITY", "Infinity"], "NAN": ["nan", "NAN", "NaN"], "x": "jfx,$"}


def bits(x):
    return str(struct.unpack("<Q", struct.pack("<d", x))[0])


def run_parse(ctx):
    tier = "quick" if ctx.quick else "thorough"
    r = ctx.tlc("fmt", "FloatParse", "FloatParse_%s.cfg" % tier, timeout=3000)
    ctx.require_coverage(r, ["Step", "Finish"])
    h = ctx.harness("default")
    ctx.sample(r.replays[len(r.replays) // 2])
    reqs, meta = [], []
    for case in r.replays:
        for v in range(2):
            text = "".join((ctx.rng.choice(ALT[c]) if v and c in ALT else CH[c]) for c in case["inp"])
            reqs.append({"op": "float_parse", "s": text})
            meta.append(case)
            if v == 0:
                reqs.append({"op": "float_parse", "s": text, "bytes": True})
                meta.append(case)
    resps = h.run(reqs)
    dis = 0
    for case, req, resp in zip(meta, reqs, resps):
        ctx.replayed += 1
        text = req["s"]
        ctx.distinct_cases.add(("b" if req.get("bytes") else "s") + text)
        try:
            ref = float(text.encode("ascii") if req.get("bytes") else text)
        except ValueError:
            ref = None
        if (ref is not None) != case["ok"]:
            dis += 1
            if dis <= 5:
                ctx.note("spec_reference_disagreement: float(%r) spec_ok=%s cpython=%r" % (text, case["ok"], ref))
            continue
        base = {"fam": "float_parse", "case": case, "request": req}
        fn = "parse_bytes" if req.get("bytes") else "parse_str"
        if "bits" not in resp:
            ctx.mismatch("float.%s.panic" % fn, {"text": text, "observed": resp}, base)
        elif case["ok"] and resp["bits"] is None:
            ctx.mismatch("float.%s.rejects_valid@%s" % (fn, shape(case["inp"])), {"text": text}, base)
        elif not case["ok"] and resp["bits"] is not None:
            ctx.mismatch("float.%s.accepts_invalid@%s" % (fn, shape(case["inp"])), {"text": text, "observed": resp}, base)
        elif case["ok"]:
            same = resp["bits"] == bits(ref) or (ref != ref and float_is_nan(resp["bits"]))
            if not same:
                ctx.mismatch("float.%s.value" % fn, {"text": text, "expected_bits": bits(ref), "observed": resp}, base)
    ctx.extra["spec_reference_disagreements"] = ctx.extra.get("spec_reference_disagreements", 0) + dis


def float_is_nan(b):
    v = int(b)
    return (v >> 52) & 0x7ff == 0x7ff and v & ((1 << 52) - 1) != 0


def shape(classes):
    """coarse shape of a candidate string: which features it has"""
    t = []
    if "_" in classes:
        t.append("underscore")
    if "w" in classes:
        t.append("ws")
    if any(c in classes for c in ("INF", "INFINITY", "NAN")):
        t.append("special")
    if "s" in classes:
        t.append("sign")
    if "e" in classes:
        t.append("exp")
    if "." in classes:
        t.append("dot")
    if "x" in classes:
        t.append("other")
    return "+".join(t) or "digits"


def run_shortest(ctx):
    """no rendering with fewer digits parses back to the same double (candidates from the spec's digit strings)"""
    tier = "quick" if ctx.quick else "thorough"
    # reuse the repr cells: their digits D are the expected shortest digits; neighbours with one digit less
    r = ctx.tlc("fmt", "FloatCells", "FloatCells_repr_%s.cfg" % tier, timeout=3000, coverage=False)
    h = ctx.harness("default")
    reqs, meta = [], []
    for c in r.replays:
        D, E = c["digits"], c["exp"]
        if len(D) < 2:
            continue
        x = float("%se%d" % (D, E - len(D) + 1))
        if repr(x) != c["out"]:
            continue
        lo = D[:-1]
        hi = str(int(lo) + 1)
        for cand, e2 in ((lo, E), (hi, E if len(hi) == len(lo) else E + 1)):
            text = "%se%d" % (cand, e2 - len(cand) + 1)
            reqs.append({"op": "float_parse", "s": text})
            meta.append((c, bits(x), text))
    for (c, want, text), resp in zip(meta, h.run(reqs)):
        ctx.replayed += 1
        if resp.get("bits") == want:
            ctx.mismatch("float.repr.not_shortest", {"cell": c, "shorter": text}, {"fam": "shortest", "cell": c, "text": text, "bits": want})


def run(ctx):
    ctx.extra["exhaustive"] = True
    ctx.extra["rule"] = "all candidate strings <= MaxLen over 9-10 classes (2 concretisations, str and bytes); (digits, exponent) repr cells; %f/%e/%g cells on exact dyadic values; hex cells over exponents x mantissa patterns"
    ctx.assumptions += ["that an arbitrary double's digits are the correctly rounded / shortest ones is checked against CPython (float(), repr) as trusted base; the specification computes digits only for exactly representable decimal values",
                        "ASCII input only for the float() grammar"]
    run_parse(ctx)
    fc.run_mode(ctx, "repr", "C17")
    run_shortest(ctx)
    fc.run_mode(ctx, "pyfmt", "C17")
    fc.run_hex(ctx)


def replay(ctx, rec):
    c = rec["case"]
    ctx.states = ctx.transitions = 1
    h = ctx.harness("default")
    if c["fam"] == "float_cell":
        fc.replay_cell(ctx, c)
    elif c["fam"] in ("float_parse", "hex_cell"):
        resp = h.run([c["request"]])[0]
        ctx.replayed += 1
        ctx.note("replayed %s -> %s" % (c["request"], resp))
        if c["fam"] == "float_parse":
            ok = (resp.get("bits") is not None) == c["case"]["ok"]
            if not ok:
                ctx.mismatch("float.parse.replay", {"request": c["request"], "observed": resp}, c)
        else:
            cell = c["cell"]
            if "hex" in resp and resp["hex"] != cell["out"]:
                ctx.mismatch("float.hex.replay", {"expected": cell["out"], "observed": resp}, c)
            if "bits" in resp and resp["bits"] != str(fc.hex_bits(cell)):
                ctx.mismatch("float.fromhex.replay", {"request": c["request"], "observed": resp}, c)
    elif c["fam"] == "shortest":
        resp = h.run([{"op": "float_parse", "s": c["text"]}])[0]
        ctx.replayed += 1
        if resp.get("bits") == c["bits"]:
            ctx.mismatch("float.repr.not_shortest", {"shorter": c["text"]}, c)
    ctx.sample(c)

"""C04 -- the syntax rules the parser claims to enforce are enforced, with the right error.

Spec: PyGen.tla's builder gets, for this property, constructors that produce exactly one deliberately invalid
construct per program (variable `mut` names the broken rule): malformed numbers, strings, bytes and f-strings, a
character that starts no token, junk after a line-continuation backslash, mismatched brackets, parenthesised lone
* / **, bad call argument orders and repeated keywords (calls and class headers), duplicate parameters in every
position kind, a non-default parameter after a default one, a bare * with nothing named after it (def, async def,
lambda), and `as _` in a pattern.  The ordinary constructors build programs around the invalid construct, so every
rule is exercised at every site the sub-language has (operands, call arguments, subscripts, lambda bodies and
defaults, decorators, class bases, statement positions, nested blocks, patterns inside sequences/or-patterns).
RuleKinds(rule) is the set of error kinds that name the rule.
G: every mutated program must be rejected by CPython (that validates the catalogue) and by the parser, with an error
   kind in RuleKinds and an offset inside the offending construct (from the specification's range marks; the rest of
   the logical line for errors that are only detectable at its end).
Lexer-level rules (bracket depth, indentation stack, tab/space ambiguity, unstartable characters, line continuation,
number shapes, unterminated strings): Lexer.tla predicts, for every class string up to MaxLen over its alphabets, the
first error's kind and offset; here every predicted-error string is run through lex and parse: same kind, same offset,
and parse reports the lexer's error.
String escapes: every StrLit.tla case whose value is an error must be rejected (kind by cause).
"""
import ast as pyast
import json
import warnings

from checks import pygen, syntaxrun as sr, lexcommon as lx, c06

MUT_CONFIGS = ["mutexpr", "mutstmt", "mutpat"]
SUBST = {"<E9>": "é"}


def kindname(k):
    """normalised path of an error kind in the canonical projection"""
    if isinstance(k, str):
        return k
    if isinstance(k, dict):
        n = k.get("_k") or k.get("_t")
        a = k.get("_a")
        if "_k" in k and "_t" in k and a is None:
            return "%s.%s" % (k["_k"], k["_t"])         # a struct variant inside a wrapper: Lexical(UnrecognizedToken { tok })
        if n in ("Lexical", "FStringError", "InvalidExpression") and a:
            return n + "." + kindname(a[0])
        if n == "OtherError":
            return "OtherError:" + str(a[0])
        return n
    return str(k)


def matches(kind, expect):
    for e in expect:
        if e.endswith("*"):
            if kind.startswith(e[:-1]):
                return True
        elif kind == e:
            return True
    return False


COMPILE_TIME = {"call.duplicate_keyword": "keyword argument repeated", "param.duplicate": "duplicate argument"}


def cpython_rejects(text, mode, rule=None):
    """the reference rejects the text: its parser, or -- for the two rules CPython checks after parsing -- its
    compiler with the message of that rule"""
    m = "eval" if mode == "Expression" else "exec"
    try:
        with warnings.catch_warnings():
            warnings.simplefilter("ignore")
            pyast.parse(text, mode=m)
    except (SyntaxError, ValueError):
        return True
    if rule in COMPILE_TIME:
        # the compiler stops at its first complaint: make return / break / continue / await legal around the program
        wrapped = text if m == "eval" else "async def __w():\n  while 1:\n" + "".join("    " + ln + "\n" for ln in text.split("\n") if ln != "")
        try:
            with warnings.catch_warnings():
                warnings.simplefilter("ignore")
                compile(wrapped, "<c04>", m)
        except SyntaxError as e:
            # another complaint of the compiler came first (return in a class body, an unreachable case ...): the
            # reference can neither confirm nor refute this case
            return True if COMPILE_TIME[rule] in str(e) else None
    return False


def find_bad(t, path=()):
    """path of the node that carries the violation"""
    if isinstance(t, dict):
        if t.get("k") in ("Bad", "BadStmt") or "bad" in t:
            return path
        for k, v in t.items():
            r = find_bad(v, path + (k,))
            if r is not None:
                return r
    elif isinstance(t, list):
        for i, v in enumerate(t):
            r = find_bad(v, path + (i + 1,))
            if r is not None:
                return r
    return None


def extent(case, text_pieces):
    """byte interval of the offending construct: from its B mark to the end of its logical line"""
    items = case["items"]
    path = find_bad(case["tree"])
    return path


def realize_with_extent(case):
    """-> (text, (from, to)) : the construct's start and the end of its logical line (errors that need the rest of the
    line -- an unterminated string, a missing bracket -- are reported there)"""
    path = find_bad(case["tree"])
    text, tree, toks = pygen.realize(case)
    for k, v in SUBST.items():
        text = text.replace(k, v)
    # walk the realised tree to the node for its range
    node = tree
    for step in path or ():
        try:
            node = node[step - 1] if isinstance(step, int) else node[step]
        except (KeyError, IndexError, TypeError):
            node = None
            break
    b = text.encode("utf-8")
    if isinstance(node, dict) and "range" in node:
        s, e = node["range"]
    else:
        s, e = 0, len(b)
    # placeholder substitution changes byte lengths only inside the bad construct: extend to the logical line's end
    nl = b.find(b"\n", s)
    end = len(b) if nl < 0 else nl
    # an opening bracket left open or a triple quote runs to the end of input
    return text, (s, max(end, e), len(b))


def run_mutants(ctx, name):
    tier = "quick" if ctx.quick else "thorough"
    r = ctx.tlc("syntax", "PyGen", "PyGen_%s_%s.cfg" % (name, tier), coverage=False, timeout=5400)
    cases = r.replays
    from vcheck import ToolError
    if len(cases) < 1000:
        raise ToolError("vacuity: PyGen_%s emitted %d mutated programs" % (name, len(cases)))
    limit = 40000 if ctx.quick else 10 ** 9
    if len(cases) > limit:
        cases = cases[::(len(cases) + limit - 1) // limit]
        ctx.extra["exhaustive"] = False
    h = ctx.harness("default")
    reqs, meta, dis = [], [], 0
    for c in cases:
        text, ext = realize_with_extent(c)
        verdict = cpython_rejects(text, c["mode"], c["rule"])
        if verdict is None:
            ctx.extra["reference_inconclusive"] = ctx.extra.get("reference_inconclusive", 0) + 1
        elif not verdict:
            dis += 1
            if dis <= 5:
                ctx.note("spec_reference_disagreement[%s]: CPython accepts %r (rule %s)" % (name, text, c["rule"]))
            continue
        reqs.append({"op": "parse", "src": text, "mode": c["mode"]})
        meta.append((c, ext))
    rules = ctx.extra.setdefault("rules", {})
    for (c, ext), req, resp in zip(meta, reqs, h.run(reqs)):
        ctx.replayed += 1
        rule = c["rule"]
        rules[rule] = rules.get(rule, 0) + 1
        base = {"fam": "mut", "request": req, "rule": rule, "expect": c["expect"], "extent": ext}
        judge(ctx, rule, c["expect"], ext, req["src"], resp, base)
    ctx.distinct_cases.update(r["src"] for r in reqs)
    ctx.extra["spec_reference_disagreements"] = ctx.extra.get("spec_reference_disagreements", 0) + dis
    ctx.extra.setdefault("mutated_programs", {})[name] = len(reqs)
    if reqs:
        ctx.sample({"rule": meta[len(reqs) // 2][0]["rule"], "text": reqs[len(reqs) // 2]["src"]})


def site_of(src, ext):
    """a coarse description of where the construct sits (for signatures)"""
    b = src.encode("utf-8")
    head = b[:ext[0]].decode("utf-8", "replace").split("\n")[-1].strip()
    first = head.split(" ")[0] if head else "-"
    return first if first in ("def", "async", "class", "lambda", "@", "if", "while", "with", "return", "case", "match") else ("expr" if head else "line_start")


def judge(ctx, rule, expect, ext, src, resp, base):
    if "ok" in resp:
        tag = ""
        if rule == "param.bare_star":
            tag = "[kwargs_follow]" if "* , **" in src else "[nothing_follows]"
        ctx.mismatch("accepted:%s%s@%s" % (rule, tag, site_of(src, ext)), {"src": src, "rule": rule}, base)
        return
    if "err" not in resp:
        ctx.mismatch("crash:%s" % rule, {"src": src, "observed": str(resp)[:200]}, base)
        return
    kind = kindname(resp["err"]["kind"])
    if not matches(kind, expect):
        ctx.mismatch("wrong_error:%s->%s" % (rule, kind.split(":")[0][:60]), {"src": src, "expected": expect, "observed": resp["err"]}, base)
        return
    off = resp["err"]["offset"]
    lo, hi, total = ext
    if rule in ("str.unterminated_triple",):
        hi = total
    if not (lo <= off <= hi):
        ctx.mismatch("offset_outside_construct:%s" % rule, {"src": src, "offset": off, "construct": [lo, hi]}, base)


# ---------------------------------------------------------------------------------------------- lexer-level rules
LEX_ALPHABETS = ["layout", "indent", "ops", "nums", "strs"]


def run_lexer_rules(ctx):
    h = ctx.harness("default")
    seen = ctx.extra.setdefault("lexer_error_kinds", {})
    for alpha in LEX_ALPHABETS:
        r = ctx.tlc("lexer", "LexerMC", "LexerMC_%s_%s.cfg" % (alpha, "quick" if ctx.quick else "thorough"), coverage=False, timeout=5400)
        cases = [c for c in r.replays if c.get("err")]
        limit = 30000 if ctx.quick else 10 ** 9
        if len(cases) > limit:
            cases = cases[::(len(cases) + limit - 1) // limit]
            ctx.extra["exhaustive"] = False
        import lexclasses as lc
        reqs, meta = [], []
        for c in cases:
            text = lc.conc(c["inp"])
            reqs.append({"op": "lex_raw", "src": text, "mode": "Module", "start": c["start"]})
            reqs.append({"op": "parse", "src": text, "mode": "Module", "start": c["start"]})
            meta.append((c, text))
        resps = h.run(reqs)
        for i, (c, text) in enumerate(meta):
            ctx.replayed += 1
            lexr, parser = resps[2 * i], resps[2 * i + 1]
            want_kind, want_at = c["err"][0], c["err"][1]
            seen[want_kind] = seen.get(want_kind, 0) + 1
            base = {"fam": "lexrule", "case": c, "text": text}
            gerr = lexr.get("err")
            if not gerr:
                ctx.mismatch("lexrule.not_reported@%s" % want_kind, {"text": text, "expected": c["err"]}, base)
                continue
            gk = lx.tok_kind(gerr["kind"])
            if gk != want_kind:
                ctx.mismatch("lexrule.kind:%s->%s" % (want_kind, gk), {"text": text, "expected": c["err"], "observed": gerr}, base)
            elif gerr["at"] != want_at:
                ctx.mismatch("lexrule.offset@%s" % want_kind, {"text": text, "expected": c["err"], "observed": gerr}, base)
            # the parser must reject the text too: with the lexer's error, or with a grammar error at an earlier token
            if "ok" in parser:
                ctx.mismatch("lexrule.parse_accepts@%s" % want_kind, {"text": text}, base)
            elif "err" in parser:
                pk = kindname(parser["err"]["kind"])
                if pk.startswith("Lexical.") and not pk.startswith("Lexical." + want_kind):
                    ctx.mismatch("lexrule.parse_kind:%s->%s" % (want_kind, pk[:50]), {"text": text, "observed": parser["err"]}, base)
                elif pk.startswith("Lexical.") and parser["err"]["offset"] != want_at:
                    ctx.mismatch("lexrule.parse_offset@%s" % want_kind, {"text": text, "expected": want_at, "observed": parser["err"]}, base)
        ctx.extra.setdefault("lexer_rule_cases", {})[alpha] = len(meta)


# ---------------------------------------------------------------------------------------------- string escapes
def run_string_rules(ctx):
    r = ctx.tlc("literal", "StrLit", "StrLit_sweep.cfg", coverage=False, timeout=3000)
    r2 = ctx.tlc("literal", "StrLit", "StrLit_deep_quick.cfg", coverage=False, timeout=3000)
    h = ctx.harness("default")
    reqs, meta = [], []
    for c in r.replays + r2.replays:
        if c["want"]["ok"] or "body2" in c:
            continue
        src = c06.source_of(c)
        if c06.ref_value(src) is not None:
            continue           # the reference accepts: the value clause is C06's
        reqs.append({"op": "parse", "src": src, "mode": "Expression"})
        meta.append(c)
    if ctx.quick and len(reqs) > 20000:
        step = (len(reqs) + 19999) // 20000
        reqs, meta = reqs[::step], meta[::step]
    for c, req, resp in zip(meta, reqs, h.run(reqs)):
        ctx.replayed += 1
        base = {"fam": "strrule", "src": req["src"]}
        if "ok" in resp:
            ctx.mismatch("strrule.accepted@%s" % c06.rule_of(c), {"src": req["src"]}, base)
        elif "err" in resp:
            k = kindname(resp["err"]["kind"])
            if not (k.startswith("Lexical.UnicodeError") or k.startswith("Lexical.StringError") or k.startswith("Lexical.OtherError:bytes can only contain ASCII")):
                ctx.mismatch("strrule.wrong_error@%s:%s" % (c06.rule_of(c), k[:40]), {"src": req["src"], "observed": resp["err"]}, base)
            else:
                n = len(req["src"].encode("utf-8"))
                if not (0 <= resp["err"]["offset"] <= n):
                    ctx.mismatch("strrule.offset", {"src": req["src"], "observed": resp["err"]}, base)
    ctx.extra["string_rule_cases"] = len(reqs)



# ---------------------------------------------------------------------------------------------- parameter / argument lists
ARG_RULE_KINDS = {"param.bare_star": ["Lexical.OtherError:named arguments must follow bare*"], "param.default_order": ["Lexical.DefaultArgumentError"],
                  "param.duplicate": ["Lexical.DuplicateArgumentError"], "call.positional_after_keyword": ["Lexical.PositionalArgumentError"],
                  "call.star_after_dstar": ["Lexical.UnpackedArgumentError"], "call.duplicate_keyword": ["Lexical.DuplicateKeywordArgumentError"]}
PARAM_TEXT = {"a": "a", "b": "b", "a=": "a=1", "b=": "b=1", "c=": "c=1", "/": "/", "*": "*", "*v": "*v", "**w": "**w", "*a": "*a", "**a": "**a"}
ARG_TEXT = {"x": "x", "*s": "*s", "k=": "k=1", "k2=": "k2=1", "**d": "**d"}
PARAM_FORMS = ["def f(%s): pass\n", "async def f(%s): pass\n", "lambda %s: 0\n"]
ARG_FORMS = ["f(%s)\n", "@f(%s)\ndef g(): pass\n", "class C(%s): pass\n"]


def reference_accepts(text):
    try:
        with warnings.catch_warnings():
            warnings.simplefilter("ignore")
            compile(text, "<c04>", "exec")
        return True
    except SyntaxError:
        return False


def run_argrules(ctx):
    """ArgRules.tla: every parameter list / argument list up to MaxLen with the reference's verdict"""
    r = ctx.tlc("syntax", "ArgRules", "ArgRules_%s.cfg" % ("quick" if ctx.quick else "thorough"), coverage=False, timeout=3000)
    from vcheck import ToolError
    if len(r.replays) < 10000:
        raise ToolError("vacuity: ArgRules emitted %d lists" % len(r.replays))
    h = ctx.harness("default")
    reqs, meta, dis = [], [], 0
    for c in r.replays:
        table, forms = (PARAM_TEXT, PARAM_FORMS) if c["kind"] == "params" else (ARG_TEXT, ARG_FORMS)
        inner = ", ".join(table[it] for it in c["items"])
        for form in forms:
            if c["kind"] == "args" and form.startswith("class") and not c["items"]:
                text = "class C(): pass\n"
            else:
                text = form % inner
            if reference_accepts(text) != (c["verdict"] == "ok"):
                dis += 1
                if dis <= 5:
                    ctx.note("spec_reference_disagreement[argrules]: %r spec=%s" % (text, c["verdict"]))
                continue
            reqs.append({"op": "parse", "src": text, "mode": "Module"})
            meta.append(c)
    ctx.extra["spec_reference_disagreements"] = ctx.extra.get("spec_reference_disagreements", 0) + dis
    verdicts = ctx.extra.setdefault("argrule_verdicts", {})
    for c, req, resp in zip(meta, reqs, h.run(reqs)):
        ctx.replayed += 1
        src = req["src"]
        verdicts[c["verdict"]] = verdicts.get(c["verdict"], 0) + 1
        base = {"fam": "argrules", "src": src, "verdict": c["verdict"], "broken": c["broken"], "pinned_accepts": c["pinned_accepts"]}
        site = src.split("(")[0].split(" ")[0] if not src.startswith("lambda") else "lambda"
        if c["verdict"] == "ok":
            if "ok" not in resp:
                ctx.mismatch("argrules.rejects_valid@%s" % site, {"src": src, "observed": str(resp)[:200]}, base)
            continue
        if "ok" in resp:
            tag = "param.bare_star[kwargs_follow]" if c["pinned_accepts"] else "+".join(sorted(c["broken"])) or "shape"
            ctx.mismatch("accepted:%s@argrules.%s" % (tag, site), {"src": src, "broken": c["broken"]}, base)
            continue
        if "err" not in resp:
            ctx.mismatch("crash:argrules", {"src": src, "observed": str(resp)[:200]}, base)
            continue
        if c["verdict"] == "shape" and not c["broken"]:
            continue                                    # a grammar error of any kind
        kind = kindname(resp["err"]["kind"])
        expect = [k for rule in c["broken"] for k in ARG_RULE_KINDS[rule]]
        if c["verdict"] == "shape":
            continue
        if not matches(kind, expect):
            ctx.mismatch("wrong_error:%s->%s@argrules" % ("+".join(sorted(c["broken"])), kind.split(":")[0][:50]), {"src": src, "expected": expect, "observed": resp["err"]}, base)
        elif not (0 <= resp["err"]["offset"] <= len(src.encode("utf-8"))):
            ctx.mismatch("offset_outside:argrules", {"src": src, "observed": resp["err"]}, base)
    ctx.extra["argrule_lists"] = len(r.replays)
    ctx.distinct_cases.update(q["src"] for q in reqs)


def run(ctx):
    ctx.extra["exhaustive"] = True
    ctx.extra["rule"] = "every program PyGen.tla builds around exactly one invalid construct (three sub-languages); every predicted-error class string of Lexer.tla's alphabets; every erroneous literal of StrLit.tla"
    ctx.assumptions += ["CPython must reject every mutated program (validates the catalogue); a program CPython accepts is counted as a specification bug and excluded",
                        "an error kind 'names the rule' when it is in RuleKinds(rule) (PyGen.tla); OtherError messages are matched by prefix"]
    for name in MUT_CONFIGS + ([] if ctx.quick else ["mutexprdeep"]):
        run_mutants(ctx, name)
    run_lexer_rules(ctx)
    run_string_rules(ctx)
    # every f-string error exit: the scanner mirror (FStringScan.tla) predicts the outcome of every body over its alphabet
    from checks import c07
    c07.run_scan(ctx)
    # every short parameter list and argument list with the reference's verdict
    run_argrules(ctx)
    need = {"bracket.mismatched", "bytes.mixed", "bytes.non_ascii", "call.duplicate_keyword", "call.positional_after_keyword", "call.star_after_dstar", "char.unstartable",
            "continuation.junk", "dstar.parenthesised", "star.parenthesised", "fstr.bad_conversion", "fstr.empty", "fstr.invalid_expression", "fstr.mismatched",
            "fstr.nested_too_deeply", "fstr.single_rbrace", "fstr.unclosed", "fstr.unmatched", "fstr.unterminated_string", "num.bad_digit", "num.double_underscore",
            "num.empty_exponent", "num.empty_radix", "num.leading_zero", "num.trailing_underscore", "num.underscore_after_point", "num.underscore_in_exponent",
            "param.bare_star", "param.default_order", "param.duplicate", "pattern.as_underscore", "str.bad_hex", "str.bad_name", "str.unterminated", "str.unterminated_triple"}
    from vcheck import ToolError
    missing = need - set(ctx.extra["rules"])
    if missing:
        raise ToolError("vacuity: rules never exercised: %s" % sorted(missing))
    lk = ctx.extra["lexer_error_kinds"]
    for k in ("NestingError", "IndentationError", "TabError", "UnrecognizedToken", "LineContinuationError", "Eof"):
        if not lk.get(k):
            raise ToolError("vacuity: Lexer.tla predicted no %s in the replayed class strings" % k)


def replay(ctx, rec):
    c = rec["case"]
    ctx.states = ctx.transitions = 1
    h = ctx.harness("default")
    if c["fam"] == "scan":
        from checks import c07
        return c07.replay_scan(ctx, c, h)
    if c["fam"] == "argrules":
        resp = h.run([{"op": "parse", "src": c["src"], "mode": "Module"}])[0]
        ctx.replayed += 1
        if (c["verdict"] == "ok") != ("ok" in resp):
            tag = "param.bare_star[kwargs_follow]" if c["pinned_accepts"] else "+".join(sorted(c["broken"])) or "shape"
            ctx.mismatch(("accepted:%s@argrules.replay" % tag) if "ok" in resp else "argrules.rejects_valid@replay", {"src": c["src"]}, c)
        ctx.sample({"fam": "argrules"})
        return
    if c["fam"] == "mut":
        resp = h.run([c["request"]])[0]
        ctx.replayed += 1
        judge(ctx, c["rule"], c["expect"], c["extent"], c["request"]["src"], resp, c)
    elif c["fam"] == "strrule":
        resp = h.run([{"op": "parse", "src": c["src"], "mode": "Expression"}])[0]
        ctx.replayed += 1
        if "ok" in resp:
            ctx.mismatch("strrule.accepted@replay", {"src": c["src"]}, c)
    else:
        case, text = c["case"], c["text"]
        resps = h.run([{"op": "lex_raw", "src": text, "mode": "Module", "start": case["start"]}, {"op": "parse", "src": text, "mode": "Module", "start": case["start"]}])
        ctx.replayed += 1
        gerr = resps[0].get("err")
        if not gerr:
            ctx.mismatch("lexrule.not_reported@%s" % case["err"][0], {"text": text}, c)
        elif lx.tok_kind(gerr["kind"]) != case["err"][0] or gerr["at"] != case["err"][1]:
            ctx.mismatch("lexrule.kind_or_offset@%s" % case["err"][0], {"text": text, "observed": gerr}, c)
        if "ok" in resps[1]:
            ctx.mismatch("lexrule.parse_accepts@%s" % case["err"][0], {"text": text}, c)
    ctx.sample({"fam": c["fam"]})

"""C08 -- layout never changes the tree.

M: LayoutMC.tla -- logical programs (lines with depths and tokens) rendered under every combination of layout choices
   (line ending kind, indent unit, trailing whitespace and comments, BOM, missing final line break, and a blank /
   whitespace-only / odd-indentation comment line, form feed, backslash join or in-bracket line break at any line) are
   run through the lexer machine: no layout causes an error and the delivered token kinds are exactly the logical ones.
G: every generated program (PyGen.tla) is realised in its canonical layout, under layout variants and with one
   redundant pair of parentheses around every expression (ExtraParens); each variant must be accepted and give the
   tree of the canonical layout with ranges erased, which must be the specification's tree.
"""
import json
import pytree
from checks import pygen, syntaxrun as sr

SUBLANGS = ["exprcore", "atoms", "atoms2", "simple", "compound", "defs", "pats", "softkw"]
VARIANTS = {
    "crlf_tabs": pygen.Layout(eol="\r\n", indent="\t", trail=" "),
    "cr_comments": pygen.Layout(eol="\r", indent="  ", comment=" # c", blank=""),
    "bom_ff": pygen.Layout(bom=True, ff=True, sep="   "),
    "joins": pygen.Layout(join=2, blank="   # odd comment"),
    "breaks": pygen.Layout(brk=True, indent="        ", trailing_newline=False),
    "semi": pygen.Layout(semi=True),
    "joins3_crlf": pygen.Layout(join=3, eol="\r\n", brk=True, comment="#"),
    # inside brackets and after a backslash join leading whitespace is not indentation: any mix of blanks and tabs,
    # whitespace-only and comment-only lines are allowed there (the lexer's tab rule applies to indentation only)
    "breaks_mixedws": pygen.Layout(brk=True, join=4, brk_ws=" \t\n \t# c\n  \t", join_ws=" \t"),
}
# no space between tokens wherever the reference tokenizer still sees the same tokens ("a+b", "f(x)", "from...import x")
TIGHT = pygen.Layout(tight=True)


def key_of(case):
    return json.dumps(case["tree"], sort_keys=True)


def feat(vn):
    """layout features of a variant that can matter for acceptance"""
    f = []
    if "parens" in vn:
        f.append("parens")
    if "semi" in vn:
        f.append("semi")
    if "join" in vn:
        f.append("join")
    if "breaks" in vn or "joins3" in vn:
        f.append("brk")
    return "+".join(f) or "plain"


def softtag(toks):
    return "softkw" if any(t[0] in sr.SOFT for t in toks) else "-"


def first_kw(toks):
    return toks[0][0] if toks and toks[0][0] in sr.SOFT else "-"


def check(ctx, cases, pcases, label):
    h = ctx.harness("default")
    pmap = {key_of(c): c for c in pcases}
    vnames = list(VARIANTS)
    reqs, meta = [], []
    for idx, c in enumerate(cases):
        text0, tree, toks = pygen.realize(c)
        e0 = pytree.strip_ranges(tree)
        reqs.append({"op": "parse", "src": text0, "mode": c["mode"]})
        meta.append((idx, "canon", e0, toks))
        chosen = vnames if not ctx.quick else [vnames[idx % len(vnames)], vnames[(idx // 3 + 3) % len(vnames)]]
        for vn in chosen:
            text, _, _ = pygen.realize(c, VARIANTS[vn])
            if text != text0:
                reqs.append({"op": "parse", "src": text, "mode": c["mode"]})
                meta.append((idx, vn, e0, toks))
        tt, _, _ = pygen.realize(c, TIGHT)
        if tt != text0:
            if pygen.token_strings(tt) == pygen.token_strings(text0):
                reqs.append({"op": "parse", "src": tt, "mode": c["mode"]})
                meta.append((idx, "tight", e0, toks))
            else:
                ctx.extra["tight_not_token_preserving"] = ctx.extra.get("tight_not_token_preserving", 0) + 1
        pc = pmap.get(key_of(c))
        if pc is not None:
            tp, _, _ = pygen.realize(pc)
            reqs.append({"op": "parse", "src": tp, "mode": c["mode"]})
            meta.append((idx, "parens", e0, toks))
            tp2, _, _ = pygen.realize(pc, VARIANTS[vnames[idx % len(vnames)]])
            reqs.append({"op": "parse", "src": tp2, "mode": c["mode"]})
            meta.append((idx, "parens+" + vnames[idx % len(vnames)], e0, toks))
    resps = h.run(reqs)
    canon, canon_src = {}, {}
    for (idx, vn, e0, toks), req, resp in zip(meta, reqs, resps):
        if vn == "canon":
            canon[idx] = pytree.strip_ranges(pytree.from_rust(resp["ok"])) if "ok" in resp else None
            canon_src[idx] = req["src"]
    for (idx, vn, e0, toks), req, resp in zip(meta, reqs, resps):
        if vn == "canon":
            continue
        ctx.replayed += 1
        ctx.distinct_cases.add(req["src"])
        base = {"fam": "layout", "request": req, "canonical": canon_src[idx], "variant": vn}
        c0 = canon.get(idx)
        kind = sr.first_stmt_kind(e0)
        if "ok" not in resp:
            if c0 is None:
                continue      # rejected in every layout: acceptance of the canonical text is C01's subject
            msg = resp.get("err", {}).get("msg", "crash").split(".")[0][:30]
            ctx.mismatch("layout.rejects@%s:%s:%s" % (feat(vn), softtag(toks), msg),
                         {"variant": vn, "src": req["src"], "canonical": base["canonical"], "observed": str(resp)[:200]}, base)
            continue
        got = pytree.strip_ranges(pytree.from_rust(resp["ok"]))
        if c0 is None:
            ctx.mismatch("layout.accepts_only_variant@%s:%s" % (feat(vn), softtag(toks)), {"variant": vn, "src": req["src"], "canonical": base["canonical"]}, base)
            continue
        d = pytree.tree_diff(c0, got)
        if d:
            ctx.mismatch("layout.tree@%s:%s" % (vn.split("+")[0], sr.tree_sig(d)), {"variant": vn, "src": req["src"], "canonical": base["canonical"],
                                                                            "expected": str(d[1])[:100], "observed": str(d[2])[:100]}, base)
    ctx.extra.setdefault("programs", {})[label] = len(cases)


def replay_layouts(ctx, cases):
    """G for LayoutMC.tla: the real lexer delivers the logical program's token kinds for every rendered layout"""
    import lexclasses as lc
    from checks import lexcommon as lx
    seen = {}
    for c in cases:
        seen.setdefault(tuple(c["inp"]), c)
    cases = list(seen.values())
    reqs = [{"op": "lex_raw", "src": lc.conc(c["inp"])} for c in cases]
    resps = ctx.harness("default").run(reqs)
    feats = {}
    for c, q, r in zip(cases, reqs, resps):
        ctx.replayed += 1
        ctx.distinct_cases.add("lay" + q["src"])
        feats[c["feat"]] = feats.get(c["feat"], 0) + 1
        base = {"fam": "layoutmc", "case": c, "src": q["src"]}
        if "toks" not in r:
            ctx.mismatch("layoutmc.crash@" + c["feat"], {"src": q["src"], "observed": str(r)[:200]}, base)
            continue
        got = ["Word" if lx.tok_kind(t[0]) == "Name" else lx.tok_kind(t[0]) for t in r["toks"]]
        got = [k for k in got if k not in ("Comment", "NonLogicalNewline")]
        if r.get("err"):
            ctx.mismatch("layoutmc.error@%s:%s" % (c["feat"], lx.tok_kind(r["err"]["kind"])), {"src": q["src"], "observed": r["err"]}, base)
        elif got != c["kinds"]:
            ctx.mismatch("layoutmc.tokens@" + c["feat"], {"src": q["src"], "expected": c["kinds"], "observed": got}, base)
    ctx.extra["layoutmc_texts"] = feats


def run(ctx):
    tier = "quick" if ctx.quick else "thorough"
    ctx.extra["rule"] = "every generated program x layout variants (quick: two rotating variants + redundant parentheses; thorough: all seven + parentheses); LayoutMC: all logical programs <= MaxLines x all layout choice combinations"
    ctx.assumptions += ["the 'simple' flag of annotated assignments is excepted by never adding parentheses around such targets",
                        "a tab after a space in indentation is the documented stricter rule and is not used as a layout variant"]
    r = ctx.tlc("lexer", "LayoutMC", "LayoutMC_%s.cfg" % tier, timeout=5400, coverage=False)
    if r.distinct < 100000:
        from vcheck import ToolError
        raise ToolError("vacuity: LayoutMC explored %d states" % r.distinct)
    # the texts of the MaxLines = 2 configuration are replayed into the real lexer (the thorough configuration is model-checked only)
    rq = r if ctx.quick else ctx.tlc("lexer", "LayoutMC", "LayoutMC_quick.cfg", timeout=5400, coverage=False)
    if len(rq.replays) < 10000:
        from vcheck import ToolError
        raise ToolError("vacuity: LayoutMC emitted %d texts" % len(rq.replays))
    replay_layouts(ctx, rq.replays)
    for name in SUBLANGS:
        cases = sr.generate(ctx, name)
        pcases = sr.generate(ctx, name, "parens")
        cap = 2500 if ctx.quick else 25000
        if len(cases) > cap:
            cases = cases[::(len(cases) + cap - 1) // cap]
            ctx.extra["exhaustive"] = False
        ctx.sample({"sublanguage": name, "variant": pygen.realize(cases[len(cases) // 2], VARIANTS["joins"])[0]})
        check(ctx, cases, pcases, name)


def replay(ctx, rec):
    if rec["case"].get("fam") == "layoutmc":
        ctx.states = ctx.transitions = 1
        replay_layouts(ctx, [rec["case"]["case"]])
        return
    c = rec["case"]
    ctx.states = ctx.transitions = 1
    h = ctx.harness("default")
    r0 = h.run([{"op": "parse", "src": c["canonical"], "mode": c["request"]["mode"]}])[0]
    r1 = h.run([c["request"]])[0]
    ctx.replayed += 1
    if ("ok" in r0) != ("ok" in r1):
        ctx.mismatch("layout.acceptance@replay", {"canonical": str(r0)[:200], "variant": str(r1)[:200]}, c)
    elif "ok" in r0:
        d = pytree.tree_diff(pytree.strip_ranges(pytree.from_rust(r0["ok"])), pytree.strip_ranges(pytree.from_rust(r1["ok"])))
        if d:
            ctx.mismatch("layout.tree@replay:" + sr.tree_sig(d), {"expected": str(d[1])[:100], "observed": str(d[2])[:100]}, c)
    ctx.sample({"variant": c["variant"]})

"""C01 -- every valid program parses to the reference tree.

Spec: PyGen.tla -- PyBuild (typed stack machine, one action per node constructor) generates every tree of each
sub-language within a node budget; PyWalk renders it with the grammar's need-parentheses relation.
G: every generated program is parsed by the real parser in Module, Interactive and (single expressions) Expression
   mode; the tree must equal the specification's tree (node kinds, child order, identifiers, operators, contexts,
   flags, literal values).  Each program is first validated against CPython's ast (3.11; 3.12 for PEP 695):
   a disagreement is a specification bug and is excluded.
T: corpus files (real CPython library/test sources): the implementation's tree against CPython's tree.
"""
import json
import os
import glob
import unicodedata
import pytree
from checks import pygen, syntaxrun as sr, lexcommon as lx, softkw

SUBLANGS = ["exprcore", "atoms", "atoms2", "prec", "calls", "simple", "compound", "defs", "pats", "softkw"]


def check_cases(ctx, cases, label):
    h = ctx.harness("default")
    texts, exps, reqs, meta = [], [], [], []
    alltoks = []
    for c in cases:
        text, tree, toks = pygen.realize(c)
        texts.append(text)
        exps.append(tree)
        alltoks.append(toks)
    refs = sr.reference([(t, c["mode"]) for t, c in zip(texts, cases)], exps)
    dis = 0
    for i, (c, text, exp, ref) in enumerate(zip(cases, texts, exps, refs)):
        toks = alltoks[i]
        e0 = pytree.strip_ranges(exp)
        if ref is None or pytree.tree_diff(e0, pytree.strip_ranges(ref)):
            dis += 1
            if dis <= 5:
                d = pytree.tree_diff(e0, pytree.strip_ranges(ref)) if ref else None
                ctx.note("spec_reference_disagreement[%s]: %r %s" % (label, text, "cpython rejects" if ref is None else sr.tree_sig(d)))
            continue
        modes = ["Module", "Interactive"] if c["mode"] == "Module" else ["Expression"]
        for m in modes:
            reqs.append({"op": "parse", "src": text, "mode": m})
            meta.append((c, text, e0, m, toks))
    resps = h.run(reqs)
    for (c, text, e0, m, toks), req, resp in zip(meta, reqs, resps):
        ctx.replayed += 1
        ctx.distinct_cases.add(m[0] + text)
        base = {"fam": "py", "request": req, "expected": e0}
        want = dict(e0, k=m) if m == "Interactive" else e0
        first = toks[0][0] if toks else ""
        if "ok" not in resp:
            if "err" in resp:
                msg = resp["err"]["msg"]
                sig = "rejects@%s:first=%s:%s" % (sr.first_stmt_kind(e0), first if first in sr.SOFT else "-", msg.split(".")[0][:30])
            else:
                sig = "crash@%s" % sr.first_stmt_kind(e0)
            ctx.mismatch(sig, {"src": text, "mode": m, "observed": str(resp)[:300]}, base)
            continue
        got = pytree.strip_ranges(pytree.from_rust(resp["ok"]))
        d = pytree.tree_diff(want, got)
        if d:
            ctx.mismatch("tree@" + sr.tree_sig(d), {"src": text, "mode": m, "expected": str(d[1])[:200], "observed": str(d[2])[:200]}, base)
    ctx.extra["spec_reference_disagreements"] = ctx.extra.get("spec_reference_disagreements", 0) + dis
    ctx.extra.setdefault("programs", {})[label] = len(cases)


def corpus_differential(ctx):
    """implementation vs reference on real source files"""
    h = ctx.harness("default")
    files = lx.corpus_files(ctx, limit_quick=20, max_bytes_quick=40000)
    progs = [open(f, encoding="utf-8").read() for f in files]
    progs += json.load(open(os.path.join(pygen.ROOT, "corpus", "locate_snippets.json")))
    resps = h.run([{"op": "parse", "src": p, "mode": "Module"} for p in progs])
    for p, r in zip(progs, resps):
        src = p
        bom = src.startswith("﻿")
        ref = pytree.from_cpython(src[1:] if bom else src, "Module")
        if ref is None:
            if pygen.needs312({"x": p}) or "type " in p or "[T" in p:
                got312 = pygen.Py312().trees([(src[1:] if bom else src, "Module")])[0]
                ref = got312
            if ref is None:
                continue
        ctx.replayed += 1
        ctx.traces_validated += 1
        base = {"fam": "corpus", "src": p[:20000]}
        if "ok" not in r:
            ctx.mismatch("corpus.rejects:%s" % (r.get("err", {}).get("msg", "?").split(".")[0][:40]), {"src": p[:200], "observed": str(r)[:300]}, base)
            continue
        got = pytree.strip_ranges(pytree.from_rust(r["ok"]))
        d = pytree.tree_diff(pytree.strip_ranges(ref), got)
        if d:
            sig = "tree@" + sr.tree_sig(d)
            # known finding F-C01-3: the reference stores identifiers NFKC-normalised (PEP 3131), this parser keeps the spelling
            if isinstance(d[1], str) and isinstance(d[2], str) and d[1] != d[2] and unicodedata.normalize("NFKC", d[2]) == d[1]:
                sig = "tree@identifier#nfkc"
            ctx.mismatch(sig, {"src_prefix": p[:100], "expected": str(d[1])[:200], "observed": str(d[2])[:200]}, base)


def run(ctx):
    ctx.extra["exhaustive"] = True
    ctx.extra["rule"] = "every tree of each sub-language within its node budget (PyGen.tla terminal states), rendered canonically; Module programs also in Interactive mode; plus corpus files"
    ctx.assumptions += ["CPython 3.11 ast (3.12 for PEP 695) validates the specification's tree on every generated program; disagreements are excluded and reported",
                        "one canonical layout per program here; layout independence is C08"]
    for name in SUBLANGS:
        cases = sr.generate(ctx, name)
        if ctx.quick and len(cases) > 15000:
            # quick tier: a deterministic stride over the exhaustive enumeration (the thorough tier replays all)
            stride = (len(cases) + 14999) // 15000
            cases = cases[::stride]
            ctx.extra["exhaustive"] = False
        ctx.sample({"sublanguage": name, "text": pygen.realize(cases[len(cases) // 2])[0]})
        check_cases(ctx, cases, name)
    corpus_differential(ctx)
    softkw.run(ctx)


def replay(ctx, rec):
    c = rec["case"]
    ctx.states = ctx.transitions = 1
    h = ctx.harness("default")
    if c["fam"].startswith("softkw"):
        softkw.replay(ctx, c)
    elif c["fam"] == "py":
        resp = h.run([c["request"]])[0]
        ctx.replayed += 1
        want = c["expected"]
        if c["request"]["mode"] == "Interactive":
            want = dict(want, k="Interactive")
        if "ok" not in resp:
            ctx.mismatch("rejects@replay", {"observed": str(resp)[:300]}, c)
        else:
            d = pytree.tree_diff(want, pytree.strip_ranges(pytree.from_rust(resp["ok"])))
            if d:
                ctx.mismatch("tree@" + sr.tree_sig(d), {"expected": str(d[1])[:200], "observed": str(d[2])[:200]}, c)
    else:
        resp = h.run([{"op": "parse", "src": c["src"], "mode": "Module"}])[0]
        ctx.replayed += 1
        ref = pytree.from_cpython(c["src"].lstrip("﻿"), "Module")
        if "ok" not in resp:
            ctx.mismatch("corpus.rejects:replay", {"observed": str(resp)[:300]}, c)
        elif ref:
            d = pytree.tree_diff(pytree.strip_ranges(ref), pytree.strip_ranges(pytree.from_rust(resp["ok"])))
            if d:
                sig = "tree@" + sr.tree_sig(d)
                if isinstance(d[1], str) and isinstance(d[2], str) and d[1] != d[2] and unicodedata.normalize("NFKC", d[2]) == d[1]:
                    sig = "tree@identifier#nfkc"
                ctx.mismatch(sig, {"expected": str(d[1])[:200], "observed": str(d[2])[:200]}, c)
    ctx.sample({"fam": c["fam"]})

"""Reader for the behaviours printed by spec/syntax/PyGen.tla: turns the token items into source text under a
layout, resolves the B/E marks into byte ranges on the expected tree, and compares with the implementation
(Rust parser through the harness) and with the reference (CPython ast, which validates the specification)."""
import json
import subprocess
import os
import sys

import pytree

ROOT = os.path.dirname(os.path.dirname(os.path.dirname(os.path.abspath(__file__))))
PY312 = "/root/.pyenv/versions/3.12.1/bin/python3"

SPEC_ONLY_FIELDS = {"src", "elifForm", "star", "parTarget", "bareGen", "noTrail", "ell", "parItems"}


OPTIONAL_NAMES = {"arg", "asname", "module", "name", "rest", "kind"}


def clean(t, field=None):
    """specification tree -> N-shape (None for absent children/names, spec-only helper fields dropped)"""
    if isinstance(t, dict):
        if t.get("k") == "~":
            return None
        out = {}
        for k, v in t.items():
            if k in SPEC_ONLY_FIELDS:
                continue
            out[k] = clean(v, k)
        if out.get("k") == "arg" and out.get("arg") is None:
            out["arg"] = ""
        if out.get("k") in ("FunctionDef", "AsyncFunctionDef", "ClassDef", "TypeAlias") and "type_params" not in out:
            out["type_params"] = []
        return out
    if isinstance(t, list):
        return [clean(x, field) for x in t]
    if t == "" and field in OPTIONAL_NAMES:
        return None
    return t


class Layout:
    """how tokens become text; every choice keeps the token sequence unchanged"""

    def __init__(self, eol="\n", indent="    ", sep=" ", bom=False, trailing_newline=True, comment=None, blank=None,
                 ff=False, join=0, brk=False, semi=False, trail="", tight=False, brk_ws="      ", join_ws="   "):
        self.eol, self.indent, self.sep, self.bom, self.trailing_newline = eol, indent, sep, bom, trailing_newline
        self.comment, self.blank = comment, blank
        self.ff = ff            # a form feed before the first token of top-level lines
        self.join = join        # backslash-newline after every join-th token outside brackets (0 = never)
        self.brk = brk          # a line break after every opening bracket
        self.semi = semi        # consecutive simple statements joined with ';'
        self.trail = trail      # trailing whitespace before each line end
        self.tight = tight      # no space between tokens unless leaving it out would change the token sequence
        self.brk_ws = brk_ws    # what follows the line break after an opening bracket ("\n" in it = one more line end)
        self.join_ws = join_ws  # leading whitespace of the line after a backslash join


CANON = Layout()
COMPOUND_START = {"if", "while", "for", "with", "try", "def", "class", "async", "match", "@", "elif", "else", "except", "finally", "case"}
OPEN, CLOSE = {"(", "[", "{"}, {")", "]", "}"}


def _wordy(ch):
    return ch.isalnum() or ch == "_" or ord(ch) > 127


def needs_space(prev, nxt):
    """conservative: may two adjacent tokens be written without a space and still be these two tokens?"""
    a, b = prev[-1], nxt[0]
    if _wordy(a) and (_wordy(b) or b in "'\""):
        return True
    if (a == "." and b.isdigit()) or (a.isdigit() and b == "."):
        return True
    if a in "+-*/%&|^<>=!~@:." and b in "=*/<>&|.+-:>":
        return True
    return False


def token_strings(text):
    """the reference tokenizer's token texts (layout tokens dropped), or None"""
    import io
    import tokenize
    out = []
    try:
        for t in tokenize.generate_tokens(io.StringIO(text.lstrip("\ufeff")).readline):
            if t.type in (tokenize.NL, tokenize.NEWLINE, tokenize.INDENT, tokenize.DEDENT, tokenize.ENDMARKER, tokenize.COMMENT):
                continue
            out.append(t.string)
    except (tokenize.TokenError, SyntaxError, IndentationError):
        return None
    return out


def realize(case, layout=CANON, names=None):
    """-> (text, tree with expected ranges, token list [(text, start, end)])"""
    tree = clean(case["tree"])
    pos = 3 if layout.bom else 0
    text = "\ufeff" if layout.bom else ""
    toks = []
    pendingB = []
    starts, ends = {}, {}
    depth = 0
    bol = True
    line_has_tok = False
    line_first = None
    last_tok = None
    nest = 0
    count = 0
    items = case["items"]

    def emit(sx):
        nonlocal text, pos
        text += sx
        pos += len(sx.encode("utf-8"))
    n = len(items)
    for idx, it in enumerate(items):
        kind = it["i"]
        if kind == "t":
            s = it["s"]
            if names and s in names:
                s = names[s]
            if bol:
                if layout.ff and depth == 0:
                    emit("\x0c")
                emit(layout.indent * depth)
                bol = False
            elif line_has_tok:
                if not (layout.tight and not needs_space(last_tok, s)):
                    emit(layout.sep)
            if not line_has_tok:
                line_first = s
            for p in pendingB:
                starts[p] = pos
            pendingB = []
            b = s.encode("utf-8")
            toks.append((s, pos, pos + len(b)))
            emit(s)
            line_has_tok = True
            last_tok = s
            count += 1
            if s in OPEN:
                nest += 1
                if layout.brk:
                    emit(layout.eol + layout.brk_ws.replace("\n", layout.eol))
            elif s in CLOSE:
                nest -= 1
            elif layout.join and nest == 0 and count % layout.join == 0:
                # a join is only possible when another token follows on this logical line
                nxt = next((x for x in items[idx + 1:] if x["i"] in ("t", "NL")), None)
                if nxt and nxt["i"] == "t":
                    emit(" \\" + layout.eol + layout.join_ws)
        elif kind == "B":
            pendingB.append(tuple(it["p"]))
        elif kind == "E":
            ends[tuple(it["p"])] = toks[-1][2] if toks else pos
        elif kind == "NL":
            nxt = next((x for x in items[idx + 1:] if x["i"] not in ("B", "E")), None)
            if (layout.semi and nxt and nxt["i"] == "t" and last_tok != ":" and line_first not in COMPOUND_START
                    and nxt["s"] not in COMPOUND_START):
                emit(" ;")
                continue
            if layout.comment and line_has_tok:
                emit(layout.comment)
            emit(layout.trail)
            emit(layout.eol)
            if layout.blank is not None:
                emit(layout.blank + layout.eol)
            bol = True
            line_has_tok = False
        elif kind == "IND":
            depth += 1
        elif kind == "DED":
            depth -= 1
    if line_has_tok and layout.trailing_newline and case["mode"] != "Expression":
        text += layout.eol
    if not layout.trailing_newline:
        text = text.rstrip("\r\n")
    # attach ranges
    for p, s0 in starts.items():
        node = tree
        ok = True
        for step in p:
            try:
                node = node[step - 1] if isinstance(step, int) else node[step]
            except (KeyError, IndexError, TypeError):
                ok = False
                break
        if ok and isinstance(node, dict) and p in ends:
            node["range"] = [s0, ends[p]]
    return text, tree, toks


def cpython_tree(text, mode, need312=False):
    if not need312:
        return pytree.from_cpython(text, mode)
    return None


class Py312:
    """a helper process running CPython 3.12 (PEP 695 syntax) to produce reference trees"""

    def __init__(self):
        self.proc = None

    def trees(self, items):
        """items: list of (text, mode) -> list of N-shape trees or None"""
        if not os.path.exists(PY312):
            return [None] * len(items)
        code = ("import sys, json\nsys.path.insert(0, %r)\nimport pytree\n"
                "for line in sys.stdin:\n    t, m = json.loads(line)\n    print(json.dumps(pytree.from_cpython(t, m)))\n" % os.path.join(ROOT, "tools"))
        p = subprocess.run([PY312, "-c", code], input="".join(json.dumps(x) + "\n" for x in items), capture_output=True, text=True)
        out = []
        for line in p.stdout.splitlines():
            try:
                out.append(json.loads(line))
            except Exception:
                out.append(None)
        while len(out) < len(items):
            out.append(None)
        return out


def needs312(tree):
    s = json.dumps(tree)
    return '"TypeAlias"' in s or '"TypeVar"' in s or '"TypeVarTuple"' in s or '"ParamSpec"' in s


def strip_optional(t):
    """ranges of node kinds that only carry a range under all-nodes-with-ranges are not compared in the default build"""
    return t


RANGELESS_DEFAULT = {"arguments", "arg_with_default", "comprehension", "withitem", "match_case", "Module", "Expression", "Interactive"}


def drop_rangeless(t):
    if isinstance(t, dict):
        out = {k: drop_rangeless(v) for k, v in t.items()}
        if out.get("k") in RANGELESS_DEFAULT:
            out.pop("range", None)
        return out
    if isinstance(t, list):
        return [drop_rangeless(x) for x in t]
    return t

"""Reader for the behaviours printed by spec/syntax/PyGen.tla: turns the token items into source text under a
layout, resolves the B/E marks into byte ranges on the expected tree, and compares with the implementation
(Rust parser through the harness) and with the reference (CPython ast, which validates the specification)."""
import json
import subprocess
import os
import sys

import pytree

ROOT = os.path.dirname(os.path.dirname(os.path.dirname(os.path.abspath(__file__))))
PY312 = "/root/.pyenv/versions/3.12.1/bin/python3"

SPEC_ONLY_FIELDS = {"src", "elifForm", "star", "parTarget", "bareGen", "noTrail"}


OPTIONAL_NAMES = {"arg", "asname", "module", "name", "rest", "kind"}


def clean(t, field=None):
    """specification tree -> N-shape (None for absent children/names, spec-only helper fields dropped)"""
    if isinstance(t, dict):
        if t.get("k") == "~":
            return None
        out = {}
        for k, v in t.items():
            if k in SPEC_ONLY_FIELDS:
                continue
            out[k] = clean(v, k)
        if out.get("k") == "arg" and out.get("arg") is None:
            out["arg"] = ""
        if out.get("k") in ("FunctionDef", "AsyncFunctionDef", "ClassDef", "TypeAlias") and "type_params" not in out:
            out["type_params"] = []
        return out
    if isinstance(t, list):
        return [clean(x, field) for x in t]
    if t == "" and field in OPTIONAL_NAMES:
        return None
    return t


class Layout:
    """how tokens become text; every choice keeps the token sequence unchanged"""

    def __init__(self, eol="\n", indent="    ", sep=" ", bom=False, trailing_newline=True, comment=None, blank=None):
        self.eol, self.indent, self.sep, self.bom, self.trailing_newline = eol, indent, sep, bom, trailing_newline
        self.comment, self.blank = comment, blank


CANON = Layout()


def realize(case, layout=CANON, names=None):
    """-> (text, tree with expected ranges, token list [(text, start, end)])"""
    tree = clean(case["tree"])
    out = []          # pieces of text
    pos = 3 if layout.bom else 0
    text = "﻿" if layout.bom else ""
    toks = []
    pendingB = []
    lastE = []        # E marks wait for the previous token: resolved immediately (previous token known)
    starts, ends = {}, {}
    depth = 0
    bol = True
    line_has_tok = False
    items = case["items"]
    for it in items:
        kind = it["i"]
        if kind == "t":
            s = it["s"]
            if names and s in names:
                s = names[s]
            if bol:
                lead = layout.indent * depth
                text += lead
                pos += len(lead.encode("utf-8"))
                bol = False
            elif line_has_tok:
                text += layout.sep
                pos += len(layout.sep.encode("utf-8"))
            b = s.encode("utf-8")
            for p in pendingB:
                starts[p] = pos
            pendingB = []
            toks.append((s, pos, pos + len(b)))
            text += s
            pos += len(b)
            line_has_tok = True
        elif kind == "B":
            pendingB.append(tuple(it["p"]))
        elif kind == "E":
            ends[tuple(it["p"])] = toks[-1][2] if toks else pos
        elif kind == "NL":
            if layout.comment and line_has_tok:
                text += layout.comment
                pos += len(layout.comment.encode("utf-8"))
            text += layout.eol
            pos += len(layout.eol.encode("utf-8"))
            if layout.blank:
                text += layout.blank + layout.eol
                pos += len((layout.blank + layout.eol).encode("utf-8"))
            bol = True
            line_has_tok = False
        elif kind == "IND":
            depth += 1
        elif kind == "DED":
            depth -= 1
    if line_has_tok and layout.trailing_newline and case["mode"] != "Expression":
        text += layout.eol
    if not layout.trailing_newline:
        text = text.rstrip("\r\n")
    # attach ranges
    for p, s in starts.items():
        node = tree
        ok = True
        for step in p:
            try:
                node = node[step - 1] if isinstance(step, int) else node[step]
            except (KeyError, IndexError, TypeError):
                ok = False
                break
        if ok and isinstance(node, dict) and p in ends:
            node["range"] = [s, ends[p]]
    return text, tree, toks


def cpython_tree(text, mode, need312=False):
    if not need312:
        return pytree.from_cpython(text, mode)
    return None


class Py312:
    """a helper process running CPython 3.12 (PEP 695 syntax) to produce reference trees"""

    def __init__(self):
        self.proc = None

    def trees(self, items):
        """items: list of (text, mode) -> list of N-shape trees or None"""
        if not os.path.exists(PY312):
            return [None] * len(items)
        code = ("import sys, json\nsys.path.insert(0, %r)\nimport pytree\n"
                "for line in sys.stdin:\n    t, m = json.loads(line)\n    print(json.dumps(pytree.from_cpython(t, m)))\n" % os.path.join(ROOT, "tools"))
        p = subprocess.run([PY312, "-c", code], input="".join(json.dumps(x) + "\n" for x in items), capture_output=True, text=True)
        out = []
        for line in p.stdout.splitlines():
            try:
                out.append(json.loads(line))
            except Exception:
                out.append(None)
        while len(out) < len(items):
            out.append(None)
        return out


def needs312(tree):
    s = json.dumps(tree)
    return '"TypeAlias"' in s or '"TypeVar"' in s or '"TypeVarTuple"' in s or '"ParamSpec"' in s


def strip_optional(t):
    """ranges of node kinds that only carry a range under all-nodes-with-ranges are not compared in the default build"""
    return t


RANGELESS_DEFAULT = {"arguments", "arg_with_default", "comprehension", "withitem", "match_case", "Module", "Expression", "Interactive"}


def drop_rangeless(t):
    if isinstance(t, dict):
        out = {k: drop_rangeless(v) for k, v in t.items()}
        if out.get("k") in RANGELESS_DEFAULT:
            out.pop("range", None)
        return out
    if isinstance(t, list):
        return [drop_rangeless(x) for x in t]
    return t

"""C02 -- node ranges are the exact source extent of each construct.

Spec: PyGen.tla brackets the tokens of every range-carrying node with B/E marks (expressions exclude redundant
parentheses, tuples and generator expressions include their own, compound statements end with their last body
statement, decorators precede the def/class extent, keywords include '**', ...).
G: generated programs under layouts that move bytes (multi-byte identifiers, CRLF / CR, BOM, comments and blank lines,
   tab indentation, missing final newline); harness built with all-nodes-with-ranges; every marked node's range must
   equal the byte offsets of its marks; the structural clauses (inside the input, character boundaries, start <= end,
   children inside parents except decorators, siblings in order) are evaluated on every tree, including corpus files.
Spec validation: CPython lineno/col_offset converted to byte offsets must agree with the marks.
"""
import json
import os
import pytree
from checks import pygen, syntaxrun as sr, lexcommon as lx

SUBLANGS = ["exprcore", "atoms", "atoms2", "prec", "calls", "simple", "compound", "defs", "pats"]
LAYOUTS = {
    "canon": (pygen.Layout(), None),
    "multibyte": (pygen.Layout(), {"a": "é", "b": "名", "x": "ж", "f": "ƒ"}),
    "crlf": (pygen.Layout(eol="\r\n"), None),
    "cr": (pygen.Layout(eol="\r", indent="\t"), None),
    "bom": (pygen.Layout(bom=True), None),
    "comments": (pygen.Layout(comment="  # c é", blank="   # blank", sep="  "), None),
    "noeol": (pygen.Layout(trailing_newline=False, indent="  "), {"a": "\U00010400"}),
}


def range_pairs(exp, got, path=(), out=None):
    """parallel walk: (path kinds, expected range, observed range) for every node that has an expected range"""
    out = [] if out is None else out
    if isinstance(exp, dict) and isinstance(got, dict):
        if "range" in exp:
            out.append((path + (exp.get("k"),), exp["range"], got.get("range")))
        for k, v in exp.items():
            if k != "range" and k in got:
                range_pairs(v, got[k], path + ((exp.get("k"), k),), out)
    elif isinstance(exp, list) and isinstance(got, list):
        for a, b in zip(exp, got):
            range_pairs(a, b, path, out)
    return out


def sig_of(path, e, g, exp_tree_node=None):
    steps = [p for p in path if isinstance(p, tuple)]
    kind = path[-1]
    parent = "%s.%s" % steps[-1] if steps else "top"
    if g is None:
        return "range.missing@%s" % kind
    side = (("start" + ("+" if g[0] > e[0] else "-")) if g[0] != e[0] else "") + (("end" + ("+" if g[1] > e[1] else "-")) if g[1] != e[1] else "")
    return "range@%s<%s:%s" % (kind, parent, side)


def check_cases(ctx, cases, label):
    h = ctx.harness("ranges")
    names = list(LAYOUTS)
    batch = []
    for idx, c in enumerate(cases):
        lays = ["canon", names[1 + (idx % (len(names) - 1))]] if ctx.quick else names
        for ln in lays:
            lay, nm = LAYOUTS[ln]
            text, tree, toks = pygen.realize(c, lay, nm)
            batch.append((c, ln, text, tree))
    refs = sr.reference([(t.lstrip("﻿"), c["mode"]) for (c, ln, t, tr) in batch], [tr for (c, ln, t, tr) in batch])
    reqs, meta = [], []
    dis = 0
    for (c, ln, text, tree), ref in zip(batch, refs):
        shift = 3 if text.startswith("﻿") else 0
        # the specification's marks against the reference positions
        ok = ref is not None and not pytree.tree_diff(pytree.strip_ranges(tree), pytree.strip_ranges(ref))
        if ok:
            for path, e, g in range_pairs(tree, ref):
                if g is not None and [g[0] + shift, g[1] + shift] != e:
                    ok = False
                    if dis < 5:
                        ctx.note("spec_reference_disagreement[%s/%s]: %r %s spec=%s cpython=%s" % (label, ln, text, path[-1], e, g))
                    break
        if not ok:
            dis += 1
            continue
        reqs.append({"op": "parse", "src": text, "mode": c["mode"]})
        meta.append((c, ln, text, tree))
    resps = h.run(reqs)
    for (c, ln, text, tree), req, resp in zip(meta, reqs, resps):
        ctx.replayed += 1
        ctx.distinct_cases.add(text)
        base = {"fam": "py_ranges", "request": req, "expected": tree, "layout": ln}
        if "ok" not in resp:
            continue      # acceptance is C01's / C08's subject
        got = pytree.from_rust(resp["ok"])
        if pytree.tree_diff(pytree.strip_ranges(tree), pytree.strip_ranges(got)):
            continue      # tree shape differences are C01's subject
        for path, e, g in range_pairs(tree, got):
            if g != e:
                ctx.mismatch(sig_of(path, e, g), {"src": text, "layout": ln, "node": path[-1], "expected": e, "observed": g}, base)
                break
        for why, kind, r in sr.structural_ranges(got, text.encode("utf-8")):
            ctx.mismatch("structure.%s@%s" % (why, kind), {"src": text, "layout": ln, "range": r}, base)
            break
    ctx.extra["spec_reference_disagreements"] = ctx.extra.get("spec_reference_disagreements", 0) + dis
    ctx.extra.setdefault("programs", {})[label] = len(cases)


def corpus_structure(ctx):
    """structural clauses and reference positions on real files"""
    h = ctx.harness("ranges")
    files = lx.corpus_files(ctx, limit_quick=20, max_bytes_quick=40000)
    progs = [open(f, encoding="utf-8").read() for f in files]
    progs += json.load(open(os.path.join(pygen.ROOT, "corpus", "locate_snippets.json")))
    resps = h.run([{"op": "parse", "src": p, "mode": "Module"} for p in progs])
    for p, r in zip(progs, resps):
        if "ok" not in r:
            continue
        ctx.replayed += 1
        ctx.traces_validated += 1
        got = pytree.from_rust(r["ok"])
        base = {"fam": "corpus_ranges", "src": p[:20000]}
        for why, kind, rg in sr.structural_ranges(got, p.encode("utf-8")):
            ctx.mismatch("structure.%s@%s" % (why, kind), {"src_prefix": p[:80], "range": rg}, base)
            break
        shift = 3 if p.startswith("﻿") else 0
        ref = pytree.from_cpython(p.lstrip("﻿"), "Module")
        if ref is None or pytree.tree_diff(pytree.strip_ranges(ref), pytree.strip_ranges(got)):
            continue
        seen = set()
        for path, e, g in range_pairs(ref, got):
            e2 = [e[0] + shift, e[1] + shift]
            if g != e2:
                s = sig_of(path, e2, g)
                if s not in seen:
                    seen.add(s)
                    ctx.mismatch(s, {"src_prefix": p[:80], "node": path[-1], "expected": e2, "observed": g,
                                     "text": p.encode("utf-8")[min(e2[0], g[0]) - shift:max(e2[1], g[1]) - shift].decode("utf-8", "replace")[:120]}, base)


def run(ctx):
    ctx.extra["exhaustive"] = not ctx.quick
    ctx.extra["rule"] = "every generated program of each sub-language under byte-moving layouts (quick: canonical + one rotating layout; thorough: all seven), all-nodes-with-ranges build; plus corpus files"
    ctx.assumptions += ["CPython positions (converted to byte offsets) validate the specification's marks for statements, expressions, patterns, parameters, keywords, aliases, handlers and type parameters",
                        "nodes that carry a range only under all-nodes-with-ranges (arguments, comprehension, withitem, match_case, module) are checked structurally"]
    for name in SUBLANGS:
        cases = sr.generate(ctx, name)
        cap = 8000 if ctx.quick else 60000
        if len(cases) > cap:
            cases = cases[::(len(cases) + cap - 1) // cap]
            ctx.extra["exhaustive"] = False
        ctx.sample({"sublanguage": name, "text": pygen.realize(cases[len(cases) // 2], *LAYOUTS["multibyte"])[0]})
        check_cases(ctx, cases, name)
    corpus_structure(ctx)
    # expressions inside f-string fields: FString.tla bodies (core items), ranges against the expression parsed alone
    # and moved to its byte offset (the same clause as in C07; here it is C02's extent claim for nested expressions)
    from checks import c07
    c07.run_cfg(ctx, "FString_deepq.cfg", "fstring_field_ranges", 10 ** 9)


def replay(ctx, rec):
    c = rec["case"]
    if c.get("fam") == "fstr":
        from checks import c07
        return c07.replay(ctx, rec)
    ctx.states = ctx.transitions = 1
    h = ctx.harness("ranges")
    if c["fam"] == "py_ranges":
        resp = h.run([c["request"]])[0]
        ctx.replayed += 1
        if "ok" in resp:
            got = pytree.from_rust(resp["ok"])
            for path, e, g in range_pairs(c["expected"], got):
                if g != e:
                    ctx.mismatch(sig_of(path, e, g), {"expected": e, "observed": g}, c)
                    break
            for why, kind, r in sr.structural_ranges(got, c["request"]["src"].encode("utf-8")):
                ctx.mismatch("structure.%s@%s" % (why, kind), {"range": r}, c)
                break
    else:
        resp = h.run([{"op": "parse", "src": c["src"], "mode": "Module"}])[0]
        ctx.replayed += 1
        if "ok" in resp:
            for why, kind, rg in sr.structural_ranges(pytree.from_rust(resp["ok"]), c["src"].encode("utf-8")):
                ctx.mismatch("structure.%s@%s" % (why, kind), {"range": rg}, c)
                break
    ctx.sample({"fam": c["fam"]})

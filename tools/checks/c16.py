"""C16 -- repr of text and bytes.

M: Escape.tla -- layout pass / quote choice / fast path / writer as a machine, against Python's repr written as a
   per-class table, the announced length against the real length, and Decode(Repr(s)) = s (invariants).
G: every class string <= MaxLen (16 classes for text, 10 for bytes) x 3 class-member variants: expected repr text,
   announced length, fast-path flag and quote replayed on UnicodeEscape/AsciiEscape; the repr is parsed back with
   Constant::parse and must give the value.  Spec validation: CPython repr() and ast.literal_eval().
Extra: every byte string of length <= 2 (quick: <= 1 plus a seeded sample) compared with CPython's repr directly.
"""
import ast
import json


def concrete(case):
    chars = {k: chr(v) for k, v in case["chars"].items()}
    body = "".join(chars.get(t, t) for t in case["body"])
    q = "'" if case["quote"] == "SQ" else '"'
    return ("b" if case["bytes"] else "") + q + body + q


def run_cases(ctx, cases):
    h = ctx.harness("default")
    reqs = [{"op": "repr", "codes": c["codes"], "bytes": c["bytes"]} for c in cases]
    resps = h.run(reqs)
    dis = 0
    back_reqs, back_meta = [], []
    for case, req, resp in zip(cases, reqs, resps):
        ctx.replayed += 1
        ctx.distinct_cases.add(json.dumps(req, sort_keys=True))
        want = concrete(case)
        value = bytes(case["codes"]) if case["bytes"] else "".join(chr(c) for c in case["codes"])
        # specification vs the reference it formalises
        if repr(value) != want or ast.literal_eval(want) != value:
            dis += 1
            if dis <= 5:
                ctx.note("spec_reference_disagreement: value=%r spec=%r cpython=%r" % (value, want, repr(value)))
            continue
        base = {"fam": "repr", "case": case, "request": req}
        kind = "bytes" if case["bytes"] else "str"
        classes = "+".join(sorted(set(case["val"])))
        if "text" not in resp:
            ctx.mismatch("repr.%s.crash" % kind, {"value": case["codes"], "observed": resp}, base)
            continue
        if resp["text"] != want or resp["display"] != want:
            ctx.mismatch("repr.%s.text@%s" % (kind, first_diff_class(case, resp["text"] or "")), {"value": case["codes"], "expected": want, "observed": resp["text"], "display": resp["display"]}, base)
        if resp["len"] != case["len"]:
            ctx.mismatch("repr.%s.announced_len@%s" % (kind, classes), {"value": case["codes"], "expected": case["len"], "observed": resp["len"]}, base)
        if resp["changed"] != case["changed"]:
            ctx.mismatch("repr.%s.fast_path@%s" % (kind, classes), {"value": case["codes"], "expected": case["changed"], "observed": resp["changed"]}, base)
        if resp["quote"] != case["quote"]:
            ctx.mismatch("repr.%s.quote" % kind, {"value": case["codes"], "expected": case["quote"], "observed": resp["quote"]}, base)
        if resp["text"]:
            back_reqs.append({"op": "const_parse", "src": resp["text"]})
            back_meta.append((case, req))
    for (case, req), resp in zip(back_meta, h.run(back_reqs)):
        ctx.replayed += 1
        got = resp.get("bytes") if case["bytes"] else resp.get("str")
        if got != case["codes"]:
            ctx.mismatch("repr.%s.parse_back@%s" % ("bytes" if case["bytes"] else "str", "+".join(sorted(set(case["val"])))),
                         {"value": case["codes"], "observed": resp}, {"fam": "repr", "case": case, "request": req})
    ctx.extra["spec_reference_disagreements"] = ctx.extra.get("spec_reference_disagreements", 0) + dis


def first_diff_class(case, got):
    """class of the first value character whose rendering differs (best effort)"""
    want = concrete(case)
    k = 0
    while k < min(len(want), len(got)) and want[k] == got[k]:
        k += 1
    # walk the expected body to find which value char covers position k
    pos = (2 if case["bytes"] else 1)
    chars = {kk: chr(v) for kk, v in case["chars"].items()}
    import itertools
    # recompute per-character spans using the class of each value char
    span = pos
    for cls, code in zip(case["val"], case["codes"]):
        # length of this char's rendering = up to the next char's start; approximate with repr of the single char
        one = repr(bytes([code]))[2:-1] if case["bytes"] else repr(chr(code))[1:-1]
        if cls in ("SQ", "DQ"):
            one = ("\\" if cls == case["quote"] else "") + ("'" if cls == "SQ" else '"')
        if span + len(one) > k:
            return cls
        span += len(one)
    return "quote"


def bytes_vs_cpython(ctx):
    """every byte string of length <= 2 (quick: <= 1 and a seeded sample of length 2) against CPython's repr"""
    h = ctx.harness("default")
    vals = [b""] + [bytes([a]) for a in range(256)]
    if ctx.quick:
        vals += [bytes([ctx.rng.randrange(256), ctx.rng.randrange(256)]) for _ in range(3000)]
    else:
        vals += [bytes([a, b]) for a in range(256) for b in range(256)]
    reqs = [{"op": "repr", "codes": list(v), "bytes": True} for v in vals]
    for v, req, resp in zip(vals, reqs, h.run(reqs)):
        ctx.replayed += 1
        if resp.get("text") != repr(v):
            ctx.mismatch("repr.bytes.vs_cpython", {"value": list(v), "expected": repr(v), "observed": resp.get("text")},
                         {"fam": "repr_bytes_cpython", "request": req, "want": repr(v)})
    ctx.extra["bytes_vs_cpython"] = len(vals)


def run(ctx):
    tier = "quick" if ctx.quick else "thorough"
    ctx.extra["exhaustive"] = True
    ctx.extra["rule"] = "every class string <= MaxLen x 3 member variants (text: 16 classes, bytes: 10 classes); plus byte strings <= 2 against CPython"
    ctx.assumptions += ["class members are code points whose printable status does not depend on the Unicode version",
                        "CPython repr()/ast.literal_eval validate the specification on every case"]
    for kind in ("str", "bytes"):
        r = ctx.tlc("fmt", "Escape", "Escape_%s_%s.cfg" % (kind, tier), timeout=2400)
        ctx.require_coverage(r, ["LayoutStep", "ChooseQuote", "WriteFast", "WriteStep", "WriteEnd"])
        ctx.sample(r.replays[len(r.replays) // 2])
        run_cases(ctx, r.replays)
    bytes_vs_cpython(ctx)


def replay(ctx, rec):
    c = rec["case"]
    ctx.states = ctx.transitions = 1
    if c["fam"] == "repr":
        run_cases(ctx, [c["case"]])
    else:
        h = ctx.harness("default")
        resp = h.run([c["request"]])[0]
        ctx.replayed += 1
        if resp.get("text") != c["want"]:
            ctx.mismatch("repr.bytes.vs_cpython", {"expected": c["want"], "observed": resp.get("text")}, c)
    ctx.sample(c)

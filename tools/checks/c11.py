"""C11 -- unparsing an expression and parsing it again gives the same expression.

Spec: spec/syntax/Unparse.tla (extends PyGen.tla).  U(n, lvl) mirrors ast/src/unparse.rs (sixteen levels, the level
handed to every child, group_if, special forms).
M: RoundTripSafe -- for every expression tree PyBuild can construct within the budget, U's token sequence is the
   grammar's rendering R (validated by C01 against the parser and CPython) plus redundant parenthesis pairs only
   (C08: those do not change the tree).  All constructor pairs (budget 3) / triples (budget 4) of 22 constructors.
G: for every generated tree the real unparser must print exactly U's tokens (mirror = code), its output must parse
   back to the same tree (ranges and contexts erased) and unparse to the same text (fixed point).
   The same round trip runs on constants (boundary floats from bit patterns, huge ints, strings/bytes with special
   characters, complex, prefixes), on f-strings (nested quotes, specs, conversions, debug text) and on every
   expression of the corpus files (segments cut out with CPython's ast).
"""
import ast as pyast
import json
import os
import random
import struct
import pytree
from checks import pygen, syntaxrun as sr, lexcommon as lx

CONFIGS = ["all", "exprcore", "atoms", "atoms2", "prec", "calls", "callkw"]


def strip(t):
    """ranges and load/store tags erased"""
    if isinstance(t, dict):
        return {k: strip(v) for k, v in t.items() if k not in ("range", "ctx")}
    if isinstance(t, list):
        return [strip(x) for x in t]
    return t


def generate(ctx, name):
    tier = "quick" if ctx.quick else "thorough"
    cfg = "Unparse_%s_%s.cfg" % (name, tier)
    r = ctx.tlc("syntax", "Unparse", cfg, coverage=False, timeout=5400)
    from vcheck import ToolError
    if len(r.replays) < 50:
        raise ToolError("vacuity: %s generated %d trees" % (cfg, len(r.replays)))
    unsafe = [c for c in r.replays if not c["safe"]]
    if unsafe:
        raise ToolError("Unparse.tla: RoundTripSafe holds but %d records are flagged unsafe" % len(unsafe))
    return r.replays


def innermost(d):
    path, a, b = d
    steps = [p for p in path if isinstance(p, tuple)]
    return "%s.%s" % steps[-1] if steps else "top"


def fexpr_escape(resp):
    """the f-string renderer escapes the whole body, replacement-field expressions included (known limitation
    F-C11-1): it bites exactly when an expression's own text holds a backslash, or holds the quote the body gets"""
    ex = resp.get("fexprs") or []
    if not ex:
        return False
    body = ex + (resp.get("flits") or [])
    single_outer = not (any("'" in x for x in body) and not any('"' in x for x in body))
    outer = "'" if single_outer else '"'
    return any("\\" in e or outer in e for e in ex)


def judge(ctx, src, resp, fam, expect=None, root=None):
    """the round-trip clauses on one harness answer"""
    base = {"fam": fam, "src": src, "expect": expect}
    if "tree1" not in resp:
        return False
    ctx.replayed += 1
    t1 = strip(pytree.from_rust(resp["tree1"]))
    root = (root or t1.get("k")) + ("#fexpr_escape" if fexpr_escape(resp) else "")
    if expect is not None and resp["toks1"] != resp["expect_toks"]:
        a, b = resp["expect_toks"], resp["toks1"]
        i = next((j for j in range(min(len(a), len(b))) if a[j] != b[j]), min(len(a), len(b)))
        ctx.mismatch("mirror.tokens@%s:%s->%s" % (root, (a[i] if i < len(a) else "end")[:24], (b[i] if i < len(b) else "end")[:24]),
                     {"src": src, "unparsed": resp["text1"], "spec_tokens": expect}, base)
    rp = resp["reparse"]
    if "ok" not in rp:
        ctx.mismatch("roundtrip.rejected@%s:%s" % (root, rp["err"]["msg"].split(".")[0][:40]),
                     {"src": src, "unparsed": resp["text1"], "error": rp["err"]}, base)
        return True
    t2 = strip(pytree.from_rust(rp["ok"]))
    d = pytree.tree_diff(t1, t2)
    if d:
        ctx.mismatch("roundtrip.tree@%s:%s" % (root, innermost(d)), {"src": src, "unparsed": resp["text1"], "first": str(d[1])[:120], "second": str(d[2])[:120]}, base)
    if resp.get("text2") != resp["text1"]:
        ctx.mismatch("fixedpoint@%s" % root, {"src": src, "first": resp["text1"], "second": resp.get("text2")}, base)
    return True


def run_texts(ctx, texts, fam):
    h = ctx.harness("default")
    reqs = [{"op": "unparse", "src": t} for t in texts]
    n = 0
    for req, resp in zip(reqs, h.run(reqs)):
        if judge(ctx, req["src"], resp, fam):
            n += 1
    ctx.distinct_cases.update(texts)
    ctx.extra.setdefault("texts", {})[fam] = n
    return n


# ---------------------------------------------------------------------------------------------- constant pools
def float_texts(rng, n):
    out = ["0.0", "1.0", "0.1", "1e16", "1e15", "123456789012345680.0", "1e22", "1e23", "1e-4", "1e-5", "1e-7", "5e-324", "2.2250738585072014e-308",
           "2.225073858507201e-308", "1.7976931348623157e308", "1e308", "1e309", "1e400", "4.9e-324", "0.3", "2.5", "1e100", "1.5e-10", "9007199254740993.0",
           "0.30000000000000004", "1e21", "1e-320", "3.", ".5", "1_0.0_1", "1e+5", "0e0", "00.5"]
    while len(out) < n:
        bits = rng.getrandbits(64)
        v = struct.unpack("<d", struct.pack("<Q", bits))[0]
        if v != v or v in (float("inf"), float("-inf")):
            continue
        out.append(repr(abs(v)))
    return out


INTS = ["0", "1", "7", "2147483647", "2147483648", "4294967295", "4294967296", "9223372036854775807", "9223372036854775808", "18446744073709551616",
        "1" + "0" * 40, "9" * 100, "0x7f", "0XFF_FF", "0o17", "0b101", "1_000_000", "00", "0_0"]
COMPLEX = ["1j", "0j", "1.5j", "1e309j", "1e22j", "1e-7j", "5e-324j", "1.7976931348623157e308j", "10j", "1_0j", "1e16j", "123456789012345678j", "0.1j", "1e23J"]
STRS = ["''", "'a'", '"a"', "'\\''", '"\\""', "'\\'\"'", "'\"'", '"\'"', "'\\\\'", "'\\n'", "'\\t\\r'", "'\\x00'", "'\\x7f'", "'\\x80'", "'\\xff'", "'é'", "'名'",
        "'\\U0001F600'", "'😀'", "'\\u2028'", "'\\u200b'", "'e\\u0301'", "'\\N{BULLET}'", "'\\x1b['", "'a' 'b'", "'a' \"b\"", "u'a'", "U'a'", "r'\\n'", "R'\\''",
        "'''a\nb'''", '"""a"b\'c"""', "'{}'", "'{a}'", "'%s'", "' '", "'\\a\\b\\f\\v'", "'\\0'", "'\\777'", "'\\ud7ff'", "'\\ue000'", "'\\\n'", "'\ufeff'", "'a\\\nb'",
        "'\x7f'", "'\xa0'", "'\xad'", "'\u0378'", "'\u3000'"]
BYTES = ["b''", "b'a'", 'b"a"', "b'\\''", 'b"\\""', "b'\\'\"'", "b'\\\\'", "b'\\n\\t\\r'", "b'\\x00'", "b'\\x7f'", "b'\\x80\\xff'", "B'a'", "rb'\\n'", "Rb'a'", "bR'a'", "b'a' b'b'",
         "b'''a\nb'''", "b' ~'"] + ["b'" + "".join("\\x%02x" % b for b in range(s, s + 32)) + "'" for s in range(0, 256, 32)]
OTHER = ["None", "True", "False", "...", "()", "[]", "{}", "(1,)", "1,", "1, 2", "[1, 2]", "{1}", "{1: 2}", "{**a}", "{**a, 1: 2}", "{1: 2, **a}", "{**a or b}", "{**a if b else c}",
         "{**lambda: 0}", "{**a | b}", "{**(yield)}", "{**await a}", "{**not a}", "{**a < b}", "{**a, **b}"]
CONTEXTS = ["%s", "-%s", "%s.real", "%s[%s]", "f(%s)", "(%s,)", "%s if %s else %s", "{%s: %s}", "%s ** %s", "a[%s:%s]", "lambda x=%s: x"]

FSTRINGS = [
    'f"{a}"', 'f"{a!r}"', 'f"{a!s}"', 'f"{a!a}"', 'f"{a:>10}"', 'f"{a!r:>{w}}"', 'f"{a}{b}"', "f'{a + 1}'", 'f"{f\'{a}\'}"', 'f"{a:{b}.{c}}"', 'f"x{a}y" "z"', '"z" f"{a}"',
    'f"{a=}"', 'f"{ a = }"', 'f"{a=!s}"', 'f"{a=:>4}"', 'f"{(lambda x: 1)}"', 'f"{(a:=1)}"', 'f"""{\na}"""', 'f"{(yield)}"', 'f"{é}é{ü}"', 'rf"{a}\\n"', 'f"\\n{a}\\t"',
    'f"{a[\'k\']}"', 'f"{a,}"', 'f"{1 if a else 2}"', 'f"{{}}{a}{{"', 'f"{a:}"', 'f"{a!r:^10}"', 'f"{not a}"', 'f"{a}" f"{b}"', 'f"{ {1: 2} }"', 'f"{ {a} }"', 'f"{ {a for a in b} }"',
    'f"{a[\'k\']} {b["j"]}"', "f'''{a['k']} {b[\"j\"]}'''", 'f"{\'x\'}"', "f'{\"x\"}'", 'f"{a}\'"', "f'{a}\"'", "f'''{a}'\"'''", 'f"{a:{b:{c}}}"', 'f"{a:%Y-%m}"', 'f"{a:{{}}}"',
    'f"{*a,}"', 'f"{a if b else c}"', 'f"{a or b}"', 'f"{a, b}"', 'f"{a:x}{b:y}"', 'f"{a!r}{b!s:>3}"', 'f""', 'f"x"', 'f"{a}" "{b}"', '"{a}" f"{b}"', 'f"{a:\\n}"', 'f"{a:é}"',
    'f"{x:{y}}{z}"', 'f"{a.b.c}"', 'f"{a()}"', 'f"{a[1:2]}"', 'f"{-a}"', 'f"{a ** b}"', 'f"{await a}"', 'f"{a < b}"', 'f"{[a, b]}"', 'f"{(a, b)}"', 'f"{f"', "f'{\"\"\"x\"\"\"}'",
    "f'{a!r:{b!s}}'", 'f"{a:{b}}"', "f'''{a[\"it's\"]}'''", "f\"\"\"{'\"'}{\"'\"}\"\"\"", "f'''{f\"{a['k']}\"}'''", "f'''{\"\"\"a\nb\"\"\"}'''",
    "f'''{a!r:'\"}'''", "f'''{'\t'}'''", "f'{a[\"x\"]}\"'", "f\"{a['x']}'\"", "f'''{a[\"x\"]}'''", "f'''{b\"\\x00\"}'''", "f'''{a['k']}\"'''", "f'{1}{2}{3}'", "f'\\x00{a}\\x7f'", "f'\\N{BULLET}{a}'", "f'{a}\\\\'", "f'\\'{a}'", 'f"\\"{a}"', "f'{a}\\n' 'b'",
]


def corpus_expressions(ctx, limit):
    """source segments of expression nodes of the corpus files (cut with CPython's ast)"""
    files = lx.corpus_files(ctx, limit_quick=12, max_bytes_quick=30000)
    seen, out = set(), []
    for f in files:
        src = open(f, encoding="utf-8").read().lstrip("\ufeff")
        try:
            tree = pyast.parse(src)
        except (SyntaxError, ValueError, RecursionError):
            continue
        lines = src.splitlines(keepends=True)
        for node in pyast.walk(tree):
            if not isinstance(node, pyast.expr) or isinstance(node, (pyast.Name, pyast.Starred, pyast.Slice)):
                continue
            if node.end_lineno - node.lineno > 12:
                continue
            seg = pyast.get_source_segment(src, node)
            if seg and seg not in seen and len(seg) < 600:
                seen.add(seg)
                out.append(seg if node.lineno == node.end_lineno else "(" + seg + ")")
    ctx.rng.shuffle(out)
    return out[:limit]


def run(ctx):
    ctx.extra["exhaustive"] = True
    ctx.extra["rule"] = "every expression tree of each Unparse configuration (all 22 constructors within budget %d; operator/atom sub-languages deeper); constants, f-strings and corpus expressions round-tripped" % (3 if ctx.quick else 4)
    ctx.assumptions += ["R (the grammar's rendering) maps back to the tree: C01; redundant parentheses do not change the tree: C08",
                        "constants in generated trees are rendered by the mirror with their source token; constant rendering itself is exercised by the pools"]
    h = ctx.harness("default")
    field_texts = []
    for name in CONFIGS:
        cases = generate(ctx, name)
        limit = 12000 if ctx.quick else 400000
        if len(cases) > limit:
            cases = cases[::(len(cases) + limit - 1) // limit]
            ctx.extra["exhaustive"] = False
        reqs = []
        for c in cases:
            text = pygen.realize(c)[0]
            reqs.append({"op": "unparse", "src": text, "expect": " ".join(c["utoks"])})
        ctx.sample({"config": name, "text": reqs[len(reqs) // 2]["src"], "unparser_tokens": reqs[len(reqs) // 2]["expect"]})
        # the same expressions as f-string replacement fields (the renderer must keep a field whose text starts with a
        # brace apart from an escaped brace, whatever node kind its root is): every case whose rendering starts with "{"
        # and a stride of the others, bare and with conversion + nested spec
        for j, c in enumerate(cases):
            if c["utoks"] and (c["utoks"][0] == "{" or j % 40 == 0):
                e = reqs[j]["src"]
                if "\n" in e or "\\" in e or "'''" in e:
                    continue
                field_texts.append("f'''{ %s }'''" % e)
                if c["utoks"][0] == "{":
                    field_texts.append("f'''a{ %s !r:>{w}}b'''" % e)
        n = 0
        for c, req, resp in zip(cases, reqs, h.run(reqs)):
            if "tree1" not in resp:
                ctx.mismatch("generated.rejected@%s" % c["tree"]["body"]["k"], {"src": req["src"], "observed": str(resp)[:200]}, {"fam": "gen", "src": req["src"], "expect": req["expect"]})
                continue
            judge(ctx, req["src"], resp, "gen", req["expect"], c["tree"]["body"]["k"])
            n += 1
            ctx.distinct_cases.add(req["src"])
        ctx.extra.setdefault("texts", {})["gen." + name] = n
    rng = random.Random(ctx.seed)
    consts = float_texts(rng, 600 if ctx.quick else 20000) + INTS + COMPLEX + STRS + BYTES
    texts = list(OTHER)
    for i, c in enumerate(consts):
        ctxs = CONTEXTS if not ctx.quick else [CONTEXTS[0], CONTEXTS[1 + i % (len(CONTEXTS) - 1)]]
        for pat in ctxs:
            texts.append(pat.replace("%s", c))
    run_texts(ctx, texts, "constants")
    fs = FSTRINGS + [p.replace("%s", s) for s in FSTRINGS[:40] for p in ("(%s)", "%s.x", "%s + a", "f(%s)", "[%s, %s]")]
    n = run_texts(ctx, fs, "fstrings")
    field_texts = sorted(set(field_texts))
    nf = run_texts(ctx, field_texts, "generated_fields")
    if nf < 200:
        from vcheck import ToolError
        raise ToolError("vacuity: only %d generated expressions were accepted as f-string fields" % nf)
    exprs = corpus_expressions(ctx, 6000 if ctx.quick else 200000)
    m = run_texts(ctx, exprs, "corpus")
    from vcheck import ToolError
    if n < 100 or m < 1000:
        raise ToolError("vacuity: %d f-strings / %d corpus expressions were accepted" % (n, m))


def replay(ctx, rec):
    c = rec["case"]
    ctx.states = ctx.transitions = 1
    h = ctx.harness("default")
    req = {"op": "unparse", "src": c["src"]}
    if c.get("expect") is not None:
        req["expect"] = c["expect"]
    resp = h.run([req])[0]
    judge(ctx, c["src"], resp, c["fam"], c.get("expect"))
    ctx.sample({"fam": c["fam"]})

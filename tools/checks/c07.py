"""C07 -- f-strings decompose into the reference literal parts and replacement fields.

Spec: spec/literal/FString.tla.  Bodies are sequences of literal items (text, non-ASCII, doubled braces, escapes, a
backslash pair) and replacement fields (38 expressions holding every character the field scanner treats specially,
conversions x format specs, the '=' form with and without blanks) in 8 literal forms (f / rf spellings x quote styles),
optionally preceded / followed by another literal (implicit concatenation).  The specification computes Parts: merged
text pieces and fields (expression source, conversion, spec pieces).
G: TLC enumerates every body up to MaxItems; each case is validated against CPython's tree of the same source (a
   disagreement is a specification bug, counted and excluded); then the parser's JoinedStr must be exactly Parts, and
   every field expression's tree -- ranges included -- must be the tree of the expression parsed on its own, moved to the
   byte offset of the expression's text in the file (the literal sits in `x = (<literal>)` after a non-ASCII comment
   line, so offsets are neither 0 nor character counts).
"""
import ast as pyast
import json
import warnings

import pytree

SUBST = {"<E9>": "é", "<2022>": "•"}
HEAD = "# é\nx = ("
TAIL = ")\n"
CONV = {"": -1, "s": 115, "r": 114, "a": 97}


def subst(s):
    for k, v in SUBST.items():
        s = s.replace(k, v)
    return s


def build(case):
    """-> (source, [(byte offset, expr text)] in source order)"""
    src = HEAD
    exprs = []
    for seg in case["segs"]:
        t = subst(seg["s"])
        if seg["t"] == "expr":
            exprs.append((len(src.encode("utf-8")), t))
        elif seg["t"] == "spec":
            # fields inside a format spec (the pool's specs hold no nested braces): {expr}, {expr!c}
            i = 0
            while i < len(t):
                if t[i] == "{":
                    j = i + 1
                    while t[j] not in "!:}":
                        j += 1
                    exprs.append((len((src + t[:i + 1]).encode("utf-8")), t[i + 1:j]))
                    i = j
                i += 1
        src += t
    return src + TAIL, exprs


def spec_parts(parts):
    out = []
    for p in parts:
        if p["k"] == "text":
            out.append(("text", subst(p["v"])))
        else:
            out.append(("field", subst(p["expr"]), CONV[p["conv"]], spec_parts(p["spec"]["parts"]) if p["spec"]["has"] else None))
    return out


def expr_key(text):
    try:
        with warnings.catch_warnings():
            warnings.simplefilter("ignore")
            return pyast.dump(pyast.parse("(" + text + ")", mode="eval").body)
    except SyntaxError:
        return "?" + text


def ref_parts(node):
    """CPython JoinedStr / Constant -> parts with field expressions as dumps"""
    if isinstance(node, pyast.Constant) and isinstance(node.value, str):
        return [("text", node.value)] if node.value != "" else []
    if not isinstance(node, pyast.JoinedStr):
        return None
    out = []
    for v in node.values:
        if isinstance(v, pyast.Constant):
            out.append(("text", v.value))
        else:
            out.append(("field", pyast.dump(v.value), v.conversion, ref_parts(v.format_spec) if v.format_spec is not None else None))
    return out


def with_keys(parts):
    return [p if p[0] == "text" else ("field", expr_key(p[1]), p[2], with_keys(p[3]) if p[3] is not None else None) for p in parts]


RCONV = {None: -1, "None": -1, "Str": 115, "Repr": 114, "Ascii": 97}


def rust_parts(node):
    """-> (parts with field expressions as (tree with ranges)), or None"""
    t = node.get("_t")
    if t == "ExprConstant":
        v = node["value"]
        if isinstance(v, dict) and v.get("_k") == "Str":
            return [("text", v["_a"][0])] if v["_a"][0] != "" else []
        return None
    if t != "ExprJoinedStr":
        return None
    out = []
    for v in node["values"]:
        if v.get("_t") == "ExprConstant":
            out.append(("text", v["value"]["_a"][0]))
        elif v.get("_t") == "ExprFormattedValue":
            sp = v.get("format_spec")
            out.append(("field", v["value"], RCONV.get(v.get("conversion"), v.get("conversion")), rust_parts(sp) if sp is not None else None))
        else:
            return None
    return out


def shift(t, d):
    if isinstance(t, dict):
        return {k: ([v[0] + d, v[1] + d] if k == "range" and isinstance(v, list) else shift(v, d)) for k, v in t.items()}
    if isinstance(t, list):
        return [shift(x, d) for x in t]
    return t


def strip_ranges(t):
    if isinstance(t, dict):
        return {k: strip_ranges(v) for k, v in t.items() if k != "range"}
    if isinstance(t, list):
        return [strip_ranges(x) for x in t]
    return t


def compare(spec, got, exprs, alone, path="parts", src=b""):
    """spec: spec parts (expr text); got: rust parts (expr trees); exprs: iterator over (offset, text) in source order;
    alone: text -> standalone tree.  Returns (sig, detail) or None."""
    if got is None:
        return ("shape", "not a joined string")
    if len(spec) != len(got):
        return ("count@%s" % path, {"expected": [p[0] for p in spec], "observed": [p[0] for p in got]})
    for i, (s, g) in enumerate(zip(spec, got)):
        if s[0] != g[0]:
            return ("kind@%s" % path, {"index": i, "expected": s[0], "observed": g[0]})
        if s[0] == "text":
            if s[1] != g[1]:
                return ("text@%s" % path, {"index": i, "expected": s[1], "observed": g[1]})
            continue
        off, text = next(exprs)
        # the expression is read as if parenthesised, the parentheses standing where the braces (or '!' / ':' / '=')
        # are; so an unparenthesised tuple gets that extent -- in the reference (CPython 3.11) too
        base = alone.get(text)
        if base is None:
            return ("expr_alone_rejected", {"expr": text})
        want = shift(base, off - 1)
        if strip_ranges(want) != strip_ranges(g[1]):
            return ("expr.tree@%s" % path, {"expr": text, "expected": json.dumps(strip_ranges(want))[:200], "observed": json.dumps(strip_ranges(g[1]))[:200]})
        if want != g[1]:
            # known finding F-C07-1: the lexer hands the string parser the literal with CR LF already turned into LF, so
            # every position after a CR LF inside the literal lags by one byte per CR LF
            n = src[:off].count(b"\r\n")
            tag = "#crlf_shift" if n > 0 and shift(want, -n) == g[1] else ""
            return ("expr.range%s@%s" % (tag, path), {"expr": text, "offset": off, "expected_range": want.get("range"), "observed_range": g[1].get("range")})
        if s[2] != g[2]:
            return ("conversion@%s" % path, {"expr": text, "expected": s[2], "observed": g[2]})
        if (s[3] is None) != (g[3] is None):
            return ("spec_presence@%s" % path, {"expr": text, "expected": s[3], "observed": str(g[3])[:100]})
        if s[3] is not None:
            r = compare(s[3], g[3], exprs, alone, "spec", src)
            if r:
                return r
    return None


def spec_exprs(parts):
    for p in parts:
        if p[0] == "field":
            yield p[1]
            if p[3] is not None:
                yield from spec_exprs(p[3])


def run_cfg(ctx, cfg, label, limit):
    r = ctx.tlc("literal", "FString", cfg, coverage=False, timeout=3000)
    cases = r.replays
    from vcheck import ToolError
    if len(cases) < 1000:
        raise ToolError("vacuity: %s emitted %d cases" % (cfg, len(cases)))
    if len(cases) > limit:
        cases = cases[::(len(cases) + limit - 1) // limit]
        ctx.extra["exhaustive"] = False
    h = ctx.harness("default")
    todo, dis = [], 0
    expr_texts = set()
    for c in cases:
        src, exprs = build(c)
        sp = spec_parts(c["parts"])
        try:
            with warnings.catch_warnings():
                warnings.simplefilter("ignore")
                node = pyast.parse(src).body[0].value
            ref = ref_parts(node)
        except (SyntaxError, ValueError):
            ref = None
        if ref is None or ref != with_keys(sp):
            dis += 1
            if dis <= 8:
                ctx.note("spec_reference_disagreement[%s]: %r spec=%s cpython=%s" % (label, src, str(with_keys(sp))[:160], str(ref)[:160]))
            continue
        todo.append((c, src, exprs, sp))
        # expressions in source order = fields in Parts order, spec fields after their field's own expression
        for t in spec_exprs(sp):
            expr_texts.add(t)
    ctx.extra["spec_reference_disagreements"] = ctx.extra.get("spec_reference_disagreements", 0) + dis
    texts = sorted(expr_texts)
    alone = {}
    for t, resp in zip(texts, h.run([{"op": "parse", "src": "(" + t + ")", "mode": "Expression"} for t in texts])):
        if "ok" in resp:
            alone[t] = resp["ok"]["body"]
    resps = h.run([{"op": "parse", "src": src, "mode": "Module"} for (c, src, exprs, sp) in todo])
    for (c, src, exprs, sp), resp in zip(todo, resps):
        ctx.replayed += 1
        base = {"fam": "fstr", "case": c, "src": src}
        if "ok" not in resp:
            ctx.mismatch("fstr.rejected:%s" % resp.get("err", {}).get("msg", "crash").split(":")[-1].strip()[:40], {"src": src, "observed": str(resp)[:200]}, base)
            continue
        node = resp["ok"]["body"][0]["value"]
        # the order in which the specification lists expressions (a field, then the fields of its spec) is source order
        order = []
        for text in spec_exprs(sp):
            order.append(text)
        it = iter(exprs)
        r = compare(sp, rust_parts(node), it, alone, src=src.encode("utf-8"))
        if r:
            ctx.mismatch("fstr.%s" % r[0], {"src": src, "detail": r[1]}, base)
    ctx.distinct_cases.update(src for (c, src, e, sp) in todo)
    ctx.extra.setdefault("cases", {})[label] = len(todo)
    if todo:
        ctx.sample({"source": todo[len(todo) // 2][1], "parts": str(todo[len(todo) // 2][3])[:300]})


# ---------------------------------------------------------------------------------------------- the scanner mirror
def mirror_parts(parts):
    out = []
    for p in parts:
        if p["k"] == "text":
            out.append(("text", p["v"]))
        else:
            out.append(("field", p["expr"], CONV[p["conv"]], mirror_parts(p["spec"]) if p["has"] else None))
    return out


def cpy_ok(text):
    try:
        with warnings.catch_warnings():
            warnings.simplefilter("ignore")
            pyast.parse(text, mode="eval")
        return True
    except (SyntaxError, ValueError):
        return False


def plain_compare(spec, got, alone):
    """mirror parts (expression texts) against the parser's parts (expression trees), ranges erased"""
    if got is None or len(spec) != len(got):
        return "count"
    for s, g in zip(spec, got):
        if s[0] != g[0]:
            return "kind"
        if s[0] == "text":
            if s[1] != g[1]:
                return "text"
            continue
        base = alone.get(s[1])
        if base is None or strip_ranges(base) != strip_ranges(g[1]):
            return "expr"
        if s[2] != g[2]:
            return "conversion"
        if (s[3] is None) != (g[3] is None):
            return "spec_presence"
        if s[3] is not None:
            r = plain_compare(s[3], g[3], alone)
            if r:
                return "spec." + r
    return None


def run_scan(ctx):
    """FStringScan.tla: the scanner's mirror on every body over its alphabet"""
    r = ctx.tlc("literal", "FStringScan", "FStringScan_%s.cfg" % ("quick" if ctx.quick else "thorough"), coverage=False, timeout=3000)
    cases = r.replays
    if not ctx.quick:
        # longer bodies over a smaller alphabet (length 6 over 11 characters)
        seen = {c["body"] for c in cases}
        r2 = ctx.tlc("literal", "FStringScan", "FStringScan_deep.cfg", coverage=False, timeout=5400, heap="10g")
        cases = cases + [c for c in r2.replays if c["body"] not in seen]
    from vcheck import ToolError
    if len(cases) < 10000:
        raise ToolError("vacuity: FStringScan emitted %d bodies" % len(cases))
    h = ctx.harness("default")
    exprs = set()
    for c in cases:
        exprs.update(c["log"])
    exprs = sorted(exprs)
    alone = {}
    for t, resp in zip(exprs, h.run([{"op": "parse", "src": "(" + t + ")", "mode": "Expression"} for t in exprs])):
        if "ok" in resp:
            alone[t] = resp["ok"]["body"]
    reqs = [{"op": "parse", "src": 'f"%s"' % c["body"], "mode": "Expression"} for c in cases]
    kinds = ctx.extra.setdefault("scan_outcomes", {})
    for c, req, resp in zip(cases, reqs, h.run(reqs)):
        ctx.replayed += 1
        src = req["src"]
        base = {"fam": "scan", "src": src, "err": c["err"], "parts": c["parts"], "log": c["log"]}
        parts = mirror_parts(c["parts"])
        # the implementation parses a field's expression the moment the field is closed (log = closing order): a
        # malformed expression in a closed field is reported before any later scanning error
        want = "InvalidExpression" if any(t not in alone for t in c["log"]) else (c["err"] or "ok")
        kinds[want] = kinds.get(want, 0) + 1
        if "ok" in resp:
            got = "ok"
        elif "err" in resp:
            k = resp["err"]["kind"]
            try:
                f = k["_a"][0]["_a"][0]
                got = f if isinstance(f, str) else f.get("_k")
            except (KeyError, IndexError, TypeError, AttributeError):
                got = "other:" + json.dumps(k)[:60]
        else:
            got = "crash"
        if got != want:
            ctx.mismatch("scan.outcome:%s->%s" % (want, got), {"src": src, "mirror": want, "observed": str(resp)[:200]}, base)
        elif want == "ok":
            d = plain_compare(parts, rust_parts(resp["ok"]["body"]), alone)
            if d:
                ctx.mismatch("scan.parts:%s" % d, {"src": src, "mirror": str(parts)[:200]}, base)
        # the reference: accepts exactly when the scan succeeds and every field expression is an expression
        ref_ok = cpy_ok(src)
        if ref_ok != (want == "ok"):
            first = next(iter(spec_exprs(parts)), "") if want == "ok" else ""
            ctx.mismatch("scan.reference:%s_but_reference_%s" % (want, "accepts" if ref_ok else "rejects"), {"src": src, "mirror": want}, base)
    ctx.extra.setdefault("cases", {})["scanner_mirror"] = len(cases)
    ctx.distinct_cases.update(r["src"] for r in reqs)


def run(ctx):
    ctx.extra["exhaustive"] = True
    ctx.extra["rule"] = "every f-string body of FString.tla's configurations (all items <= 2; core items <= 3/4) x literal forms x concatenation neighbours"
    ctx.assumptions += ["CPython's tree of the same source validates the specification's Parts on every case (disagreements counted, must be 0)",
                        "a field expression's expected tree is the parser's own tree of that expression parsed alone (its correctness is C01/C02), moved to the expression's byte offset",
                        "ranges of the literal pieces themselves are not compared (the property speaks about expressions inside fields)"]
    big = 10 ** 9
    run_cfg(ctx, "FString_quick.cfg", "all_items", 60000 if ctx.quick else big)
    run_cfg(ctx, "FString_deepq.cfg" if ctx.quick else "FString_deep.cfg", "core_items_deep", 40000 if ctx.quick else big)
    run_scan(ctx)


def replay_scan(ctx, c, h):
    parts = mirror_parts(c["parts"])
    texts = sorted(set(c.get("log", [])) | set(spec_exprs(parts)))
    alone = {}
    for t, resp in zip(texts, h.run([{"op": "parse", "src": "(" + t + ")", "mode": "Expression"} for t in texts])):
        if "ok" in resp:
            alone[t] = resp["ok"]["body"]
    resp = h.run([{"op": "parse", "src": c["src"], "mode": "Expression"}])[0]
    ctx.replayed += 1
    want = "InvalidExpression" if any(t not in alone for t in c.get("log", [])) else (c["err"] or "ok")
    got = "ok" if "ok" in resp else "error"
    if (want == "ok") != (got == "ok"):
        ctx.mismatch("scan.outcome:%s->%s" % (want, got), {"observed": str(resp)[:200]}, c)
    elif want == "ok":
        d = plain_compare(parts, rust_parts(resp["ok"]["body"]), alone)
        if d:
            ctx.mismatch("scan.parts:%s" % d, {}, c)
    if cpy_ok(c["src"]) != (want == "ok"):
        ctx.mismatch("scan.reference:%s_but_reference_%s" % (want, "accepts" if cpy_ok(c["src"]) else "rejects"), {}, c)
    ctx.sample({"fam": "scan"})


def replay(ctx, rec):
    c = rec["case"]
    ctx.states = ctx.transitions = 1
    h = ctx.harness("default")
    if c["fam"] == "scan":
        return replay_scan(ctx, c, h)
    case = c["case"]
    src, exprs = build(case)
    sp = spec_parts(case["parts"])
    texts = sorted(set(spec_exprs(sp)))
    alone = {}
    for t, resp in zip(texts, h.run([{"op": "parse", "src": "(" + t + ")", "mode": "Expression"} for t in texts])):
        if "ok" in resp:
            alone[t] = resp["ok"]["body"]
    resp = h.run([{"op": "parse", "src": src, "mode": "Module"}])[0]
    ctx.replayed += 1
    if "ok" not in resp:
        ctx.mismatch("fstr.rejected:replay", {"observed": str(resp)[:200]}, c)
    else:
        r = compare(sp, rust_parts(resp["ok"]["body"][0]["value"]), iter(exprs), alone, src=src.encode("utf-8"))
        if r:
            ctx.mismatch("fstr.%s" % r[0], {"detail": r[1]}, c)
    ctx.sample({"fam": "fstr"})

"""C05 -- the token stream tiles the source.

M: LexerMC.tla -- the lexer machine (Lexer.tla) over every text <= MaxLen of five class alphabets (layout,
   operators, numbers, strings/prefixes, Unicode) in both lexer configurations: ranges in bounds and on character
   boundaries, ordered, gaps only whitespace/comments/joins, spelling per the independent operator table and
   lexeme shapes, longest match, INDENT/DEDENT balance and placement, progress.
G: every finished run (token list or error) replayed on the real Lexer (default and full-lexer builds).
T: corpus files and seeded random layouts: hook events of every Lexer::next call validated by TLC against the
   machine (LexerTrace.tla), including the lexer's internal state after each call.
"""
from checks import lexcommon as lx

ALPHABETS = ["layout", "ops", "nums", "strs", "uni", "unicomment"]


def run(ctx):
    tier = "quick" if ctx.quick else "thorough"
    ctx.extra["exhaustive"] = True
    ctx.extra["rule"] = "every class string <= MaxLen over each of five alphabets (plus the layout alphabet under full-lexer), 2 concretisations; one trace per corpus file"
    ctx.assumptions += ["characters of one class are indistinguishable for the lexer (the class partition is part of the specification)",
                        "the XID_Start/XID_Continue/emoji tables are parameters: sampled through class members"]
    for a in ALPHABETS:
        # TLC's coverage bookkeeping exhausts the heap on these deeply recursive definitions; vacuity is guarded
        # by the token kinds that occur in the generated runs instead
        r = ctx.tlc("lexer", "LexerMC", "LexerMC_%s_%s.cfg" % (a, tier), timeout=3000, coverage=False)
        kinds = {t[0] for c in r.replays for t in c["toks"]} | {c["err"][0] for c in r.replays if c["err"]}
        ctx.extra.setdefault("kinds_seen", {})[a] = sorted(kinds)
        if len(r.replays) < 1000 or len(kinds) < 5:
            from vcheck import ToolError
            raise ToolError("vacuity: %s generated %d runs with kinds %s" % (a, len(r.replays), kinds))
        ctx.sample(r.replays[len(r.replays) // 2])
        lx.replay_lex(ctx, r.replays, "default", 2)
    r = ctx.tlc("lexer", "LexerMC", "LexerMC_layoutfull_%s.cfg" % tier, timeout=3000, coverage=False)
    lx.replay_lex(ctx, r.replays, "full", 1)
    trace(ctx)


def trace(ctx):
    files = lx.corpus_files(ctx)
    sources = [(open(f, encoding="utf-8").read(), 0) for f in files]
    # seeded random layouts of small programs
    sources += [(s, ctx.rng.choice([0, 0, 7])) for s in random_layouts(ctx, 30 if ctx.quick else 300)]
    for config, full in (("default", False), ("full", True)):
        ev, owners = lx.record_lex_trace(ctx, sources, config, full)
        lx.validate_lex_trace(ctx, ev, owners, sources, full, config)


def random_layouts(ctx, n):
    rng = ctx.rng
    out = []
    lines = ["x = 1", "if a:", "def f(b, c=2):", "return (a,\n   b)", "y = [1,\n\t2]", "# comment", "", "pass", "z = 'str' \\\n  'cont'",
             "while q: w()", "é = 'ü'", "class K:", "\"\"\"doc\nstring\"\"\"", "t = {1: 2,\n\n 3: 4}", "u = 0x1F + 1_0.5e-3j", "v = a if b else c # c",
             "# c\u00f6mment \u2713 \U0001f600", "w = 1  # \u00e9\u4e2d", "s = '\u00e9'  # \u2192 x", "r = [  # \u4e2d\u6587\n 1]"]
    for _ in range(n):
        depth = 0
        src = ""
        eol = rng.choice(["\n", "\r\n", "\r"])
        unit = rng.choice(["    ", "  ", "\t"])
        for _ in range(rng.randint(1, 12)):
            ln = rng.choice(lines)
            src += unit * depth + ln.replace("\n", eol) + (rng.choice(["", " ", "  # c", "\x0c"]) if "#" not in ln else "") + eol
            if ln.endswith(":"):
                depth += 1
            elif depth and rng.random() < 0.3:
                depth -= rng.randint(1, depth)
        if rng.random() < 0.3:
            src = src.rstrip("\r\n")
        if rng.random() < 0.2:
            src = "﻿" + src
        out.append(src)
    return out


def replay(ctx, rec):
    c = rec["case"]
    ctx.states = ctx.transitions = 1
    if c["fam"] == "lex":
        h = ctx.harness(c.get("config", "default"))
        resp = h.run([c["request"]])[0]
        ctx.replayed += 1
        for sig, detail in lx.compare_lex(c["case"], c["request"]["src"], resp):
            ctx.mismatch(sig, detail, c)
    else:
        full = c.get("full", False)
        sources = [(c["src"], c.get("start", 0))]
        ev, owners = lx.record_lex_trace(ctx, sources, "full" if full else "default", full)
        lx.validate_lex_trace(ctx, ev, owners, sources, full, "replay")
    ctx.sample({k: v for k, v in c.items() if k != "src"})

"""C15 -- position primitives: newline iterator, line index, range algebra.

M: TLC checks the machines of spec/locate/{NewlineIter,LineIndex,Ranges}.tla against the declarative
   definitions of Lines.tla / the set reading of ranges (invariants), exhaustively within the bounds.
G: every terminal state prints the expected results; they are replayed on the real types.
T: random long texts/schedules are run on the real iterator and the recorded events are validated
   by TLC against NewlineIterTrace.tla.
"""
import json
import os
from chars import conc, byte_offsets

MAXV = 15
M32 = 2 ** 32 - 1


def cv(v):
    return v if v < 8 else M32 - (MAXV - v)


# ------------------------------------------------------------------ nl_iter
def nl_request(case, rng=None):
    text = conc(case["text"], rng)
    sched = "".join(c["side"] for c in case["calls"])
    if case["mode"] == "trailing":
        return {"op": "nl_iter", "text": text, "offset": case["base"], "trailing": True}
    return {"op": "nl_iter", "text": text, "sched": sched + "FB", "offset": case["base"]}


def nl_compare(case, req, resp):
    out = []
    if "items" not in resp:
        return [("nl_iter.crash", {"resp": resp})]
    items = resp["items"]
    text = req["text"].encode("utf-8")
    base = case["base"]
    exp = case["calls"]
    n = len(exp)
    if case["mode"] == "trailing":
        if len(items) != n:
            return [("nl_trailing.count", {"expected": n, "observed": len(items)})]
    else:
        if len(items) != n + 2:
            return [("nl_iter.count", {"expected": n + 2, "observed": len(items)})]
        for extra in items[n:]:
            if not extra.get("none"):
                out.append(("nl_iter.not_fused", {"observed": extra}))
    for k in range(n):
        e, o = exp[k], items[k]
        if o.get("none"):
            out.append(("nl_iter.early_none", {"call": k, "expected": e}))
            continue
        s, fe, nl = e["s"], e["e"], e["nl"]
        full = text[s - base:fe - base].decode("utf-8")
        body = text[s - base:fe - base - nl].decode("utf-8")
        want = {"start": s, "full_end": fe, "end": fe - nl, "range": [s, fe - nl], "full_range": [s, fe],
                "text": body, "full": full}
        for key, val in want.items():
            if o.get(key) != val:
                out.append(("nl_iter.%s.%s" % (e["side"], key), {"call": k, "expected": val, "observed": o.get(key)}))
    return out


# ------------------------------------------------------------------ line_index
def li_request(case, rng=None):
    return {"op": "line_index", "text": conc(case["text"], rng)}


def li_compare(case, req, resp):
    out = []
    if "lines" not in resp:
        return [("line_index.crash", {"resp": resp})]
    text = req["text"].encode("utf-8")
    lines = case["lines"]
    if resp["line_count"] != len(lines):
        out.append(("line_index.line_count", {"expected": len(lines), "observed": resp["line_count"]}))
    for i, (s, e) in enumerate(lines):
        if i >= len(resp["lines"]):
            break
        o = resp["lines"][i]
        want = {"start": s, "end": e, "range": [s, e], "text": text[s:e].decode("utf-8")}
        for key, val in want.items():
            if o.get(key) != val:
                out.append(("line_index.line_%s" % key, {"line": i + 1, "expected": val, "observed": o.get(key)}))
    got = {x["o"]: x for x in resp["offsets"]}
    for (off, row, col) in case["locs"]:
        o = got.get(off)
        if o is None:
            out.append(("line_index.boundary_missing", {"offset": off}))
            continue
        if o["line"] != row:
            out.append(("line_index.line_index", {"offset": off, "expected": row, "observed": o["line"]}))
        if o["loc"] != [row, col]:
            out.append(("line_index.source_location", {"offset": off, "expected": [row, col], "observed": o["loc"]}))
        if o["up_to"] != off or o["after"] != len(text) - off:
            out.append(("line_index.up_to_after", {"offset": off, "observed": o}))
    return out


# ------------------------------------------------------------------ range_ops
def rg_request(case, rng=None):
    return {"op": "range_ops", "a": [cv(v) for v in case["a"]], "b": [cv(v) for v in case["b"]], "x": cv(case["x"])}


def rg_compare(case, req, resp):
    out = []
    if "len" not in resp:
        return [("range.crash", {"resp": resp})]

    def r(v):
        return [cv(t) for t in v]

    def opt(v):
        return None if v == [] else r(v)
    a = r(case["a"])
    want = {
        "new_a": a, "len": a[1] - a[0], "is_empty": case["is_empty"], "contains": case["contains"],
        "contains_inclusive": case["contains_inclusive"], "contains_range": case["contains_range"],
        "intersect": opt(case["intersect"]), "cover": r(case["cover"]), "cover_offset": r(case["cover_offset"]),
        "checked_add": opt(case["checked_add"]), "checked_sub": opt(case["checked_sub"]),
        "ordering": case["ordering"],
        "size_checked_add": None if case["size_add"] == [] else cv(case["size_add"][0]),
        "size_checked_sub": None if case["size_sub"] == [] else cv(case["size_sub"][0]),
        "empty": [cv(case["x"])] * 2, "up_to": [0, cv(case["x"])],
    }
    # abstract length equals concrete length only when both endpoints are in the same half
    if (case["a"][0] < 8) != (case["a"][1] < 8):
        want["len"] = a[1] - a[0]
    # operators: defined exactly when the checked variant is
    want["add"] = want["checked_add"] if want["checked_add"] is not None else "panic"
    want["sub"] = want["checked_sub"] if want["checked_sub"] is not None else "panic"
    for key, val in want.items():
        if resp.get(key) != val:
            out.append(("range.%s" % key, {"expected": val, "observed": resp.get(key)}))
    return out


FAMILIES = {"nl_iter": (nl_request, nl_compare), "line_index": (li_request, li_compare),
            "range_ops": (rg_request, rg_compare)}


def replay_cases(ctx, cases, variants=1):
    """Replay spec behaviours on the real code; variants>1 adds seeded random class members."""
    h = ctx.harness("default")
    reqs, meta = [], []
    for case in cases:
        mk, _ = FAMILIES[case["fam"]]
        for v in range(variants):
            req = mk(case, ctx.rng if v > 0 else None)
            reqs.append(req)
            meta.append(case)
    resps = h.run(reqs)
    for case, req, resp in zip(meta, reqs, resps):
        _, cmp = FAMILIES[case["fam"]]
        ctx.replayed += 1
        ctx.distinct_cases.add(json.dumps(req, sort_keys=True))
        if "tool_error" in resp:
            raise RuntimeError("harness tool error: %s" % resp)
        for sig, detail in cmp(case, req, resp):
            ctx.mismatch(sig, detail, {"fam": case["fam"], "case": case, "request": req})
    return len(reqs)


def run(ctx):
    tier = "quick" if ctx.quick else "thorough"
    ctx.extra["exhaustive"] = True
    ctx.extra["rule"] = ("TLC enumerates every text up to MaxLen over the class alphabet, every interleaving of next/next_back, "
                         "every boundary offset, and every (range a, range b, offset x) over low/high endpoints; each terminal "
                         "state is one replayed case; distinct = distinct concrete harness requests")
    ctx.assumptions += ["class representatives stand for their whole class (the scanners only distinguish LF, CR, BOM, ASCII and multi-byte)",
                        "offsets near 2^32 are modelled by the low/high abstraction whose commutation lemma is an ASSUME checked by TLC"]
    r1 = ctx.tlc("locate", "NewlineIter", "NewlineIter_%s.cfg" % tier, timeout=1500)
    ctx.require_coverage(r1, ["NextF", "NextB", "TrailF"])
    ctx.sample(r1.replays[len(r1.replays) // 2])
    replay_cases(ctx, r1.replays, variants=2)
    r2 = ctx.tlc("locate", "LineIndex", "LineIndex_%s.cfg" % tier, timeout=1500)
    ctx.require_coverage(r2, ["Scan"])
    ctx.sample(r2.replays[len(r2.replays) // 2])
    replay_cases(ctx, r2.replays, variants=2)
    slices(ctx, r2.replays)
    r3 = ctx.tlc("locate", "Ranges", "Ranges.cfg", timeout=600)
    ctx.sample(r3.replays[len(r3.replays) // 3])
    replay_cases(ctx, r3.replays)
    trace_validation(ctx)
    range_laws_unbounded(ctx)


def range_laws_unbounded(ctx):
    """RangesProof.tla: the range-algebra laws for all natural-number offsets, proved by TLAPS (the bounded
    Ranges.tla run above binds the operations to the code; this lifts the laws beyond the abstract offset set)"""
    import re
    import shutil
    import subprocess
    import tempfile
    from vcheck import ToolError, ROOT
    if not shutil.which("tlapm"):
        ctx.note("tlapm not on PATH: the unbounded range laws were not re-proved in this run")
        return
    d = tempfile.mkdtemp(prefix="tlaps-", dir=os.environ["VERIF_WORK"])
    try:
        shutil.copy(os.path.join(ROOT, "spec", "locate", "RangesProof.tla"), d)
        p = subprocess.run(["timeout", "900", "tlapm", "--threads", "4", "RangesProof.tla"], cwd=d, capture_output=True, text=True)
        out = p.stdout + p.stderr
        m = re.search(r"All (\d+) obligations? proved", out)
        if not m:
            raise ToolError("TLAPS did not prove RangesProof.tla:\n" + out[-1500:])
        ctx.extra["tlaps_obligations"] = int(m.group(1))
        ctx.extra["tlaps_discharged"] = int(m.group(1))
        ctx.extra["tlaps_module"] = "spec/locate/RangesProof.tla (8 theorems: intersect/cover commute, cover = least upper bound, intersect = greatest lower bound = set intersection, contains_range = subset, ordering, shifting)"
    finally:
        shutil.rmtree(d, ignore_errors=True)


def slices(ctx, cases):
    """str[TextRange] on every pair of boundary offsets of every text: expected = the characters between."""
    h = ctx.harness("default")
    reqs, exp = [], []
    for case in cases:
        cls = case["text"]
        if len(cls) > 5:
            continue
        offs = byte_offsets(cls)
        text = conc(cls)
        for p in range(len(offs)):
            for q in range(p, len(offs)):
                reqs.append({"op": "slice", "text": text, "r": [offs[p], offs[q]]})
                exp.append(conc(cls[p:q]))
    resps = h.run(reqs)
    for req, e, resp in zip(reqs, exp, resps):
        ctx.replayed += 1
        if resp.get("s") != e:
            ctx.mismatch("range.slice", {"expected": e, "observed": resp}, {"fam": "slice", "request": req, "expected": e})


def trace_validation(ctx):
    """T: random long texts and schedules on the real iterator, validated by TLC."""
    import tempfile
    h = ctx.harness("default")
    n = 40 if ctx.quick else 400
    alphabet = ["a", "a", "e2", "e3", "LF", "CR", "CR", "LF"]
    events = []
    reqs, metas = [], []
    for k in range(n):
        ln = ctx.rng.randint(0, 40)
        cls = [ctx.rng.choice(alphabet) for _ in range(ln)]
        sched = "".join(ctx.rng.choice("FB") for _ in range(ln + 3))
        base = ctx.rng.choice([0, 3, 1000])
        reqs.append({"op": "nl_iter", "text": conc(cls), "sched": sched, "offset": base})
        metas.append((cls, base))
    resps = h.run(reqs)
    for (cls, base), req, resp in zip(metas, reqs, resps):
        events.append({"ev": "init", "text": cls, "base": base})
        for it in resp.get("items", []):
            if it.get("none"):
                events.append({"ev": "none", "side": it["side"]})
            else:
                events.append({"ev": "line", "side": it["side"], "s": it["start"], "e": it["full_end"],
                               "nl": it["full_end"] - it["end"]})
    path = os.path.join(os.environ["VERIF_WORK"], "c15-trace-%d.ndjson" % os.getpid())
    with open(path, "w") as f:
        for e in events:
            f.write(json.dumps(e) + "\n")
    r = ctx.tlc("locate", "NewlineIterTrace", "NewlineIterTrace.cfg", expect_ok=False, workers=1, dfs=True,
                env={"TRACE": path}, timeout=600, coverage=False)
    if r.ok:
        ctx.traces_validated += n
        ctx.sample({"trace_prefix": events[:6]})
    elif r.violated or (r.error and "TraceAccepted" in (r.error + r.tail)):
        # the recorded behaviour is not a behaviour of the specification
        m = None
        import re
        mm = re.search(r"UNMATCHED at (\d+)", r.tail)
        at = int(mm.group(1)) if mm else -1
        ctx.mismatch("nl_iter.trace_rejected", {"first_unmatched_event": events[at - 1] if 0 < at <= len(events) else None,
                                                "index": at, "tlc": r.tail[-800:]},
                     {"fam": "nl_trace", "events": events[max(0, at - 30):at + 1] if at > 0 else events[:50]})
    else:
        from vcheck import ToolError
        raise ToolError("trace validation failed to run: %s\n%s" % (r.error, r.tail[-2000:]))
    try:
        os.remove(path)
    except OSError:
        pass


def replay(ctx, rec):
    c = rec["case"]
    h = ctx.harness("default")
    if c["fam"] in FAMILIES:
        req = c["request"]
        resp = h.run([req])[0]
        ctx.replayed += 1
        for sig, detail in FAMILIES[c["fam"]][1](c["case"], req, resp):
            ctx.mismatch(sig, detail, c)
    elif c["fam"] == "slice":
        resp = h.run([c["request"]])[0]
        ctx.replayed += 1
        if resp.get("s") != c["expected"]:
            ctx.mismatch("range.slice", {"expected": c["expected"], "observed": resp}, c)
    ctx.states = ctx.transitions = 1
    ctx.sample(c)

"""Float formatting cells shared by C17/C18/C19 (filled in with FloatText.tla)."""


def run_cformat_floats(ctx):
    pass


def replay_cell(ctx, c):
    pass


def run_format_floats(ctx):
    pass

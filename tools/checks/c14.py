"""C14 -- Arguments <-> PythonArguments conversions.

M: Args.tla builds every signature (<= MaxPer parameters per kind, every default pattern the grammar allows,
   kw-only defaults in any pattern), converts and converts back with the mirror of generic.rs and checks the
   mirror against the declarative conversions (ToPythonOK, RoundTripOK, KeepsAll, KwOrderOK).
G: every signature is rendered as `def`, `async def` or `lambda`, parsed by the real parser, converted with
   the real to_python_arguments / into_python_arguments / From / into_arguments and compared with the
   specification's expected lists (names, annotations and default identities).
"""
import json


def render(sig, form, ann):
    """Source text of a signature. Default ids become integer constants, annotations are A_<name>."""
    def p(x):
        s = x["n"]
        if ann and form != "lambda":
            s += ": A_" + x["n"]
        if x["d"]:
            s += (" = " if ann and form != "lambda" else "=") + str(x["d"])
        return s
    parts = [p(x) for x in sig["po"]]
    if sig["po"]:
        parts.append("/")
    parts += [p(x) for x in sig["ar"]]
    if sig["va"]:
        parts.append("*" + sig["va"] + (": A_v" if ann and form != "lambda" else ""))
    elif sig["ko"]:
        parts.append("*")
    parts += [p(x) for x in sig["ko"]]
    if sig["kw"]:
        parts.append("**" + sig["kw"] + (": A_w" if ann and form != "lambda" else ""))
    params = ", ".join(parts)
    if form == "def":
        return "def f(%s): pass\n" % params
    if form == "async":
        return "async def f(%s): pass\n" % params
    return "lambda %s: 0\n" % params


def name_of(arg):
    return arg["arg"]["_a"][0]


def ann_of(arg):
    a = arg.get("annotation")
    return a["id"]["_a"][0] if a else None


def dflt_of(e):
    if e is None:
        return 0
    return e["value"]["_a"][0]


def proj_py(t):
    return {"po": [name_of(a) for a in t["posonlyargs"]], "ar": [name_of(a) for a in t["args"]],
            "defaults": [dflt_of(e) for e in t["defaults"]], "va": name_of(t["vararg"]) if t["vararg"] else "",
            "ko": [name_of(a) for a in t["kwonlyargs"]], "kwd": [dflt_of(e) for e in t["kw_defaults"]],
            "kw": name_of(t["kwarg"]) if t["kwarg"] else "",
            "anns": sorted((name_of(a), ann_of(a)) for a in t["posonlyargs"] + t["args"] + t["kwonlyargs"]
                           + ([t["vararg"]] if t["vararg"] else []) + ([t["kwarg"]] if t["kwarg"] else []))}


def proj_args(t):
    def lst(v):
        return [{"n": name_of(a["def"]), "d": dflt_of(a["default"])} for a in v]
    alla = [a["def"] for a in t["posonlyargs"] + t["args"] + t["kwonlyargs"]] + ([t["vararg"]] if t["vararg"] else []) + ([t["kwarg"]] if t["kwarg"] else [])
    return {"po": lst(t["posonlyargs"]), "ar": lst(t["args"]), "va": name_of(t["vararg"]) if t["vararg"] else "",
            "ko": lst(t["kwonlyargs"]), "kw": name_of(t["kwarg"]) if t["kwarg"] else "",
            "anns": sorted((name_of(a), ann_of(a)) for a in alla)}


def compare(case, req, resp):
    out = []
    if "orig" not in resp:
        return [("args.crash", {"resp": resp})]
    sig = case["sig"]
    ann = req["_ann"]
    anns = sorted((x["n"], ("A_" + x["n"]) if ann else None) for x in sig["po"] + sig["ar"] + sig["ko"])
    if sig["va"]:
        anns.append((sig["va"], "A_v" if ann else None))
    if sig["kw"]:
        anns.append((sig["kw"], "A_w" if ann else None))
    anns = sorted(anns)
    orig = proj_args(resp["orig"])
    want_orig = dict(sig, anns=anns)
    if orig != want_orig:
        # the parser did not build the signature the text denotes -- reported under C14 as parse mismatch
        out.append(("args.parse", {"expected": want_orig, "observed": orig}))
        return out
    want_py = dict(case["py"], anns=anns)
    for key in ("to_py", "into_py", "from_py"):
        got = proj_py(resp[key])
        if got != want_py:
            diff = sorted(k for k in want_py if got.get(k) != want_py[k])
            out.append(("args.%s.%s" % (key, "+".join(diff)), {"expected": want_py, "observed": got}))
    want_back = dict(case["back"], anns=anns)
    got = proj_args(resp["back"])
    if got != want_back:
        diff = sorted(k for k in want_back if got.get(k) != want_back[k])
        out.append(("args.back.%s" % "+".join(diff), {"expected": want_back, "observed": got}))
    return out


def requests_for(case):
    reqs = []
    for form in ("def", "async", "lambda"):
        for ann in (False, True):
            if form != "def" and ann:
                continue
            reqs.append({"op": "args_conv", "src": render(case["sig"], form, ann), "_ann": ann})
    return reqs


def run(ctx):
    tier = "quick" if ctx.quick else "thorough"
    ctx.extra["exhaustive"] = True
    ctx.extra["rule"] = "every signature with <= MaxPer parameters per kind and every allowed default pattern (TLC terminal states), rendered as def / annotated def / async def / lambda"
    ctx.assumptions += ["signatures are obtained by parsing the rendered text (default feature set; from_arg is todo!() under all-nodes-with-ranges)"]
    r = ctx.tlc("ast", "Args", "Args_%s.cfg" % tier, timeout=1800)
    ctx.require_coverage(r, ["AddPosOnly", "AddArg", "SetVararg", "AddKwOnly", "SetKwarg", "Convert", "Back"])
    # design check of the pinned code: TLC must find the defect in the pinned mirror (documents the finding)
    rp = ctx.tlc("ast", "Args", "Args_pinned.cfg", expect_ok=False, timeout=600)
    ctx.extra["pinned_mirror_violates"] = rp.violated
    h = ctx.harness("default")
    reqs, meta = [], []
    for case in r.replays:
        for q in requests_for(case):
            reqs.append(q)
            meta.append(case)
    ctx.sample({"case": r.replays[len(r.replays) // 2], "text": reqs[len(reqs) // 2]["src"]})
    resps = h.run(reqs)
    for case, req, resp in zip(meta, reqs, resps):
        ctx.replayed += 1
        ctx.distinct_cases.add(req["src"])
        for sig, detail in compare(case, req, resp):
            ctx.mismatch(sig, dict(detail, src=req["src"]), {"fam": "args", "case": case, "request": req})


def replay(ctx, rec):
    c = rec["case"]
    h = ctx.harness("default")
    resp = h.run([c["request"]])[0]
    ctx.replayed += 1
    ctx.states = ctx.transitions = 1
    for sig, detail in compare(c["case"], c["request"], resp):
        ctx.mismatch(sig, detail, c)
    ctx.sample(c)

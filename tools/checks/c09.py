"""C09 -- start offsets only translate positions; all entry points agree.

Spec: spec/api/Entry.tla.  State = (class of the text: what the one parser answers in module and expression mode,
entry point called, answer descriptor).  M: TLC checks, for every class x every entry point (28 + 27 per-kind
parsers, 8 typed parsers, parse / parse_starts_at / parse_tokens x 3 modes, deprecated helpers, lex), that the
call-chain mirror of the implementation (Funnel) returns the declared part of the one tree (ViewsAgree) and that a
start offset never appears in an answer relative to the text start (Translation); the "pinned" variant states the one
known deviation exactly (PinnedExact).
G: TLC emits one record per class with the declared answer of every entry point; every input text is run through
   every entry point at offset 0 and at an offset k (harness op `entrypoints`, which moves the @k answers back by
   k), the text is classified from parse(Module) / parse(Expression) at offset 0, and each entry point's answer must
   be the record's descriptor resolved against those two answers.  A class that the specification does not contain
   (e.g. an accepted expression whose module form is not one expression statement) is itself a violation.
Inputs: PyGen.tla programs of every sub-language (valid), their single-token mutations (invalid), blank inputs,
   f-string texts (nested expressions re-enter the parser at computed offsets), concatenations (two or more
   statements), corpus snippets; offsets 1, 7, 400 and the largest one that keeps k + len < 2^32.
"""
import json
import os
import pytree
from checks import pygen, syntaxrun as sr, c03

M32 = 2 ** 32 - 1
SUBLANGS = ["exprcore", "atoms", "atoms2", "calls", "simple", "compound", "defs", "pats", "softkw"]
OFFSETS = [1, 7, 400, "max"]

FSTRINGS = [
    'f"{a}"', 'f"{a!r:>{w}}"', 'f"{a}{b}"', "f'{a + 1}'", 'f"{f\'{a}\'}"', 'f"{a:{b}.{c}}"', 'f"x{a}y" "z"', '"z" f"{a}"',
    'f"{a b}"', 'f"{a +}"', 'f"{}"', 'f"{a!x}"', 'f"{a"', 'f"{a:{b}"', 'f"}"', 'f"{(a}"', 'f"{a=}"', 'f"{ a = }"', 'f"{a=!r}"',
    'f"{lambda x: 1}"', 'f"{*a}"', 'f"{a:=1}"', 'f"{(a:=1)}"', 'f"{a\n}"', 'f"""{\na}"""', 'f"{yield}"', 'f"{é}é{ü}"',
    'x = f"{a}"\n', 'f(f"{a}", *f"{b}")\n', 'def f(): return f"{a}{b!s}"\n', 'f"{a}" if f"{b}" else f"{c:>4}"', 'rf"{a}\\n"',
    'f"{a[\'k\']}"', 'f"{a,}"', 'f"{1 if a else 2}"', 'f"{{}}{a}{{"', 'f"{a:}"', 'f"{a!r:^10}"', 'f"{not a}"', 'f"{a if}"',
    'f"{a}" f"{b c}"', 'f"{0x}"', 'f"{\'\\\'}"', 'f"{a#}"', 'f"{:x}"', 'f"{a:{}}"',
]
BLANKS = ["", " ", "\t", "\n", "\n\n", "\r\n", "# c", "# c\n", "  # c\n\n", "\\\n", "\x0c", " \n \n", "\ufeff", "\ufeff\n", ";", "\\"]
SHORT = ["x", "1", "'s'", "b'b'", "None", "...", "x,", "(x)", "x\n", "x\n\n", " x", "x ", "x;", "x;y", "x\ny", "x\ny\nz", "pass", "pass;pass",
         "yield", "yield x", "yield from x", "*a, b", "*a", "a := 1", "(a := 1)", "await x", "lambda: 0", "x = 1", "x: int", "x += 1",
         "if x: pass", "if x:\n pass\nelse:\n pass\n", "def f(): pass", "@d\ndef f(): pass\n", "@d\nclass C: pass\n", "class C: pass",
         "match x:\n case 1: pass\n", "match", "match(x)", "type X = int", "type", "type(x)", "case", "print x", "1 +", "(", ")", "x y", "'abc",
         '"""abc', "1_", "0x", "$", "x = ", "def", "x if", "[1, 2", "{1: }", "import", "from . import x", "a.b.c", "a[1:2]", "a[1:2, ::3]",
         "not x", "-x", "x and y", "x < y < z", "x if y else z", "{}", "{1}", "{1: 2}", "[x for x in y]", "{x for x in y}", "{x: x for x in y}",
         "(x for x in y)", "f(x)", "f'{x}'", "1j", "1.5", "10**100", "True", "x.y", "[*a]", "(yield)", "é", "名 = 1", "x\x0c", "\x0cx",
         "try:\n pass\nexcept* E:\n pass\n", "try:\n pass\nfinally:\n pass\n", "with a as b: pass", "async def f(): pass", "async with a: pass",
         "async for x in y: pass", "for x in y: pass", "while x: pass", "return", "return x", "del x", "assert x", "raise", "raise x from y",
         "global x", "nonlocal x", "import a.b as c", "break", "continue", "x = yield", "x\\\n+ y", "(x\n+ y)", "'a' 'b'", "u'a'", "x\t", "  ", "x  # c"]


def norm(v):
    """canonical projection with the enum wrapper dropped (Stmt::Expr(StmtExpr{..}) and StmtExpr{..} compare equal)"""
    if isinstance(v, dict):
        out = {k: norm(x) for k, x in v.items()}
        if "_k" in out and "_t" in out:
            del out["_k"]
        return out
    if isinstance(v, list):
        return [norm(x) for x in v]
    return v


def kind_of(node, prefix):
    t = node.get("_t", "") if isinstance(node, dict) else ""
    return t[len(prefix):] if t.startswith(prefix) else "?"


def classify(mod, expr, toks):
    """the class record of Entry.tla for the two oracle answers"""
    if "ok" in mod:
        body = mod["ok"]["body"]
        n = min(len(body), 2)
        k1 = kind_of(body[0], "Stmt") if body else "-"
        v1 = kind_of(body[0]["value"], "Expr") if body and k1 == "Expr" else "-"
        m = {"ok": True, "n": n, "k1": k1, "v1": v1}
    else:
        m = {"ok": False, "n": 0, "k1": "-", "v1": "-"}
    if "ok" in expr:
        x = {"ok": True, "why": "-", "ek": kind_of(expr["ok"]["body"], "Expr")}
    else:
        x = {"ok": False, "why": "empty" if toks == {"toks": []} else "other", "ek": "-"}
    return m, x


def class_key(m, x):
    return json.dumps([m["ok"], m["n"], m["k1"], m["v1"], x["ok"], x["why"], x["ek"]])


def resolve(desc, mod, expr, toks, at_k):
    """descriptor -> the value the entry point must return (positions relative to the text start)"""
    if desc["r"] == "ok":
        v = desc["view"]
        if v == "toks":
            return toks
        if v == "mod":
            return {"ok": mod["ok"]}
        if v == "mod.as_interactive":
            return {"ok": {"_t": "ModInteractive", "body": mod["ok"]["body"], "range": mod["ok"]["range"]}}
        if v == "mod.body":
            return {"ok": mod["ok"]["body"]}
        if v == "mod.body[1]":
            return {"ok": mod["ok"]["body"][0]}
        if v == "expr":
            return {"ok": expr["ok"]}
        if v == "expr.body":
            return {"ok": expr["ok"]["body"]}
        if v == "expr.body.id":
            return {"ok": expr["ok"]["body"]["id"]}
        if v == "expr.body.value":
            return {"ok": expr["ok"]["body"]["value"]}
        raise KeyError(v)
    k = desc["ekind"]
    if k == "same_as_mod":
        return {"err": mod["err"]}
    if k == "same_as_expr":
        return {"err": expr["err"]}
    at = desc["at"]
    if at == "k":
        off = 0
    elif at == "zero":
        off = {"below_k": 0} if at_k else 0
    elif at == "mod.body[2].start":
        off = mod["ok"]["body"][1]["range"][0]
    elif at == "mod.body[1].start":
        off = mod["ok"]["body"][0]["range"][0]
    elif at == "expr.body.start":
        off = expr["ok"]["body"]["range"][0]
    else:
        raise KeyError(at)
    return {"err": {"kind": k, "offset": off}}


def same(want, got):
    if "err" in want and "err" in got and "msg" not in want["err"]:
        return want["err"]["kind"] == got["err"].get("kind") and want["err"]["offset"] == got["err"].get("offset")
    return want == got


def short(v):
    if "ok" in v:
        t = v["ok"]
        return "ok:" + (t.get("_t", "node") if isinstance(t, dict) else type(t).__name__)
    if "err" in v:
        k = v["err"].get("kind")
        o = v["err"].get("offset")
        return "err:%s@%s" % (k if isinstance(k, str) else k.get("_k"), "below_k" if isinstance(o, dict) else "pos")
    if "toks" in v:
        return "toks"
    return "panic" if "panic" in v else "?"


def table(ctx):
    r1 = ctx.tlc("api", "Entry", "Entry_ideal.cfg", workers=4, coverage=False, timeout=900)
    r2 = ctx.tlc("api", "Entry", "Entry_pinned.cfg", workers=4, coverage=False, timeout=900)
    tab = {}
    for rec in r2.replays:
        tab[class_key(rec["m"], rec["x"])] = rec
    ideal = {class_key(rec["m"], rec["x"]): rec for rec in r1.replays}
    from vcheck import ToolError
    if len(tab) < 100 or set(tab) != set(ideal):
        raise ToolError("vacuity: Entry.tla emitted %d / %d classes" % (len(tab), len(ideal)))
    for k, rec in tab.items():
        # the declared answers do not depend on the variant; the ideal mirror equals them
        if rec["want"] != ideal[k]["want"] or ideal[k]["code"] != ideal[k]["want"]:
            raise ToolError("Entry.tla: ideal variant differs from the declared table for class " + k)
    ctx.extra["classes_in_spec"] = len(tab)
    ctx.extra["entry_points"] = len(next(iter(tab.values()))["want"])
    return tab


def check_text(ctx, tab, src, k, resp, fam, seen):
    base = {"fam": fam, "src": src, "k": k}
    if "map" not in resp:
        ctx.mismatch("harness:" + str(sorted(resp))[:40], {"src": src[:200], "k": k, "observed": str(resp)[:200]}, base)
        return
    vals = [norm(v) for v in resp["vals"]]
    mp = resp["map"]
    get = lambda f: vals[mp[f]]
    mod, expr, toks = get("parse.Module"), get("parse.Expression"), get("lex")
    if "panic" in mod or "panic" in expr or "panic" in toks:
        return      # totality is C03's subject
    m, x = classify(mod, expr, toks)
    key = class_key(m, x)
    seen[key] = seen.get(key, 0) + 1
    rec = tab.get(key)
    if rec is None:
        ctx.mismatch("class.unexpected:m=%s/%s/%s/%s:x=%s/%s" % (m["ok"], m["n"], m["k1"], m["v1"], x["ok"], x["ek"] if x["ok"] else x["why"]),
                     {"src": src[:300], "module": short(mod), "expression": short(expr)}, base)
        return
    if x["ok"] and expr["ok"]["body"] != mod["ok"]["body"][0]["value"]:
        ctx.mismatch("expr_vs_module.tree:%s" % x["ek"], {"src": src[:300]}, base)
    names = get("mode_names")
    if not (names["exec"] == "Module" and names["eval"] == "Expression" and names["single"] in ("Module", "Interactive")
            and names[""] == "error" and names["Exec"] == "error"):
        ctx.mismatch("mode_names", {"observed": names}, base)
    for f, want_d in rec["want"].items():
        if f not in mp:
            from vcheck import ToolError
            raise ToolError("entry point %s of Entry.tla is not exercised by the harness" % f)
        got = vals[mp[f]]
        at_k = f.endswith("@k") and k > 0
        want = resolve(want_d, mod, expr, toks, at_k)
        if same(want, got):
            continue
        pinned = same(resolve(rec["code"][f], mod, expr, toks, at_k), got)
        sig = "%s:%s->%s#%s" % (f, short(want), short(got), "pinned" if pinned else "new")
        ctx.mismatch(sig, {"src": src[:300], "k": k, "class": key, "declared": want_d, "expected": json.dumps(want)[:300], "observed": json.dumps(got)[:300]}, base)
    extra = set(mp) - set(rec["want"]) - {"mode_names"}
    if extra:
        from vcheck import ToolError
        raise ToolError("harness entry points missing from Entry.tla: %s" % sorted(extra)[:5])


def offsets_for(ctx, idx, src):
    n = len(src.encode("utf-8", "surrogatepass"))
    ks = [OFFSETS[idx % len(OFFSETS)]] if ctx.quick else OFFSETS
    return [M32 - n if k == "max" else k for k in ks]


def run_texts(ctx, tab, texts, fam, seen):
    h = ctx.harness("default")
    reqs = []
    for i, src in enumerate(texts):
        for k in offsets_for(ctx, i, src):
            reqs.append({"op": "entrypoints", "src": src, "k": k, "kinds": True})
    resps = h.run(reqs)
    for req, resp in zip(reqs, resps):
        ctx.replayed += 1
        check_text(ctx, tab, req["src"], req["k"], resp, fam, seen)
    ctx.distinct_cases.update(texts)
    ctx.extra.setdefault("texts", {})[fam] = len(texts)


def eval_converse(ctx, texts):
    """the documented exceptions of the converse (a single expression statement that expression mode rejects) are the
    ones the reference's eval mode rejects as well"""
    h = ctx.harness("default")
    reqs = [{"op": "entrypoints", "src": s, "k": 0, "kinds": False} for s in texts]
    for req, resp in zip(reqs, h.run(reqs)):
        if "map" not in resp:
            continue
        vals = [norm(v) for v in resp["vals"]]
        mod, expr = vals[resp["map"]["parse.Module"]], vals[resp["map"]["parse.Expression"]]
        if "ok" in mod and len(mod["ok"]["body"]) == 1 and kind_of(mod["ok"]["body"][0], "Stmt") == "Expr" and "err" in expr:
            ref = pytree.from_cpython(req["src"], "Expression")
            if ref is not None:
                vk = kind_of(mod["ok"]["body"][0]["value"], "Expr")
                ctx.mismatch("expr_vs_module.rejected:%s" % vk, {"src": req["src"][:300], "observed": json.dumps(expr)[:200]},
                             {"fam": "converse", "src": req["src"], "k": 0})
            ctx.extra["converse_exceptions"] = ctx.extra.get("converse_exceptions", 0) + (1 if ref is None else 0)


def run(ctx):
    ctx.extra["exhaustive"] = True
    ctx.extra["rule"] = ("Entry.tla: all classes x all entry points model-checked; replay: every text x every entry point x "
                         + ("one rotating offset of {1, 7, 400, 2^32-1-len}" if ctx.quick else "offsets {1, 7, 400, 2^32-1-len}") + " (offset 0 in every call)")
    ctx.assumptions += ["parse(Module) and parse(Expression) at offset 0 are taken as the one parser's answer (their correctness is C01/C02)",
                        "error messages are compared only where the error is the oracle's own; for errors made up by the typed parsers kind and offset are compared"]
    tab = table(ctx)
    seen = {}
    limit = 1200 if ctx.quick else 6000
    valid = []
    for name in SUBLANGS:
        cases = sr.generate(ctx, name)
        if len(cases) > limit:
            cases = cases[::(len(cases) + limit - 1) // limit]
        texts = []
        for i, c in enumerate(cases):
            lay = [pygen.Layout(), pygen.Layout(eol="\r\n", comment=" # é"), pygen.Layout(bom=True, indent="\t")][i % 3]
            names = {"a": "é"} if i % 5 == 0 else None
            texts.append(pygen.realize(c, lay, names)[0])
        run_texts(ctx, tab, texts, "pygen." + name, seen)
        valid += texts[:: max(1, len(texts) // 150)]
    ctx.sample({"text": valid[len(valid) // 2]})
    # two or more statements, invalid neighbours, blank and short inputs, f-strings
    pairs = [(a.rstrip("\r\n") + "\n" + b).replace("\ufeff", "") for a, b in zip(valid, valid[7:])][: (300 if ctx.quick else 3000)]
    run_texts(ctx, tab, pairs, "pairs", seen)
    muts = c03.mutations(ctx, [t for t in valid if len(t) < 80][: (150 if ctx.quick else 1500)], 1500 if ctx.quick else 30000)
    run_texts(ctx, tab, muts, "mutations", seen)
    run_texts(ctx, tab, BLANKS + SHORT, "curated", seen)
    fs = FSTRINGS + [p + s for s in FSTRINGS[:30] for p in ("x = ", "(", "[1, ")] + [s + "\n" + s for s in FSTRINGS[:12]]
    run_texts(ctx, tab, fs, "fstrings", seen)
    # f-string bodies of FString.tla: nested expressions re-enter the parser at computed offsets
    from checks import c07
    rf = ctx.tlc("literal", "FString", "FString_deepq.cfg", coverage=False, timeout=3000)
    step = 6 if ctx.quick else 1
    run_texts(ctx, tab, [c07.build(c)[0] for c in rf.replays[::step]], "fstring_bodies", seen)
    snippets = json.load(open(os.path.join(pygen.ROOT, "corpus", "locate_snippets.json")))
    run_texts(ctx, tab, snippets, "snippets", seen)
    eval_converse(ctx, valid + SHORT + FSTRINGS)
    ctx.extra["classes_exercised"] = len(seen)
    ctx.extra["classes_not_exercised"] = sorted(set(tab) - set(seen))[:40]
    from vcheck import ToolError
    if len(seen) < 45:
        raise ToolError("vacuity: only %d input classes exercised" % len(seen))


def replay(ctx, rec):
    c = rec["case"]
    ctx.states = ctx.transitions = 1
    tab = table(ctx)
    h = ctx.harness("default")
    resp = h.run([{"op": "entrypoints", "src": c["src"], "k": c["k"], "kinds": True}])[0]
    ctx.replayed += 1
    if c["fam"] == "converse":
        eval_converse(ctx, [c["src"]])
    else:
        check_text(ctx, tab, c["src"], c["k"], resp, c["fam"], {})
    ctx.sample({"fam": c["fam"]})

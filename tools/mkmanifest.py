#!/usr/bin/env python3
"""Writes /verif/MANIFEST.json from the table below (single source of truth for what is claimed)."""
import json, os
ROOT = os.path.dirname(os.path.dirname(os.path.abspath(__file__)))

CLAIMED = {
    "C15": {
        "text": "TLC exhaustively explores the newline-iterator machine (all texts <= 5/7 chars over {ASCII, multi-byte, LF, CR} x all interleavings of next/next_back x with_offset bases), the LineIndex scanning machine (all texts incl. leading BOM, all boundary offsets) and the TextRange algebra (all range pairs over low/high endpoints) against declarative definitions (Lines.tla, set reading of ranges); every terminal state is replayed on the real types and random long runs of the real iterator are validated as traces by TLC.",
        "design_ref": "DESIGN.md section 6 C15",
        "note": "Class representatives stand for their class; offsets near 2^32 use the low/high abstraction (ASSUME-checked lemma in Ranges.tla); exhaustive only within the stated bounds, except the range-algebra laws (intersect/cover lattice laws, set reading, ordering, shifting), which RangesProof.tla proves for all natural offsets with TLAPS (30 obligations, re-proved in every run).",
        "technique": "TLA+ spec (NewlineIter/LineIndex/Ranges vs Lines) model-checked by TLC; TLC-generated behaviours replayed into Rust; recorded iterator traces validated by TLC; range-algebra laws proved unboundedly with TLAPS",
    },
}
CLAIMED["C13"] = {
    "text": "TLC checks the LinearLocator machine (Locator.tla, mirror of LinearLocatorState/locate_inner) against the declarative rows/columns of Lines.tla for all texts <= 4/5 characters over {ASCII, multi-byte, LF, CR, leading BOM} and all forward sequences of <= 3 locate/locate_only calls; the behaviours are replayed on the real LinearLocator and RandomLocator; real programs are folded with both locators and the hook-recorded locate calls plus every RandomLocator answer are validated by TLC (LocatorTrace.tla: forward-only precondition, cursor agreement, declarative row/column).",
    "design_ref": "DESIGN.md section 6 C13",
    "note": "Offsets splitting a CR LF pair are excluded (never node/error offsets); trace validation covers the curated program list in corpus/ (constructs whose tree order differs from source order) and grows with the program generator; debug assertions on.",
    "technique": "TLA+ spec of the locator state machine model-checked by TLC against a declarative line/column definition; replay of TLC behaviours; TLC trace validation of hook-recorded locate events",
}
CLAIMED["C14"] = {
    "text": "TLC builds every signature with <= 2/3 parameters per kind (positional-only, positional, *args, keyword-only, **kwargs; every default pattern the grammar allows, keyword-only defaults in any pattern), runs the mirror of to_python_arguments and into_arguments and checks it against declarative conversions (round trip up to the documented kw-only order, nothing lost, every default stays with its parameter); every signature is rendered as def / annotated def / async def / lambda, parsed and converted by the real code and compared with the specification's expected lists.",
    "design_ref": "DESIGN.md section 6 C14",
    "note": "Default feature set (ArgWithDefault::from_arg is todo!() under all-nodes-with-ranges, as the property notes); signatures come from the real parser; bounded number of parameters per kind.",
    "technique": "TLA+ spec of the two parameter-list forms and their conversions model-checked by TLC (mirror vs declarative); all TLC-generated signatures replayed through parser + real conversions",
}
CLAIMED["C20"] = {
    "text": "CPython's MarkupIterator and field-name splitter are written as TLA+ machines (FormatString.tla); TLC checks normal-form laws and enumerates every template <= 4/5 characters over a 12-class alphabet (braces, brackets, '!', ':', '.', digit, letter, '+', multi-byte letter, non-ASCII digit), bare and wrapped in a replacement field, and every field name <= 5/6; expected parts or rejection are replayed on FormatString::from_str and FieldName::parse with two concretisations per class string; random longer inputs run on the real code are validated by TLC (FormatStringTrace.tla). Every generated input is also checked against CPython's _string.formatter_parser / formatter_field_name_split (0 spec/reference disagreements required).",
    "design_ref": "DESIGN.md section 6 C20",
    "note": "Format specs with more than one level of nested braces are outside the stated scope (skipped and counted); index overflow (> isize::MAX digits) is not generated; eight narrow known findings (bracket/brace awareness of the field scanner, non-ASCII digits) are listed in KNOWN_FINDINGS.json.",
    "technique": "TLA+ machine of the reference template parser model-checked by TLC; exhaustive TLC-generated templates replayed into Rust; TLC trace validation of recorded calls; CPython cross-validation of the spec",
}
CLAIMED["C19"] = {
    "text": "CPython's %-template parser is written as a TLA+ machine over 15 character classes (CFormat.tla, one action per template part) and the integer / text / character / bytes conversions as operators on real strings; TLC checks cursor/part invariants and the width and left-adjust laws, enumerates every template '%'+s with |s| <= 4/5 for text and bytes (expected parts, or rejection kind and character index) and every cell of the conversion table (12 flag sets x 6 widths x 6 precisions x types x value pools); all are replayed on CFormatString/CFormatBytes/CFormatSpec and cross-validated against CPython's % operator (0 disagreements required).",
    "design_ref": "DESIGN.md section 6 C19",
    "note": "'*' width/precision are resolved by the caller of this library and are compared structurally only; float conversions are covered by the float cells shared with C17 (exact dyadic values); templates mixing keyed and positional specifiers are not validated by CPython (TypeError there) but still replayed.",
    "technique": "TLA+ machine of the reference %-template parser and conversion semantics model-checked by TLC; exhaustive TLC-generated templates and cells replayed into Rust; CPython cross-validation of the spec",
}
CLAIMED["C18"] = {
    "text": "Python's format-spec parser (parse_internal_render_format_spec) and the integer / text / boolean rendering pipeline (sign, '#' prefix, grouping every 3/4 with width-driven zero padding, fill and alignment incl. '=' and the 0 flag, precision as character truncation, per-type validity) are written in TLA+ on real strings (FormatSpec.tla); TLC checks the width law and enumerates the product of field choices x value pools and every raw specification string <= 4/5 symbols (malformed ones included) x value pools (small and 30-digit integers, ASCII and multi-byte text, booleans); each cell's expected text or rejection is replayed on FormatSpec::parse + format_int/format_string/format_bool and cross-validated against CPython's format() (0 disagreements required). Float cells come from FloatText.tla (exact dyadic values).",
    "design_ref": "DESIGN.md section 6 C18",
    "note": "Integers beyond 2^31 are decimal digit strings (decimal presentations only); 'n' in the C locale; the PEP 682 'z' option of Python 3.11 is not part of the alphabet; float digit generation for arbitrary doubles relies on Rust std (see C17).",
    "technique": "TLA+ definition of the reference format() semantics model-checked by TLC; exhaustive TLC-generated (spec, value) cells replayed into Rust; CPython cross-validation of the spec",
}
CLAIMED["C16"] = {
    "text": "The repr pre-pass (out_len and quote counters, one step per character), the quote choice, the fast-path decision and the writer are a TLA+ machine (Escape.tla) checked by TLC against Python's repr written as a per-class table: ReprOK (text and quote), LenOK (announced length = real length), FastOK (fast path iff nothing is escaped) and RoundTripOK (Decode(Repr(s)) = s with the literal escape decoder) for every class string <= 3/4 over 16 text classes and <= 4/5 over 10 byte classes, each with three class-member variants; every case is replayed on UnicodeEscape/AsciiEscape (text, Display, announced length, changed flag, quote) and parsed back with Constant::parse; CPython repr()/literal_eval validate the spec on every case; all byte strings <= 1 (quick, plus a sample of length 2) / <= 2 (thorough) are compared with CPython's repr.",
    "design_ref": "DESIGN.md section 6 C16",
    "note": "Class members are code points whose printable status is Unicode-version independent; the is_printable table itself (unic-ucd-category) is only sampled through those members.",
    "technique": "TLA+ machine of the repr layout/writer model-checked by TLC against a declarative repr table and decoder; exhaustive class strings replayed into Rust and parsed back; CPython cross-validation",
}
CLAIMED["C17"] = {
    "text": "FloatParse.tla gives Python's float() grammar as a character scanner and, independently, as a declarative definition; TLC proves them equal on every string <= 5/6 symbols over {digit, _, ., e, sign, whitespace, inf/infinity/nan, other} and the strings are replayed on parse_str/parse_bytes (accept/reject; accepted values bit-compared with CPython float()). FloatText.tla defines decimal digit generation (dtoa modes 0/2/3 with ties-to-even) and PyOS_double_to_string's assembly for e/f/g/r on exact decimals; FloatCells.tla enumerates %f/%e/%g cells (exact dyadic values x precisions 0..20 x alternate form x case), repr-shape cells ((shortest digits, decimal exponent) over every exponent plus boundary doubles such as 0.9999999999999999, with parse-back and a no-shorter-rendering check) and float.hex()/fromhex() cells (doubles named by sign, exponent and 13 hex mantissa digits, with the accepted spellings); every cell is validated against CPython and replayed on literal::float.",
    "design_ref": "DESIGN.md section 6 C17 and section 9",
    "note": "TLC has no IEEE arithmetic: digits are computed by the specification only for exactly representable decimal values; that an arbitrary double's digits are correctly rounded/shortest is checked through round trips and CPython as trusted base; ASCII input only.",
    "technique": "TLA+ scanner-vs-declarative grammar equivalence model-checked by TLC; TLA+ digit-string definitions of printf/repr/hex text; exhaustive TLC-generated strings and cells replayed into Rust; CPython cross-validation",
}
CLAIMED["C05"] = {
    "text": "The hand-written lexer is a TLA+ state machine (Lexer.tla: position, at_begin_of_line, nesting, indentation stack, pending queue; Step = one iteration of inner_next's loop, Pop = delivering a token) over a complete partition of characters into ~60 classes. TLC checks on every text <= 4/5 characters of five class alphabets (layout, operators, numbers, strings/prefixes, Unicode) and both lexer configurations: ranges in bounds / on character boundaries / ordered, gaps only whitespace-comments-joins, spelling against an independent operator table and lexeme shapes, longest match, INDENT/DEDENT balance and placement, NEWLINE only outside brackets, progress (LexerMC.tla). Every finished run (token list or error kind and offset) is replayed on the real Lexer in the default and full-lexer builds; corpus files and seeded random layouts are lexed with the hook on and every Lexer::next event (token or error plus nesting, indentation depth, at_begin_of_line, queue length, location) is validated by TLC against the machine (LexerTrace.tla).",
    "design_ref": "DESIGN.md section 6 C05",
    "note": "Characters of one class are indistinguishable to the lexer by construction of the partition; XID/emoji tables are parameters sampled through class members; numeric values of literals are C06's subject.",
    "technique": "TLA+ state machine of the lexer model-checked by TLC against declarative token definitions; TLC-generated runs replayed into Rust; TLC trace validation of hook-recorded lexer events",
}
CLAIMED["C10"] = {
    "text": "LexerFeat.tla runs two copies of the lexer machine (plain and full-lexer) on every text <= 4/5 characters over a 12-class layout alphabet and TLC checks that filtering Comment/NonLogicalNewline tokens out of the full stream gives exactly the plain stream, with the same error and the same nesting/indentation state. The harness is built in the four feature configurations (default, full-lexer, all-nodes-with-ranges, num-bigint) and TLC-generated class strings (layout, strings, numbers alphabets), big integer literals in every radix, the curated programs and the corpus files are parsed in each; acceptance, tree (optional ranges ignored where the default build has none), mandatory ranges and error kind/offset must be identical, and lex(full) filtered must equal lex(default).",
    "design_ref": "DESIGN.md section 6 C10",
    "note": "The four builds differ only in cargo features of the repository crates; the soft-keyword transformer's start_of_line under full-lexer is exercised through programs with comments before match/case/type lines (and by the generator's layout variants once attached).",
    "technique": "TLA+ product of two lexer machines model-checked by TLC (filter equivalence); differential replay of TLC-generated texts and programs across four feature builds",
}
CLAIMED["C03"] = {
    "text": "The lexer machine's totality properties are checked by TLC for all texts within bounds and start offsets 0 and 400: Progress (every loop iteration consumes a character, queues a token or ends), ErrInBounds (error offsets inside [start, end] on a character boundary), CursorOK. TLC-generated inputs -- every class string <= 4/5 over five lexer alphabets (valid or not) and every token soup <= 4/5 over a 25-token alphabet -- are run through lex and parse in the three modes and parse_starts_at with offsets {0, 1, 400, 2^32-1-len} under catch_unwind (overflow checks on) with a watchdog: no panic, no overflow, no hang, error offset inside [start, start+len] on a character boundary; plus every single-token deletion/duplication/adjacent swap of the curated programs and 22 growth families (nesting depth and length n, 2n, 4n within a quadratic time envelope; depth 500 parsed and dropped on an 8 MiB stack).",
    "design_ref": "DESIGN.md section 6 C03",
    "note": "Polynomial time and stack depth are measured, not proved; 'every Unicode string' is represented by the class partition with seeded members; the LR automaton itself is exercised as a black box.",
    "technique": "TLA+ lexer machine progress/error-envelope properties model-checked by TLC; TLC-generated class strings and token soups replayed through every entry mode and start offset under a panic/overflow/hang envelope; growth families",
}
CLAIMED["C01"] = {
    "text": "PyGen.tla defines Python's abstract syntax generatively: PyBuild, a typed stack machine with one action per node constructor (expressions, statements, patterns, parameter lists, type parameters, soft keywords as names), builds every tree of each of ten sub-languages within a node budget (TLC explores the whole construction graph); PyWalk renders each tree with the grammar's need-parentheses relation. Every generated program is parsed by the real parser in Module and Interactive (or Expression) mode and the tree must equal the specification's (kinds, child order, identifiers, operators, contexts, flags, values). Each program is validated against CPython's ast (3.12 for PEP 695) first: a disagreement is a specification bug and is excluded (0 at present). Corpus files are compared with CPython's tree directly.",
    "design_ref": "DESIGN.md section 6 C01",
    "note": "Exhaustive within per-sub-language node budgets (quick: strided above 15000 programs per sub-language); one canonical layout here (layouts are C08); the LR tables are exercised as a black box; literal decoding and f-strings are C06/C07.",
    "technique": "TLA+ generative grammar (typed stack machine + renderer) explored exhaustively by TLC; TLC-generated programs replayed into the parser and compared with the spec tree; CPython cross-validation of the spec",
}
CLAIMED["C02"] = {
    "text": "PyGen.tla brackets the tokens of every range-carrying node with B/E marks (the extent definition per node kind); generated programs are laid out under byte-moving layouts (multi-byte identifiers, CRLF, CR with tabs, BOM, comments and blank lines, missing final newline) and parsed by the all-nodes-with-ranges build; every marked node's range must equal the byte offsets of its marks, and the structural clauses (inside the input, character boundaries, start <= end, children inside parents except decorators, siblings ordered) are evaluated on every generated and corpus tree. CPython's line/column positions converted to byte offsets validate the marks on every program.",
    "design_ref": "DESIGN.md section 6 C02",
    "note": "Expressions inside f-string fields are checked with FString.tla's core bodies (each field expression's tree, ranges included, equals the expression parsed alone moved to its byte offset); ranges of the literal pieces of f-strings are not compared; nodes that only carry ranges under all-nodes-with-ranges are checked structurally (no reference positions exist for them).",
    "technique": "TLA+ generative grammar with range marks explored by TLC; TLC-generated programs under several layouts replayed into the parser (ranges vs marks); CPython cross-validation of the marks",
}
CLAIMED["C08"] = {
    "text": "LayoutMC.tla renders logical programs (lines with depths and tokens, <= 2/3 lines) under every combination of layout choices (LF/CR/CRLF, indent unit, trailing whitespace, trailing comments, BOM, missing final line break, and a blank / whitespace-only / odd-indentation comment line, form feed, backslash join or in-bracket line break at any line) and TLC checks on the lexer machine that no layout causes an error and that the delivered token kinds are exactly the logical program's. Every PyGen.tla program is realised canonically, under seven layout variants (incl. ';'-joined simple statements) and with one redundant pair of parentheses around every expression (a second TLC run with ExtraParens); every variant must be accepted and give the canonical tree with ranges erased.",
    "design_ref": "DESIGN.md section 6 C08",
    "note": "The 'simple' flag of annotated assignments is excepted by never parenthesising such targets; tab-after-space indentation is the documented stricter rule and is not a variant; quick tier rotates two variants per program.",
    "technique": "TLA+ layout renderer composed with the lexer machine model-checked by TLC (token-stream invariance); TLC-generated programs replayed under layout and parenthesis variants (tree invariance)",
}
CLAIMED["C09"] = {
    "text": "Entry.tla specifies the layer above the parser proper: the class of a text (what the one parser answers in module and in expression mode), every public entry point (parse / parse_starts_at / parse_tokens in three modes, lex / lex_starts_at, the 8 typed and 55 per-node-kind Parse implementations with parse, parse_starts_at, parse_tokens, parse_without_path, the deprecated helpers: 148 entry points) and its answer as a descriptor. TLC checks for all 137 classes x 148 entry points that the call-chain mirror of the implementation returns the declared part of the one tree (ViewsAgree) and that no answer depends on the start offset once positions are taken relative to the text start (Translation); Variant=pinned states the one known deviation exactly (PinnedExact). TLC emits the declared answers per class; every input text (generated programs of nine sub-languages under three layouts, their single-token mutations, two-statement concatenations, blank and curated short texts, valid and invalid f-strings, snippets) is run through every entry point at offset 0 and at k in {1, 7, 400, 2^32-1-len} and each answer must be the descriptor resolved against parse(Module)/parse(Expression) at offset 0; a text whose class is not in the specification is a violation; the converse exceptions (expression statement rejected in expression mode) must be rejected by CPython's eval mode too; Mode::from_str names are checked.",
    "design_ref": "DESIGN.md section 6 C09",
    "note": "parse(Module)/parse(Expression) at offset 0 are the oracle here (their correctness is C01/C02); quick tier uses one rotating offset per text, thorough all four; known finding F-C09-1 (empty token stream has no position).",
    "technique": "TLA+ specification of the entry-point layer (classes x entry points) model-checked by TLC (views agree, translation invariance); TLC-emitted answer table replayed against every public entry point of the real parser at several start offsets",
}
CLAIMED["C11"] = {
    "text": "Unparse.tla extends the generative grammar with U, a mirror of ast/src/unparse.rs (sixteen levels, the level handed to every child, group_if, yield/generator-argument/one-element-tuple/parameter-marker special forms). TLC checks RoundTripSafe on every expression tree PyBuild constructs (all 22 constructors with budget 3 quick / 4 thorough = every parent x child x side combination and every triple; operator, atom, comprehension and call sub-languages deeper): U's token sequence is the grammar's rendering R plus redundant parenthesis pairs only, so with C01 (R parses to the tree) and C08 (redundant parentheses do not change it) the unparser's output parses back to the tree. Conformance: the real unparser must print exactly U's tokens for every generated tree (token streams compared through the real lexer), its text must be accepted, parse to the same tree with ranges and contexts erased, and unparse to the same text. The same round trip runs on constant pools (floats from random bit patterns and boundaries, huge ints, radix forms, complex, str/bytes with every escape class and all byte values, prefixes) in eleven contexts, on f-strings (nested quotes, specs, conversions, debug text) and on the expressions of the corpus files.",
    "design_ref": "DESIGN.md section 6 C11",
    "note": "Within node budgets; f-strings and constants are not part of the TLA+ mirror (source tokens stand for constants there) and are covered by the round trip only; known finding F-C11-1 (f-string renderer escapes expression parts).",
    "technique": "TLA+ mirror of the unparser's precedence machine checked by TLC against the generative grammar's need-parentheses rendering (alignment invariant); TLC-generated trees replayed: unparser tokens vs mirror, parse(unparse(t)) = t, fixed point",
}
CLAIMED["C12"] = {
    "text": "Traversal.tla is the depth-first walk of a tree given as a node table (kind, category, range-carrying or not, children in declaration order, read from the tree's derive(Debug) output independently of Fold/Visitor). The harness records, through the public traits only, every will_map_user/map_user callback of an identity folder and every visit_stmt/visit_expr/visit_pattern/visit_excepthandler call of the default Visitor; TLC validates the recorded callbacks of every program against the walk: one enter and one exit per range-carrying node with the context it produced, one visit per statement/expression/pattern/handler, parents first, children in order - a dropped, duplicated, reordered or foreign callback leaves an event unmatched. Folding with the identity must give an equal tree and folding +1000 then -1000 the original (default and all-nodes-with-ranges builds). Optimizer.tla builds every statement over constants, names, tuples and lists (targets included) within a budget and TLC checks Idempotent, Lossless (unfolding the tuple constants gives the input back) and Maximal; every such statement is run through the real ConstantOptimizer and compared with Opt; on all other programs the optimised tree must equal the generic rewriting and optimising twice must change nothing. Programs: nine PyGen.tla sub-languages, curated snippets, corpus files; all 80 node kinds must occur.",
    "design_ref": "DESIGN.md section 6 C12",
    "note": "Callbacks are matched by range (fold) / category and range (visitor): two distinct nodes with equal range and category are interchangeable for the walk; quick tier strides the generated programs (700 per sub-language).",
    "technique": "TLC trace validation of recorded Fold/Visitor callbacks against a TLA+ depth-first walk of the tree's node table; TLA+ rewriting model of the constant-tuple optimiser model-checked (idempotent, lossless, maximal) and replayed into the real optimiser",
}
CLAIMED["C06"] = {
    "text": "StrLit.tla defines, over a character alphabet with one representative per decoder rule (backslash, both quotes, escape letters n f x u U N, a non-escape letter, octal and non-octal digits, a hexadecimal letter, LF, CR, a Latin-1 and an astral character, {BULLET}, ready-made 4/8-digit hexadecimal groups incl. a surrogate), the line-ending normalisation, where a literal ends (Closed) and its value (Dec: Python's escape rules per kind, raw literals, octal modulo 256 in bytes, unknown escapes kept) for 20 literal forms (text/bytes/raw/u x quote styles), every prefix spelling and implicit concatenation pairs; TLC enumerates every body up to MaxLen (3 quick / 4 thorough; backslash + every printable ASCII character and special in the sweep). NumLit.tla is the automaton of numeric literals (class, radix, cleaned digits, underscore placement, leading zeros) and TLC enumerates every literal up to 6/7 characters. Every case is validated against CPython's evaluation of the same source (disagreements = specification bugs, 0 at present), then the parser's Constant must carry exactly the value (floats bit for bit, integers exactly) and kind marker. Value sweeps cover all \\x and octal values, boundary \\u/\\U code points and named escapes; magnitude pools cover halfway and boundary doubles, random decimal strings and bit patterns, and integers up to thousands of digits in each radix.",
    "design_ref": "DESIGN.md section 6 C06",
    "note": "TLC integers are 32-bit: the numeric conversion itself (int(clean, radix), float(clean)) is the reference's; \\N{...} by sampled names; known finding F-C06-1 (U prefix kind marker).",
    "technique": "TLA+ specifications of literal decoding (escape rules, literal termination, numeric-literal automaton) explored exhaustively by TLC as generators with computed values; CPython cross-validation of the specification; values replayed into the parser",
}
CLAIMED["C07"] = {
    "text": "FString.tla defines f-string bodies as sequences of literal items (text, non-ASCII, doubled braces, escapes incl. octal, hexadecimal and named ones, a backslash pair, ':' '!' '=' outside fields) and replacement fields: 38 expressions containing every character the field scanner treats specially (all bracket kinds, strings holding braces/colons/'!'/'=', '!=' '<=' '==' '>=' comparisons, walrus, lambda, nested f-strings with conversion and nested spec, a dict display needing the blank after '{', tuples with and without parentheses, starred, yield, conditional), conversions x 9 format specs (empty, text, nested fields, nested conversion, escape, non-ASCII), and the '=' form with and without blanks, in 8 literal forms (f/F/rf/fR/Rf/FR x four quote styles), alone or between plain/u/f neighbours (implicit concatenation). The specification computes Parts: merged text pieces (also across concatenated literals), fields with expression source, conversion code (repr default of the '=' form) and spec pieces, and the exact echoed text. TLC enumerates every body (all 109 items up to 2; 14 core items up to 3 quick / 4 thorough). Each case is validated against CPython's tree of the same source (0 disagreements), then the parser's JoinedStr must be exactly Parts and every field expression's tree, ranges included, must equal the expression parsed on its own moved to the byte offset of its text in the file (literal placed after a non-ASCII comment line inside 'x = (...)'). FStringScan.tla is the scanner itself as a machine (mirror of parse_fstring / parse_formatted_value / parse_spec: delimiter stack, two-character operators, conversion and '=' detection at depth 0, spec re-entry one level deeper, inner strings, doubled braces at top level only, every error exit); TLC checks ScanTotal and PartsShape on every body up to 4 (quick) / 5 (thorough) characters over a 15-character alphabet and emits the outcome of each; the parser must return exactly that outcome (same FStringErrorType, or the same parts), and CPython must accept exactly the bodies whose scan succeeds with well-formed expressions.",
    "design_ref": "DESIGN.md section 6 C07",
    "note": "Pre-PEP 701 rules (CPython 3.11 is the reference): an unparenthesised tuple in a field has the extent of the surrounding braces in the reference too; expressions with backslashes or the literal's own quote are outside the reference language; ranges of literal pieces are not compared.",
    "technique": "TLA+ generative specification of f-string bodies with the reference decomposition computed in the spec, and a TLA+ mirror of the field scanner model-checked and enumerated over all short bodies; CPython cross-validation; decomposition, outcomes and field-expression trees/ranges replayed into the parser",
}
CLAIMED["C04"] = {
    "text": "PyGen.tla's builder is extended with constructors for exactly one deliberately invalid construct per program (state variable mut = the broken rule): 12 malformed number shapes, 10 malformed string/bytes forms (unterminated, bad \\x/\\u/\\U/\\N, non-ASCII bytes, bytes/text mixing in three orders), 16 malformed f-strings (one per FStringErrorType path), unstartable characters, junk after a continuation backslash, four mismatched bracket pairs, parenthesised lone * and **, six bad call argument lists and three bad class headers, eleven bad parameter lists (duplicates across every parameter kind, default order, bare star) for def, async def and lambda, and 'as _' patterns; the ordinary constructors build every program of three sub-languages around the invalid construct, so each rule is exercised at every site (operands, arguments, subscripts, lambda bodies and defaults, decorators, class bases, returns annotations, statement positions and nested blocks, sequence/or/class/mapping patterns). RuleKinds(rule) gives the error kinds that name the rule. Every mutated program must be rejected by CPython (parser, or compiler message for the two rules CPython checks later; validates the catalogue), and by the parser with a kind in RuleKinds and an offset inside the offending construct's logical line (from the specification's range marks). Lexer-level rules reuse Lexer.tla: for every class string (five alphabets incl. an indentation alphabet up to 7/8 characters) whose first error the machine predicts (NestingError, IndentationError, TabError, TabsAfterSpaces, UnrecognizedToken, LineContinuationError, Eof, number and string errors) lex must report that kind at that offset and parse must reject with it. Every erroneous literal of StrLit.tla must be rejected with a string/unicode error. FStringScan.tla (the f-string scanner as a machine) predicts the outcome, error kind included, of every field body up to 4/5 characters over its alphabet; the parser must report exactly that.",
    "design_ref": "DESIGN.md section 6 C04",
    "note": "Quick tier strides the mutated programs to 40000 per sub-language; known finding F-C04-1 ('*, **kw' accepted; pinned by existing tests).",
    "technique": "TLA+ generative grammar with single-violation constructors and a rule -> error-kind table, explored exhaustively by TLC; TLA+ lexer machine predicting the first error of every class string; CPython cross-validation of the catalogue; replay into lex/parse",
}
NOT_YET = {}

def main():
    props = [json.loads(l)["id"] for l in open(os.path.join(ROOT, "properties.jsonl"))]
    checks = []
    for pid in props:
        if pid not in CLAIMED:
            continue
        c = CLAIMED[pid]
        checks.append({
            "property_id": pid,
            "quick_cmd": "bin/check %s --tier quick" % pid,
            "thorough_cmd": "bin/check %s --tier thorough" % pid,
            "evidence_file": "/verif/evidence/%s.json" % pid,
            "replay_cmd_template": "bin/check %s --replay {path}" % pid,
            "engine": "tlc+vharness",
            "level_claimed": {"category": "model_checking", "text": c["text"], "design_ref": c["design_ref"]},
            "level_note": c["note"],
            "technique": c["technique"],
        })
    na = [{"property_id": pid, "reason": NOT_YET.get(pid, "specification and conformance harness for this property not built yet in this tree (planned: see DESIGN.md section 6); no check is registered so nothing is claimed")}
          for pid in props if pid not in CLAIMED]
    m = {
        "version": 1,
        "setup_cmd": "bin/setup",
        "hooks": {
            "guard": "--cfg rustpython_parser_verif",
            "enable": "harness/.cargo/config.toml passes rustflags [--cfg rustpython_parser_verif] to the path dependencies on /repo; checks build /repo's working tree through /verif/harness",
            "baseline_off_cmd": "cd /repo && cargo test --workspace --no-fail-fast --offline",
            "source_commits": json.load(open(os.path.join(ROOT, "hooks.json")))["source_commits"] if os.path.exists(os.path.join(ROOT, "hooks.json")) else [],
            "add_only": True,
        },
        "engines": [
            {"name": "tlc+vharness", "path": "/verif/tools/vcheck.py",
             "serves_properties": [c["property_id"] for c in checks],
             "kind_free_text": "explicit TLA+ specifications (spec/) model-checked with TLC; TLC-generated behaviours replayed into the real code through the Rust harness (harness/); traces recorded from the real code validated by TLC trace specifications"}
        ],
        "checks": checks,
        "not_applicable": na,
        "notes": "Exit codes: 0 held / known findings only, 1 VIOLATION, 2 tool error. KNOWN_FINDINGS.json lists recorded genuine defects and fixed ones.",
    }
    with open(os.path.join(ROOT, "MANIFEST.json"), "w") as f:
        json.dump(m, f, indent=1)
    print("MANIFEST.json: %d checks, %d not_applicable" % (len(checks), len(na)))

if __name__ == "__main__":
    main()

"""Normalised tree shape ("N-shape") shared by the specification (PyGen.tla), the implementation (canonical
Debug projection of the Rust tree) and the reference (CPython's ast).

  node      {"k": Kind, <fields by their Python ast names>, "range": [start, end] (when known)}
  lists     Python lists;  absent optional -> None;  identifiers -> str
  constants {"k": "Constant", "value": V, "kind": None | "u"} with
            V = {"t": "int", "v": "<decimal digits>"} | {"t": "float", "v": repr} | {"t": "complex", "v": repr(imag)}
              | {"t": "str", "v": text} | {"t": "bytes", "v": [ints]} | {"t": "bool", "v": bool} | {"t": "None"} | {"t": "Ellipsis"}
  parameters are kept in this parser's form (defaults stored on each parameter): the documented difference.
"""
import ast as pyast

RENAME = {"type_": "type"}
DROP = {"_t", "_k", "type_comment", "type_ignores"}


def _ident(v):
    if isinstance(v, dict) and v.get("_k") == "Identifier":
        return v["_a"][0]
    return v


def _const(v):
    """Rust Constant debug projection -> V"""
    if v is None:
        return {"t": "None"}
    if v == "Ellipsis":
        return {"t": "Ellipsis"}
    k = v.get("_k")
    a = v.get("_a", [None])[0] if "_a" in v else None
    if k == "Bool":
        return {"t": "bool", "v": a}
    if k == "Str":
        return {"t": "str", "v": a}
    if k == "Bytes":
        return {"t": "bytes", "v": a}
    if k == "Int":
        return {"t": "int", "v": str(a["_big"]) if isinstance(a, dict) else str(a)}
    if k == "Float":
        return {"t": "float", "v": _fnorm(a)}
    if k == "Tuple":
        return {"t": "tuple", "v": [_const(x) for x in a]}
    if v.get("_t") == "Complex" or k == "Complex":
        return {"t": "complex", "v": [_fnorm(v.get("real")), _fnorm(v.get("imag"))]}
    return {"t": "?", "v": v}


def _fnorm(a):
    """float debug text -> canonical Python repr (floats are compared through float())"""
    if isinstance(a, dict):
        a = a.get("_f", a)
    if isinstance(a, (int, float)):
        return repr(float(a))
    try:
        return repr(float(str(a).replace("NaN", "nan")))
    except ValueError:
        return str(a)


def from_rust(t):
    if isinstance(t, list):
        return [from_rust(x) for x in t]
    if not isinstance(t, dict):
        return t
    if t.get("_k") == "Identifier":
        return t["_a"][0]
    if t.get("_k") == "Int" and "_a" in t and "_t" not in t:
        a = t["_a"][0]
        return int(a["_big"]) if isinstance(a, dict) else a          # e.g. ImportFrom.level
    kind = t.get("_k") or t.get("_t")
    kind = {"Alias": "alias", "Keyword": "keyword", "Arg": "arg", "ArgWithDefault": "arg_with_default", "Arguments": "arguments",
            "MatchCase": "match_case", "WithItem": "withitem", "Comprehension": "comprehension", "ExceptHandler": "ExceptHandler",
            "TypeVar": "TypeVar", "ParamSpec": "ParamSpec", "TypeVarTuple": "TypeVarTuple"}.get(kind, kind)
    out = {"k": kind}
    for f, v in t.items():
        if f in DROP:
            continue
        f2 = RENAME.get(f, f)
        if f == "range":
            if isinstance(v, list):
                out["range"] = v
            continue
        if kind == "Constant" and f == "value":
            out["value"] = _const(v)
        elif kind == "MatchSingleton" and f == "value":
            out["value"] = _const(v)
        elif f == "conversion":
            out[f2] = {None: -1, "Str": 115, "Repr": 114, "Ascii": 97}.get(v, v)
        elif f == "ops":
            out[f2] = v
        else:
            out[f2] = from_rust(v)
    return out


# ---------------------------------------------------------------------------------------------------------------
def _line_starts(src_bytes):
    starts = [0]
    i = 0
    n = len(src_bytes)
    while i < n:
        c = src_bytes[i]
        if c == 0x0A:
            starts.append(i + 1)
        elif c == 0x0D:
            if i + 1 < n and src_bytes[i + 1] == 0x0A:
                i += 1
            starts.append(i + 1)
        i += 1
    return starts


class CPy:
    def __init__(self, src):
        self.b = src.encode("utf-8", "surrogatepass")
        self.starts = _line_starts(self.b)

    def off(self, line, col):
        return self.starts[line - 1] + col

    def rng(self, n):
        if hasattr(n, "lineno") and getattr(n, "end_lineno", None) is not None:
            return [self.off(n.lineno, n.col_offset), self.off(n.end_lineno, n.end_col_offset)]
        return None

    def const(self, v, kind=None):
        if v is None:
            return {"t": "None"}
        if v is Ellipsis:
            return {"t": "Ellipsis"}
        if isinstance(v, bool):
            return {"t": "bool", "v": v}
        if isinstance(v, int):
            return {"t": "int", "v": str(v)}
        if isinstance(v, float):
            return {"t": "float", "v": repr(v)}
        if isinstance(v, complex):
            return {"t": "complex", "v": [repr(v.real), repr(v.imag)]}
        if isinstance(v, str):
            # a lone surrogate is stored as U+FFFD by this parser (documented difference)
            return {"t": "str", "v": "".join("�" if 0xD800 <= ord(c) <= 0xDFFF else c for c in v)}
        if isinstance(v, bytes):
            return {"t": "bytes", "v": list(v)}
        return {"t": "?", "v": repr(v)}

    def arguments(self, a):
        pos = list(a.posonlyargs) + list(a.args)
        defaults = [None] * (len(pos) - len(a.defaults)) + list(a.defaults)

        def awd(arg, d):
            return {"k": "arg_with_default", "def": self.conv(arg), "default": self.conv(d) if d is not None else None}
        np = len(a.posonlyargs)
        return {"k": "arguments",
                "posonlyargs": [awd(x, d) for x, d in zip(pos[:np], defaults[:np])],
                "args": [awd(x, d) for x, d in zip(pos[np:], defaults[np:])],
                "vararg": self.conv(a.vararg) if a.vararg else None,
                "kwonlyargs": [awd(x, d) for x, d in zip(a.kwonlyargs, a.kw_defaults)],
                "kwarg": self.conv(a.kwarg) if a.kwarg else None}

    def conv(self, n):
        if isinstance(n, list):
            return [self.conv(x) for x in n]
        if not isinstance(n, pyast.AST):
            return n
        kind = type(n).__name__
        if kind == "arguments":
            return self.arguments(n)
        out = {"k": kind}
        r = self.rng(n)
        if r is not None and kind not in ("Module", "Expression", "Interactive"):
            out["range"] = r
        if kind == "Constant":
            out["value"] = self.const(n.value)
            out["kind"] = n.kind
            return out
        if kind == "MatchSingleton":
            out["value"] = self.const(n.value)
            return out
        for f in n._fields:
            if f in ("type_comment", "type_ignores"):
                continue
            v = getattr(n, f, None)
            if f in ("ctx",):
                out[f] = type(v).__name__
            elif f == "op":
                out[f] = type(v).__name__
            elif f == "ops":
                out[f] = [type(x).__name__ for x in v]
            elif kind == "ImportFrom" and f == "level":
                out[f] = v if v is not None else 0
            else:
                out[f] = self.conv(v)
        if kind in ("FunctionDef", "AsyncFunctionDef", "ClassDef") and "type_params" not in out:
            out["type_params"] = []
        return out


def from_cpython(src, mode="exec"):
    """N-shape of CPython's tree for src, or None if CPython rejects it"""
    try:
        tree = pyast.parse(src, mode={"Module": "exec", "Expression": "eval", "Interactive": "exec"}.get(mode, mode))
    except (SyntaxError, ValueError, RecursionError, MemoryError):
        return None
    t = CPy(src).conv(tree)
    if mode == "Interactive":
        t["k"] = "Interactive"
    return t


def strip_ranges(t):
    if isinstance(t, dict):
        return {k: strip_ranges(v) for k, v in t.items() if k != "range"}
    if isinstance(t, list):
        return [strip_ranges(x) for x in t]
    return t


def tree_diff(a, b, path=()):
    """first difference: (path, a, b) or None"""
    if isinstance(a, dict) and isinstance(b, dict):
        if a.get("k") != b.get("k"):
            return (path, a.get("k"), b.get("k"))
        for k in sorted(set(a) | set(b)):
            if k not in a or k not in b:
                return (path + (k,), a.get(k, "<absent>"), b.get(k, "<absent>"))
            d = tree_diff(a[k], b[k], path + ((a.get("k"), k),))
            if d:
                return d
        return None
    if isinstance(a, list) and isinstance(b, list):
        if len(a) != len(b):
            return (path + ("<len>",), len(a), len(b))
        for i, (x, y) in enumerate(zip(a, b)):
            d = tree_diff(x, y, path)
            if d:
                return d
        return None
    if a != b:
        return (path, a, b)
    return None


def diff_signature(d, depth=2):
    path, a, b = d
    steps = [p for p in path if isinstance(p, tuple)]
    tail = [p for p in path if not isinstance(p, tuple)]
    s = ">".join("%s.%s" % st for st in steps[-depth:])
    if tail:
        s += ":" + str(tail[-1])
    return s

------------------------------- MODULE NumLit -------------------------------
(* C06 -- numeric literals: which texts are integer, float and imaginary literals, and what they denote.

   The lexical grammar of Python's numeric literals as a deterministic automaton over a character alphabet that has
   every role (zero, a binary / octal / decimal-only digit, underscore, point, exponent letter, signs, the imaginary
   suffix, the three radix letters, hexadecimal letters).  The machine appends a character only while the automaton
   stays alive, so TLC enumerates exactly the viable prefixes; every accepting state is a literal.
   For each literal the specification gives its class, its radix and its cleaned text (prefix and underscores
   removed); the denoted value is the number the cleaned digits spell in that radix (integers, exactly) or the
   IEEE-754 double nearest to the cleaned decimal text (floats; the imaginary part of imaginary literals).
   TLC integers are 32-bit, so the arithmetic of that last step is done by the reference implementation in the
   replay (int(text, radix) / float(text)); the structure -- acceptance, class, radix, where underscores may stand,
   what is a digit -- is decided here.
   M: sanity invariants of the automaton (underscores only between digits, at most one point and exponent, a
      leading zero only in zero, floats and imaginaries).  G: every literal up to MaxLen is emitted. *)
EXTENDS Naturals, Sequences, TLC, Json

CONSTANTS MaxLen, Emit,
          AllStrings   \* also follow characters that kill the automaton: every string over the alphabet is visited

VARIABLES text, st, done
vars == <<text, st, done>>

Dec == {"0", "1", "7", "9"}
NonZero == {"1", "7", "9"}
OctD == {"0", "1", "7"}
BinD == {"0", "1"}
HexD == Dec \cup {"a", "f", "e", "b"}          \* e and b are letters with a second role
Alphabet == Dec \cup {"_", ".", "e", "+", "-", "j", "x", "o", "b", "a", "f"}

Dead == "dead"
Step(s, c) ==
  CASE s = "S0" -> (IF c = "0" THEN "Z" ELSE IF c \in NonZero THEN "D" ELSE IF c = "." THEN "P0" ELSE Dead)
    [] s = "Z" -> (CASE c = "0" -> "Z0" [] c = "_" -> "ZU" [] c = "x" -> "X0" [] c = "o" -> "O0" [] c = "b" -> "B0" [] c = "." -> "F"
                     [] c = "e" -> "E0" [] c = "j" -> "J" [] c \in NonZero -> "LZ" [] OTHER -> Dead)
    [] s = "Z0" -> (CASE c = "0" -> "Z0" [] c = "_" -> "ZU" [] c = "." -> "F" [] c = "e" -> "E0" [] c = "j" -> "J" [] c \in NonZero -> "LZ" [] OTHER -> Dead)
    [] s = "ZU" -> (IF c = "0" THEN "Z0" ELSE IF c \in NonZero THEN "LZ" ELSE Dead)
    [] s = "LZ" -> (CASE c \in Dec -> "LZ" [] c = "_" -> "LZU" [] c = "." -> "F" [] c = "e" -> "E0" [] c = "j" -> "J" [] OTHER -> Dead)
    [] s = "LZU" -> (IF c \in Dec THEN "LZ" ELSE Dead)
    [] s = "D" -> (CASE c \in Dec -> "D" [] c = "_" -> "DU" [] c = "." -> "F" [] c = "e" -> "E0" [] c = "j" -> "J" [] OTHER -> Dead)
    [] s = "DU" -> (IF c \in Dec THEN "D" ELSE Dead)
    [] s = "X0" -> (IF c \in HexD THEN "X" ELSE IF c = "_" THEN "XU" ELSE Dead)
    [] s = "X" -> (IF c \in HexD THEN "X" ELSE IF c = "_" THEN "XU" ELSE Dead)
    [] s = "XU" -> (IF c \in HexD THEN "X" ELSE Dead)
    [] s = "O0" -> (IF c \in OctD THEN "O" ELSE IF c = "_" THEN "OU" ELSE Dead)
    [] s = "O" -> (IF c \in OctD THEN "O" ELSE IF c = "_" THEN "OU" ELSE Dead)
    [] s = "OU" -> (IF c \in OctD THEN "O" ELSE Dead)
    [] s = "B0" -> (IF c \in BinD THEN "B" ELSE IF c = "_" THEN "BU" ELSE Dead)
    [] s = "B" -> (IF c \in BinD THEN "B" ELSE IF c = "_" THEN "BU" ELSE Dead)
    [] s = "BU" -> (IF c \in BinD THEN "B" ELSE Dead)
    [] s = "P0" -> (IF c \in Dec THEN "FD" ELSE Dead)
    [] s = "F" -> (CASE c \in Dec -> "FD" [] c = "e" -> "E0" [] c = "j" -> "J" [] OTHER -> Dead)
    [] s = "FD" -> (CASE c \in Dec -> "FD" [] c = "_" -> "FDU" [] c = "e" -> "E0" [] c = "j" -> "J" [] OTHER -> Dead)
    [] s = "FDU" -> (IF c \in Dec THEN "FD" ELSE Dead)
    [] s = "E0" -> (IF c \in {"+", "-"} THEN "ES" ELSE IF c \in Dec THEN "ED" ELSE Dead)
    [] s = "ES" -> (IF c \in Dec THEN "ED" ELSE Dead)
    [] s = "ED" -> (CASE c \in Dec -> "ED" [] c = "_" -> "EDU" [] c = "j" -> "J" [] OTHER -> Dead)
    [] s = "EDU" -> (IF c \in Dec THEN "ED" ELSE Dead)
    [] OTHER -> Dead

Class(s) == CASE s \in {"Z", "Z0", "D", "X", "O", "B"} -> "int" [] s \in {"F", "FD", "ED"} -> "float" [] s = "J" -> "imag" [] OTHER -> "none"
Radix(s) == CASE s = "X" -> 16 [] s = "O" -> 8 [] s = "B" -> 2 [] OTHER -> 10

Init == text = <<>> /\ st = "S0" /\ done = FALSE
Grow == ~done /\ Len(text) < MaxLen /\ \E c \in Alphabet : (AllStrings \/ Step(st, c) # Dead) /\ text' = Append(text, c) /\ st' = Step(st, c) /\ UNCHANGED done
Stop == ~done /\ text # <<>> /\ (AllStrings \/ Class(st) # "none") /\ done' = TRUE /\ UNCHANGED <<text, st>>
Next == Grow \/ Stop
Spec == Init /\ [][Next]_vars

(* ---------------------------------------------------------------- sanity of the automaton *)
Count(c) == Len(SelectSeq(text, LAMBDA x : x = c))
IsDigitHere(i) == i >= 1 /\ i <= Len(text) /\ (text[i] \in Dec \/ (Radix(st) = 16 /\ text[i] \in HexD) \/ (st \in {"X0", "XU", "X"} /\ text[i] \in HexD))
\* an underscore stands between two digits, or right after the radix prefix
UnderscoresOK == (done /\ Class(st) # "none") => \A i \in 1..Len(text) : text[i] = "_" =>
                    /\ i < Len(text) /\ IsDigitHere(i + 1)
                    /\ (IsDigitHere(i - 1) \/ (i = 3 /\ text[1] = "0" /\ text[2] \in {"x", "o", "b"}))
ShapeOK == (done /\ Class(st) # "none") => /\ Count(".") <= 1
                   /\ (Class(st) = "int" => Count(".") = 0 /\ Count("j") = 0 /\ Count("+") + Count("-") = 0)
                   /\ (Class(st) = "imag" => text[Len(text)] = "j")
                   /\ (Radix(st) = 10 /\ Class(st) = "int" /\ text[1] = "0" => \A i \in 1..Len(text) : text[i] \in {"0", "_"})

(* ---------------------------------------------------------------- emission *)
RECURSIVE Cat(_)
Cat(ss) == IF ss = <<>> THEN "" ELSE ss[1] \o Cat(Tail(ss))
Clean == IF Class(st) = "none" THEN "" ELSE
         LET body == IF Radix(st) # 10 THEN SubSeq(text, 3, Len(text)) ELSE IF Class(st) = "imag" THEN SubSeq(text, 1, Len(text) - 1) ELSE text
         IN Cat(SelectSeq(body, LAMBDA x : x # "_"))
EmitOK == (Emit /\ done) => PrintT("REPLAY" \o ToJson([text |-> Cat(text), class |-> Class(st), radix |-> Radix(st), clean |-> Clean]))
=============================================================================

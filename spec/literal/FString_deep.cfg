CONSTANTS
  MaxItems = 4
  Emit = TRUE
  Items <- ItemsCore
  Forms <- FormsCore
SPECIFICATION Spec
INVARIANTS MergeOK EmitOK
CHECK_DEADLOCK FALSE

CONSTANTS
  MaxLen = 2
  Emit = TRUE
  Alphabet <- AlphaSweep
  Forms <- FormsAll
SPECIFICATION Spec
INVARIANTS RawKeepsAll NoLongerThanSource EmitOK
CHECK_DEADLOCK FALSE

CONSTANTS
  MaxLen = 5
  Emit = TRUE
  Alphabet = {"{", "}", "a", "!", "r", "x", ":", "=", "(", ")", "[", "]", "'", " ", "<"}
SPECIFICATION Spec
INVARIANTS ScanTotal PartsShape EmitOK
CHECK_DEADLOCK FALSE

CONSTANTS
  MaxLen = 4
  Emit = TRUE
  Alphabet <- AlphaDeep
  Forms <- FormsCore
SPECIFICATION Spec
INVARIANTS RawKeepsAll NoLongerThanSource EmitOK
CHECK_DEADLOCK FALSE

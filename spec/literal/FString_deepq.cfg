CONSTANTS
  MaxItems = 3
  Emit = TRUE
  Items <- ItemsCore
  Forms <- FormsCore
SPECIFICATION Spec
INVARIANTS MergeOK EmitOK
CHECK_DEADLOCK FALSE

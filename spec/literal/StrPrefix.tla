------------------------------ MODULE StrPrefix ------------------------------
(* C06 / C04 -- which letter sequences are string-literal prefixes.
   Every sequence of up to three letters over {r b u f, their capitals, and a letter that is no prefix letter} is put
   in front of 'x': it is one literal exactly when the sequence, lower-cased, is one of the prefixes below; its kind
   (text / bytes / formatted), rawness and the u marker follow from the letters. *)
EXTENDS Naturals, Sequences, TLC, Json
CONSTANTS Emit
VARIABLES pre, done
vars == <<pre, done>>
Letters == {"r", "b", "u", "f", "R", "B", "U", "F", "a"}
Lower(c) == CASE c = "R" -> "r" [] c = "B" -> "b" [] c = "U" -> "u" [] c = "F" -> "f" [] OTHER -> c
RECURSIVE Cat(_)
Cat(ss) == IF ss = <<>> THEN "" ELSE ss[1] \o Cat(Tail(ss))
LowerSeq(ss) == [j \in 1..Len(ss) |-> Lower(ss[j])]
Valid == {<<>>, <<"r">>, <<"u">>, <<"b">>, <<"f">>, <<"b", "r">>, <<"r", "b">>, <<"f", "r">>, <<"r", "f">>}
IsPrefix(ss) == LowerSeq(ss) \in Valid
Has(ss, c) == \E j \in 1..Len(ss) : Lower(ss[j]) = c
Kind(ss) == IF Has(ss, "b") THEN "bytes" ELSE IF Has(ss, "f") THEN "fstring" ELSE "str"
Init == pre = <<>> /\ done = FALSE
Grow == ~done /\ Len(pre) < 3 /\ \E c \in Letters : pre' = Append(pre, c) /\ UNCHANGED done
Stop == ~done /\ done' = TRUE /\ UNCHANGED pre
Next == Grow \/ Stop
Spec == Init /\ [][Next]_vars
\* sanity: no valid prefix repeats a letter, u combines with nothing
Sane == done /\ IsPrefix(pre) => /\ \A i, j \in 1..Len(pre) : i # j => Lower(pre[i]) # Lower(pre[j])
                                 /\ (Has(pre, "u") => Len(pre) = 1)
EmitOK == (Emit /\ done) => PrintT("REPLAY" \o ToJson([prefix |-> Cat(pre), valid |-> IsPrefix(pre), kind |-> Kind(pre), raw |-> Has(pre, "r"),
                                                        u |-> (pre = <<"u">>)]))
=============================================================================

CONSTANTS
  MaxItems = 2
  Emit = TRUE
  Items <- ItemsAll
  Forms <- FormsAll
SPECIFICATION Spec
INVARIANTS MergeOK EmitOK
CHECK_DEADLOCK FALSE

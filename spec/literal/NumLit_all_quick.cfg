CONSTANTS
  MaxLen = 4
  Emit = TRUE
  AllStrings = TRUE
SPECIFICATION Spec
INVARIANTS UnderscoresOK ShapeOK EmitOK
CHECK_DEADLOCK FALSE

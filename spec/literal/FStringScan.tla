----------------------------- MODULE FStringScan -----------------------------
(* C07 / C04 -- the f-string scanner as a machine (mirror of parser/src/string.rs parse_fstring,
   parse_formatted_value, parse_spec), run on every body over a character alphabet.

   FString.tla says what an f-string *means* (generative definition).  This module says what the implementation's
   scanner *does*, character by character: the delimiter stack, the two-character operators that keep '!' and '='
   from ending the expression, conversion and '=' detection only at depth 0, the format spec (whose nested fields
   re-enter the scanner one level deeper), string literals inside the expression, doubled braces only at the top
   level, and every error exit with its FStringErrorType.
   Result of a body: Ok(parts) -- text pieces and fields (expression text, conversion, spec parts) -- or Err(kind).
   TLC enumerates every body up to MaxLen over the alphabet.
   M: ScanTotal (the scan always ends with Ok or a listed error kind, never runs past the input) and PartsShape
      (no two adjacent text pieces after merging; a field's expression is never blank).
   G: each body is replayed: the parser must return exactly the mirror's outcome (same error kind, or the same
      parts); where the mirror says Ok the reference (CPython) must accept the same text iff every field expression
      is an expression -- a difference there is a behaviour of the implementation that the reference does not share
      and is reported under the property it belongs to (C07 accepted forms, C04 rejected forms). *)
EXTENDS Naturals, Sequences, TLC, Json

CONSTANTS Alphabet, MaxLen, Emit

VARIABLES body, done
vars == <<body, done>>

Txt(s) == [k |-> "text", v |-> s, expr |-> "", conv |-> "", has |-> FALSE, spec |-> <<>>]
Fld(e, c, has, sp) == [k |-> "field", v |-> "", expr |-> e, conv |-> c, has |-> has, spec |-> sp]
\* log = the expression texts of the fields closed so far, in closing order: the implementation parses an expression the
\* moment its field is closed, so a malformed expression is reported before any later scanning error
Ok(parts, pos, log) == [err |-> "", parts |-> parts, pos |-> pos, log |-> log]
Err(kind, pos, log) == [err |-> kind, parts |-> <<>>, pos |-> pos, log |-> log]

IsBlank(s) == s \in {" "}
\* expression.trim().is_empty() on the characters collected so far
RECURSIVE AllBlank(_)
AllBlank(cs) == cs = <<>> \/ (IsBlank(cs[1]) /\ AllBlank(Tail(cs)))
RECURSIVE Cat(_)
Cat(cs) == IF cs = <<>> THEN "" ELSE cs[1] \o Cat(Tail(cs))
At(cs, i) == IF i <= Len(cs) THEN cs[i] ELSE "EOF"
Opener(c) == CASE c = ")" -> "(" [] c = "]" -> "[" [] c = "}" -> "{"

RECURSIVE Field(_, _, _, _, _, _, _, _, _, _), FStr(_, _, _, _, _, _), SpecScan(_, _, _, _, _, _), Str(_, _, _, _, _)

\* a string literal inside the expression: the opening quote (at i-1) has been consumed; a literal that opens with three
\* quotes ends at the same three quotes.  need = number of closing quotes still wanted, run = closing quotes seen in a row.
\* returns the index after the literal, or 0 when the input ends first
Str(cs, i, need, run, acc) ==
  IF run = need THEN [pos |-> i, text |-> acc]
  ELSE IF i > Len(cs) THEN [pos |-> 0, text |-> acc]
  ELSE Str(cs, i + 1, need, IF cs[i] = "'" THEN run + 1 ELSE 0, Append(acc, cs[i]))
StrAt(cs, i) == IF At(cs, i) = "'" /\ At(cs, i + 1) = "'" THEN Str(cs, i + 2, 3, 0, <<"'", "'", "'">>) ELSE Str(cs, i, 1, 0, <<"'">>)

\* parse_formatted_value: i is the index of the next character, the '{' has been consumed
Field(cs, i, nested, expr, delims, conv, sd, trail, spec, log) ==
  IF i > Len(cs) THEN Err("UnclosedLbrace", i, log)
  ELSE LET ch == cs[i]
           nx == At(cs, i + 1) IN
  IF ch \in {"!", "=", ">", "<"} /\ nx = "="
    THEN Field(cs, i + 2, nested, expr \o <<ch, "=">>, delims, conv, sd, trail, spec, log)
  ELSE IF ch = "!" /\ delims = <<>>                                            \* (nx # "=" here)
    THEN IF AllBlank(expr) THEN Err("EmptyExpression", i, log)
         ELSE IF nx = "EOF" THEN Err("UnclosedLbrace", i, log)
         ELSE IF nx \notin {"s", "a", "r"} THEN Err("InvalidConversionFlag", i, log)
         ELSE IF At(cs, i + 2) \notin {"}", ":"} THEN Err("UnclosedLbrace", i, log)
         ELSE Field(cs, i + 2, nested, expr, delims, nx, sd, trail, spec, log)
  ELSE IF ch = "=" /\ delims = <<>>                                            \* (nx # "=" here)
    THEN IF AllBlank(expr) THEN Err("EmptyExpression", i, log)
         ELSE IF sd THEN Err("UnclosedLbrace", i, log)
         ELSE Field(cs, i + 1, nested, expr, delims, conv, TRUE, trail, spec, log)
  ELSE IF ch = ":" /\ delims = <<>>
    THEN LET r == SpecScan(cs, i + 1, nested, <<>>, "", log) IN
         IF r.err # "" THEN r ELSE Field(cs, r.pos, nested, expr, delims, conv, sd, trail, [has |-> TRUE, parts |-> r.parts], r.log)
  ELSE IF ch \in {"(", "{", "["} /\ ~sd
    THEN Field(cs, i + 1, nested, Append(expr, ch), Append(delims, ch), conv, sd, trail, spec, log)
  ELSE IF ch \in {")", "]"} \/ (ch = "}" /\ delims # <<>>)
    THEN IF delims = <<>> THEN Err("Unmatched", i, log)
         ELSE IF delims[Len(delims)] = Opener(ch) THEN Field(cs, i + 1, nested, Append(expr, ch), SubSeq(delims, 1, Len(delims) - 1), conv, sd, trail, spec, log)
         ELSE Err("MismatchedDelimiter", i, log)
  ELSE IF ch = "}"
    THEN IF AllBlank(expr) THEN Err("EmptyExpression", i, log)
         ELSE LET e == Cat(expr)
                  c == IF sd /\ conv = "" /\ ~spec.has THEN "r" ELSE conv
                  f == Fld(e, c, spec.has, spec.parts) IN
              Ok(IF sd THEN <<Txt(e \o "="), Txt(Cat(trail)), f>> ELSE <<f>>, i + 1, Append(log, e))
  ELSE IF ch = "'" /\ ~sd
    THEN LET s == StrAt(cs, i + 1) IN
         IF s.pos = 0 THEN Err("UnterminatedString", i, log)
         ELSE Field(cs, s.pos, nested, expr \o s.text, delims, conv, sd, trail, spec, log)
  ELSE IF IsBlank(ch) /\ sd
    THEN Field(cs, i + 1, nested, expr, delims, conv, sd, Append(trail, ch), spec, log)
  ELSE IF ch = "\\" THEN Err("UnterminatedString", i, log)
  ELSE IF sd THEN Err("UnclosedLbrace", i, log)
  ELSE Field(cs, i + 1, nested, Append(expr, ch), delims, conv, sd, trail, spec, log)

\* parse_spec: literal characters up to '}' (not consumed); a '{' hands the rest to the scanner one level deeper
SpecScan(cs, i, nested, acc, piece, log) ==
  IF i > Len(cs) THEN Ok(IF piece = "" THEN acc ELSE Append(acc, Txt(piece)), i, log)
  ELSE IF cs[i] = "{"
    THEN LET acc2 == IF piece = "" THEN acc ELSE Append(acc, Txt(piece))
             r == FStr(cs, i, nested + 1, <<>>, "", log) IN
         IF r.err # "" THEN r ELSE SpecScan(cs, r.pos, nested, acc2 \o r.parts, "", r.log)
  ELSE IF cs[i] = "}" THEN Ok(IF piece = "" THEN acc ELSE Append(acc, Txt(piece)), i, log)
  ELSE SpecScan(cs, i + 1, nested, acc, piece \o cs[i], log)

\* parse_fstring
FStr(cs, i, nested, acc, piece, log) ==
  IF nested >= 2 THEN Err("ExpressionNestedTooDeeply", i, log)
  ELSE IF i > Len(cs) THEN Ok(IF piece = "" THEN acc ELSE Append(acc, Txt(piece)), i, log)
  ELSE LET ch == cs[i] IN
  IF ch = "{" THEN
       IF nested = 0 /\ At(cs, i + 1) = "{" THEN FStr(cs, i + 2, nested, acc, piece \o "{", log)
       ELSE IF nested = 0 /\ i + 1 > Len(cs) THEN Err("UnclosedLbrace", i, log)
       ELSE LET acc2 == IF piece = "" THEN acc ELSE Append(acc, Txt(piece))
                r == Field(cs, i + 1, nested, <<>>, <<>>, "", FALSE, <<>>, [has |-> FALSE, parts |-> <<>>], log) IN
            IF r.err # "" THEN r ELSE FStr(cs, r.pos, nested, acc2 \o r.parts, "", r.log)
  ELSE IF ch = "}" THEN
       IF nested > 0 THEN Ok(IF piece = "" THEN acc ELSE Append(acc, Txt(piece)), i, log)
       ELSE IF At(cs, i + 1) = "}" THEN FStr(cs, i + 2, nested, acc, piece \o "}", log)
       ELSE Err("SingleRbrace", i, log)
  ELSE FStr(cs, i + 1, nested, acc, piece \o ch, log)              \* (the alphabet has no backslash outside fields)

Scan(cs) == FStr(cs, 1, 0, <<>>, "", <<>>)

\* adjacent text pieces become one constant later (parse_strings); empty ones disappear
RECURSIVE Merge(_)
Merge(ps) == IF Len(ps) < 2 THEN ps
             ELSE IF ps[1].k = "text" /\ ps[2].k = "text" THEN Merge(<<Txt(ps[1].v \o ps[2].v)>> \o SubSeq(ps, 3, Len(ps)))
             ELSE <<[ps[1] EXCEPT !.spec = Merge(@)]>> \o Merge(Tail(ps))
RECURSIVE Clean(_)
Clean(ps) == LET m == Merge(ps) IN
             SelectSeq([j \in 1..Len(m) |-> IF m[j].k = "field" THEN [m[j] EXCEPT !.spec = Clean(@)] ELSE m[j]], LAMBDA p : ~(p.k = "text" /\ p.v = ""))

(* ---------------------------------------------------------------- machine *)
Init == body = <<>> /\ done = FALSE
Grow == ~done /\ Len(body) < MaxLen /\ \E c \in Alphabet : body' = Append(body, c) /\ UNCHANGED done
Stop == ~done /\ done' = TRUE /\ UNCHANGED body
Next == Grow \/ Stop
Spec == Init /\ [][Next]_vars

Kinds == {"", "UnclosedLbrace", "EmptyExpression", "InvalidConversionFlag", "Unmatched", "MismatchedDelimiter", "UnterminatedString",
          "ExpressionNestedTooDeeply", "SingleRbrace"}
ScanTotal == done => LET r == Scan(body) IN r.err \in Kinds /\ r.pos <= Len(body) + 1 /\ (r.err = "" => r.pos = Len(body) + 1)
RECURSIVE FieldsOK(_)
FieldsOK(ps) == \A j \in 1..Len(ps) : ps[j].k = "field" => (ps[j].expr # "" /\ FieldsOK(ps[j].spec))
PartsShape == done => LET r == Scan(body) IN r.err = "" =>
                 LET ps == Clean(r.parts) IN
                 /\ \A j \in 1..(Len(ps) - 1) : ~(ps[j].k = "text" /\ ps[j + 1].k = "text")
                 /\ FieldsOK(ps)

\* a body with a quote cannot stand in a literal delimited by that quote: the alphabet's quote is ', the literal uses "
EmitOK == (Emit /\ done) => LET r == Scan(body) IN
             PrintT("REPLAY" \o ToJson([body |-> Cat(body), err |-> r.err, parts |-> IF r.err = "" THEN Clean(r.parts) ELSE <<>>, log |-> r.log]))
=============================================================================

CONSTANTS
  MaxLen = 3
  Emit = TRUE
  Alphabet <- AlphaDeep
  Forms <- FormsAll
SPECIFICATION Spec
INVARIANTS RawKeepsAll NoLongerThanSource EmitOK
CHECK_DEADLOCK FALSE

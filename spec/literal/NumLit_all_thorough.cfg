CONSTANTS
  MaxLen = 5
  Emit = TRUE
  AllStrings = TRUE
SPECIFICATION Spec
INVARIANTS UnderscoresOK ShapeOK EmitOK
CHECK_DEADLOCK FALSE

CONSTANTS
  MaxLen = 2
  Emit = TRUE
  Alphabet <- AlphaDeep
  Forms <- FormsPrefix
SPECIFICATION Spec
INVARIANTS RawKeepsAll NoLongerThanSource EmitOK
CHECK_DEADLOCK FALSE

CONSTANTS
  Emit = TRUE
SPECIFICATION Spec
INVARIANTS Sane EmitOK
CHECK_DEADLOCK FALSE

CONSTANTS
  MaxLen = 7
  Emit = TRUE
SPECIFICATION Spec
INVARIANTS UnderscoresOK ShapeOK EmitOK
CHECK_DEADLOCK FALSE

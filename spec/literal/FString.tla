------------------------------- MODULE FString -------------------------------
(* C07 -- f-strings decompose into the reference literal parts and replacement fields.

   An f-string body is a sequence of items: literal items (plain text, a non-ASCII character, doubled braces,
   escapes incl. an octal one, a backslash before a brace) and replacement fields { expr [=] [!conv] [:spec] }.
   Field expressions come from a pool that contains every character the field scanner treats specially (brackets
   of all kinds, strings holding braces / colons / exclamation marks, comparison operators with '=', '!=',
   a walrus, a lambda, a nested f-string, a dict display needing the space after '{', tuples, a conditional);
   conversions, format specs (empty, plain, with nested fields, with an escape) and the self-documenting '=' form
   (with and without blanks around '=') are varied on a simple expression.
   A literal may be followed by a second literal (plain, u-prefixed or another f-string): implicit concatenation.

   The specification computes the reference decomposition:
       Parts     the flattened list of pieces: text pieces (adjacent ones merged, also across concatenated
                 literals) and fields (expression source, conversion code, spec pieces or none),
       the '=' form contributes its exact echoed text (expression, blanks, '=') to the text before the field and
       defaults the conversion to repr when neither a conversion nor a spec is given.
   The machine appends one item at a time (TLC visits every body up to MaxItems) and emits, for every literal form,
   the source as segments (so the replay knows the byte offset of every expression) and Parts.
   The replay validates Parts against CPython's tree of the same source and then requires the parser's JoinedStr to
   be exactly Parts, every field expression's tree to be the tree of the expression parsed on its own, moved to the
   expression's offset in the file. *)
EXTENDS Naturals, Sequences, FiniteSets, TLC, Json

CONSTANTS MaxItems, Forms, Items, Emit

VARIABLES body, done
vars == <<body, done>>

(* ---------------------------------------------------------------- items *)
\* literal items: src as written in a non-raw f-string, val = the text they denote, rawval = in a raw f-string
Lit(src, val, rawval) == [k |-> "lit", src |-> src, val |-> val, rawval |-> rawval]
LitItems == {Lit("a", "a", "a"), Lit(" ", " ", " "), Lit("<E9>", "<E9>", "<E9>"), Lit("{{", "{", "{"), Lit("}}", "}", "}"),
             Lit("\\n", "\n", "\\n"), Lit("\\101", "A", "\\101"), Lit("\\x41", "A", "\\x41"), Lit("\\\\", "\\", "\\\\"), Lit("\\N{BULLET}", "<2022>", "\\N{{BULLET}}"),
             Lit(":", ":", ":"), Lit("!", "!", "!"), Lit("=", "=", "="),
             \* line breaks inside the literal (triple-quoted forms only): every kind denotes LF
             Lit("\n", "\n", "\n"), Lit("\r\n", "\n", "\n"), Lit("\r", "\n", "\n")}
IsBreak(it) == it.k = "lit" /\ it.val = "\n" /\ it.src \in {"\n", "\r\n", "\r"}
\* (the raw form of \N{BULLET} is not a field in a raw f-string only if the braces are doubled: it is excluded from raw forms below)

\* field items: expression source, which quote character it contains, '=' form (with the blanks written before and
\* after '='), conversion, spec (source and pieces)
NoSpec == [has |-> FALSE, src |-> "", parts |-> <<>>]
FSpec(src, parts) == [has |-> TRUE, src |-> src, parts |-> parts]
Txt(s) == [k |-> "text", v |-> s]
Fld(e, conv, spec) == [k |-> "field", expr |-> e, conv |-> conv, spec |-> spec]
Field(expr, q, eq, pre, post, conv, spec) ==
   [k |-> "field", expr |-> expr, q |-> q, eq |-> eq, pre |-> pre, post |-> post, conv |-> conv, spec |-> spec]
Plain(expr, q) == Field(expr, q, FALSE, "", "", "", NoSpec)

ExprItems ==
   { Plain("a", "-"), Plain("a+b", "-"), Plain("a[1]", "-"), Plain("f(x, y)", "-"), Plain("a[1:2]", "-"), Plain(" {1: 2}[1]", "-"), Plain("[a][0]", "-"),
     Plain("a!=b", "-"), Plain("a<=b", "-"), Plain("a==b", "-"), Plain("a>=b", "-"), Plain("a > b", "-"), Plain("(a:=1)", "-"), Plain("(lambda: 1)", "-"),
     Plain("(lambda x: x)", "-"), Plain("a if b else c", "-"), Plain("a, b", "-"), Plain("*a,", "-"), Plain("(yield)", "-"), Plain("not a", "-"), Plain("a or b", "-"),
     Plain("a.b", "-"), Plain(" a ", "-"), Plain("<E9>", "-"), Plain("a['k']", "SQ"), Plain("a[\"k\"]", "DQ"), Plain("'}'", "SQ"), Plain("'{'", "SQ"), Plain("\":\"", "DQ"),
     Plain("'!'", "SQ"), Plain("'='", "SQ"), Plain("f'{b}'", "SQ"), Plain("f\"{b!r:>{w}}\"", "DQ"), Plain(" {'a': 1}['a']", "SQ"), Plain("a[b['c']]", "SQ"),
     Plain("(a, (b, [c, {d}]))", "-"), Plain("f(x)[0].y", "-"), Plain("a!=b!=c", "-"),
     \* triple-quoted strings inside the expression (they may contain the other quote and single quotes of their own kind)
     Plain("\"\"\"a\"b\"\"\"", "DQ3"), Plain("'''a'b'''", "SQ3"), Plain("\"\"\"}\"\"\"", "DQ3") }

Specs == { FSpec("", <<>>), FSpec(">10", <<Txt(">10")>>), FSpec("{w}", <<Fld("w", "", NoSpec)>>), FSpec(">{w}.{p}", <<Txt(">"), Fld("w", "", NoSpec), Txt("."), Fld("p", "", NoSpec)>>),
           FSpec("{w!r}x", <<Fld("w", "r", NoSpec), Txt("x")>>), FSpec("\\n", <<Txt("\n")>>), FSpec("<E9>=", <<Txt("<E9>=")>>), FSpec(" ", <<Txt(" ")>>), FSpec("%Y-%m", <<Txt("%Y-%m")>>) }
VaryItems ==
   { Field("a", "-", FALSE, "", "", c, s) : c \in {"", "s", "r", "a"}, s \in Specs \cup {NoSpec} } \cup
   { Field("a", "-", TRUE, pre, post, c, s) : pre \in {"", " "}, post \in {"", " "}, c \in {"", "s"}, s \in {NoSpec, FSpec(">10", <<Txt(">10")>>)} } \cup
   { Field("a+b", "-", TRUE, "", "", "", NoSpec), Field("a['k']", "SQ", TRUE, " ", "", "", NoSpec),
     \* any ASCII blank may stand around '=' and is echoed
     Field("a", "-", TRUE, "", "\t", "", NoSpec), Field("a", "-", TRUE, "\t", "  ", "", NoSpec), Field("a", "-", TRUE, " ", "\t ", "s", NoSpec) }

ItemsAll == LitItems \cup ExprItems \cup VaryItems
ItemsCore == {i \in LitItems : i.src \in {"a", "<E9>", "{{", "\\101", "\\n", "\r\n"}} \cup {i \in ExprItems : i.expr \in {"a", "a!=b", "a['k']", "f'{b}'", " {1: 2}[1]", "(a:=1)"}}
             \cup { Field("a", "-", FALSE, "", "", "r", FSpec(">{w}.{p}", <<Txt(">"), Fld("w", "", NoSpec), Txt("."), Fld("p", "", NoSpec)>>)),
                    Field("a", "-", TRUE, " ", " ", "", NoSpec), Field("a", "-", FALSE, "", "", "", FSpec("\\n", <<Txt("\n")>>)) }

(* ---------------------------------------------------------------- literal forms *)
Form(prefix, raw, q, triple) == [prefix |-> prefix, raw |-> raw, q |-> q, triple |-> triple]
FormsAll == {Form("f", FALSE, "SQ", FALSE), Form("f", FALSE, "DQ", FALSE), Form("F", FALSE, "SQ", TRUE), Form("f", FALSE, "DQ", TRUE),
             Form("rf", TRUE, "DQ", FALSE), Form("fR", TRUE, "SQ", FALSE), Form("Rf", TRUE, "DQ", TRUE), Form("FR", TRUE, "SQ", TRUE)}
FormsCore == {Form("f", FALSE, "SQ", FALSE), Form("f", FALSE, "DQ", TRUE), Form("rf", TRUE, "DQ", FALSE)}
QuoteText(f) == IF f.q = "SQ" THEN (IF f.triple THEN "'''" ELSE "'") ELSE (IF f.triple THEN "\"\"\"" ELSE "\"")

\* an item may stand in a literal of this form: an expression must not contain the literal's own quote character
\* (unless the literal is triple-quoted), and the named escape needs decoding
Fits(it, f) == IF it.k = "lit" THEN ~(f.raw /\ it.src = "\\N{BULLET}") /\ (IsBreak(it) => f.triple)
               ELSE CASE it.q = "-" -> TRUE
                      [] it.q \in {"SQ", "DQ"} -> it.q # f.q \/ f.triple
                      [] it.q = "SQ3" -> f.q # "SQ"            \* a triple-quoted string of the literal's own quote kind never fits
                      [] it.q = "DQ3" -> f.q # "DQ"

(* ---------------------------------------------------------------- the reference decomposition *)
ConvCode(it) == IF it.conv # "" THEN it.conv ELSE IF it.eq /\ ~it.spec.has THEN "r" ELSE ""
\* pieces of one item
Pieces(it, f) ==
  IF it.k = "lit" THEN <<Txt(IF f.raw THEN it.rawval ELSE it.val)>>
  ELSE (IF it.eq THEN <<Txt(it.expr \o it.pre \o "=" \o it.post)>> ELSE <<>>)
       \o <<Fld(it.expr \o (IF it.eq THEN it.pre ELSE ""), ConvCode(it), IF f.raw /\ it.spec.has /\ it.spec.src = "\\n" THEN FSpec(it.spec.src, <<Txt("\\n")>>) ELSE it.spec)>>
\* adjacent text pieces are one piece
RECURSIVE Merge(_)
Merge(ps) == IF Len(ps) < 2 THEN ps
             ELSE IF ps[1].k = "text" /\ ps[2].k = "text" THEN Merge(<<Txt(ps[1].v \o ps[2].v)>> \o SubSeq(ps, 3, Len(ps)))
             ELSE <<ps[1]>> \o Merge(Tail(ps))
RECURSIVE AllPieces(_, _)
AllPieces(its, f) == IF its = <<>> THEN <<>> ELSE Pieces(its[1], f) \o AllPieces(Tail(its), f)
DropEmpty(ps) == SelectSeq(ps, LAMBDA p : ~(p.k = "text" /\ p.v = ""))

(* ---------------------------------------------------------------- source segments *)
Seg(t, s) == [t |-> t, s |-> s]
ItemSegs(it, f) ==
  IF it.k = "lit" THEN <<Seg("text", it.src)>>
  ELSE <<Seg("text", "{"), Seg("expr", it.expr \o (IF it.eq THEN it.pre ELSE ""))>>
       \o <<Seg("text", (IF it.eq THEN "=" \o it.post ELSE "") \o (IF it.conv # "" THEN "!" \o it.conv ELSE "") \o (IF it.spec.has THEN ":" ELSE ""))>>
       \o (IF it.spec.has THEN <<Seg("spec", it.spec.src)>> ELSE <<>>) \o <<Seg("text", "}")>>
RECURSIVE BodySegs(_, _)
BodySegs(its, f) == IF its = <<>> THEN <<>> ELSE ItemSegs(its[1], f) \o BodySegs(Tail(its), f)
LiteralSegs(its, f) == <<Seg("text", f.prefix \o QuoteText(f))>> \o BodySegs(its, f) \o <<Seg("text", QuoteText(f))>>

(* ---------------------------------------------------------------- second literal (implicit concatenation) *)
Seconds == { [src |-> <<>>, parts |-> <<>>, f |-> TRUE],                                                  \* none
             [src |-> <<Seg("text", " ''")>>, parts |-> <<>>, f |-> FALSE],                               \* an empty literal adds nothing
             [src |-> <<Seg("text", " 'x'")>>, parts |-> <<Txt("x")>>, f |-> FALSE],
             [src |-> <<Seg("text", " u\"y\"")>>, parts |-> <<Txt("y")>>, f |-> FALSE],
             [src |-> <<Seg("text", " f'{"), Seg("expr", "c"), Seg("text", "}z'")>>, parts |-> <<Fld("c", "", NoSpec), Txt("z")>>, f |-> TRUE],
             [src |-> <<Seg("text", "\n  'x{{'")>>, parts |-> <<Txt("x{{")>>, f |-> FALSE] }
Firsts == { [src |-> <<>>, parts |-> <<>>], [src |-> <<Seg("text", "\"\" ")>>, parts |-> <<>>], [src |-> <<Seg("text", "'p{q}' ")>>, parts |-> <<Txt("p{q}")>>], [src |-> <<Seg("text", "u'p' ")>>, parts |-> <<Txt("p")>>] }

(* ---------------------------------------------------------------- machine *)
Init == body = <<>> /\ done = FALSE
\* (a CR item directly followed by an LF item would be the CR LF item)
Grow == ~done /\ Len(body) < MaxItems /\ \E it \in Items :
           /\ ~(body # <<>> /\ body[Len(body)].k = "lit" /\ body[Len(body)].src = "\r" /\ it.k = "lit" /\ it.src = "\n")
           /\ body' = Append(body, it) /\ UNCHANGED done
Stop == ~done /\ done' = TRUE /\ UNCHANGED body
Next == Grow \/ Stop
Spec == Init /\ [][Next]_vars

FitForms == {f \in Forms : \A j \in 1..Len(body) : Fits(body[j], f)}
\* a body whose text pieces would glue '{' '{' or '}' '}' differently is avoided: a lone "{{" item followed by a field is fine
Parts(f, first, second) == DropEmpty(Merge(first.parts \o AllPieces(body, f) \o second.parts))

\* sanity: merging leaves no two adjacent text pieces and loses no field
MergeOK == done => \A f \in FitForms : LET ps == Parts(f, [src |-> <<>>, parts |-> <<>>], [src |-> <<>>, parts |-> <<>>, f |-> TRUE]) IN
              /\ \A j \in 1..(Len(ps) - 1) : ~(ps[j].k = "text" /\ ps[j + 1].k = "text")
              /\ Cardinality({j \in 1..Len(ps) : ps[j].k = "field"}) = Cardinality({j \in 1..Len(body) : body[j].k = "field"})

EmitOK == (Emit /\ done) => \A f \in FitForms :
            \A first \in (IF Len(body) <= 1 THEN Firsts ELSE {[src |-> <<>>, parts |-> <<>>]}) :
              \A second \in (IF Len(body) <= 1 THEN Seconds ELSE {[src |-> <<>>, parts |-> <<>>, f |-> TRUE]}) :
                PrintT("REPLAY" \o ToJson([segs |-> first.src \o LiteralSegs(body, f) \o second.src, parts |-> Parts(f, first, second),
                                           raw |-> f.raw, nitems |-> Len(body)]))
=============================================================================

CONSTANTS
  MaxLen = 6
  Emit = TRUE
SPECIFICATION Spec
INVARIANTS UnderscoresOK ShapeOK EmitOK
CHECK_DEADLOCK FALSE

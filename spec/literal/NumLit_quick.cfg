CONSTANTS
  MaxLen = 6
  Emit = TRUE
  AllStrings = FALSE
SPECIFICATION Spec
INVARIANTS UnderscoresOK ShapeOK EmitOK
CHECK_DEADLOCK FALSE

------------------------------- MODULE StrLit -------------------------------
(* C06 -- string and bytes literals decode to their Python values.

   A literal is prefix + quote + body + quote.  The body is a sequence over a character alphabet chosen so that every
   rule of the decoder has its trigger and its neighbours: the backslash, both quotes, the letters that start an
   escape (n f x u U N), a letter that does not (q), octal and non-octal digits, a hexadecimal letter, LF and CR,
   a Latin-1, a BMP-free (astral) character, and the text {BULLET}.

   The machine appends one character at a time (TLC visits every body up to MaxLen); for each body and each literal
   form (kind x quote style) the specification computes
       Norm      the line-ending normalisation (CR LF and CR become LF),
       Closed    whether the body is exactly what lies between the quotes (no unescaped delimiter, no raw line
                 break in a single-quoted literal, no backslash left hanging),
       Decode    the value: Python's rules, a list of code points / byte values, or an error.
   G: every (form, body) with its value is emitted; the replay validates the specification against CPython's own
      evaluation of the literal, then requires the parser to produce exactly that value (and kind marker). *)
EXTENDS Naturals, Sequences, FiniteSets, TLC, Json

CONSTANTS Alphabet, MaxLen, Forms, Emit

VARIABLES body, done
vars == <<body, done>>

(* ---------------------------------------------------------------- alphabet *)
\* an element is a printable ASCII character (named by itself) or one of the special elements
ASCII == <<" ", "!", "\"", "#", "$", "%", "&", "'", "(", ")", "*", "+", ",", "-", ".", "/", "0", "1", "2", "3", "4", "5", "6", "7", "8", "9", ":", ";", "<", "=", ">", "?", "@", "A", "B", "C", "D", "E", "F", "G", "H", "I", "J", "K", "L", "M", "N", "O", "P", "Q", "R", "S", "T", "U", "V", "W", "X", "Y", "Z", "[", "\\", "]", "^", "_", "`", "a", "b", "c", "d", "e", "f", "g", "h", "i", "j", "k", "l", "m", "n", "o", "p", "q", "r", "s", "t", "u", "v", "w", "x", "y", "z", "{", "|", "}", "~">>
AsciiSet == {ASCII[i] : i \in 1..95}
CpOf == [c \in AsciiSet |-> 31 + CHOOSE i \in 1..95 : ASCII[i] = c]
Specials == {"LF", "CR", "XE", "XA", "NB", "HU", "HA", "HS"}
Ch(s, cp) == [s |-> s, cp |-> cp]
Word(ss) == [j \in 1..Len(ss) |-> Ch(ss[j], CpOf[ss[j]])]
\* source text (non-ASCII characters are written as <hex> and substituted by the reader)
Src(e) == CASE e = "LF" -> "\n" [] e = "CR" -> "\r" [] e = "XE" -> "<E9>" [] e = "XA" -> "<1F600>" [] e = "NB" -> "{BULLET}"
            [] e = "HU" -> "00e9" [] e = "HA" -> "0001F600" [] e = "HS" -> "d800" [] OTHER -> e
Chars(e) == CASE e = "LF" -> <<Ch("LF", 10)>> [] e = "CR" -> <<Ch("CR", 13)>> [] e = "XE" -> <<Ch("XE", 233)>> [] e = "XA" -> <<Ch("XA", 128512)>>
              [] e = "NB" -> Word(<<"{", "B", "U", "L", "L", "E", "T", "}">>)
              [] e = "HU" -> Word(<<"0", "0", "e", "9">>) [] e = "HA" -> Word(<<"0", "0", "0", "1", "F", "6", "0", "0">>)
              [] e = "HS" -> Word(<<"d", "8", "0", "0">>)
              [] OTHER -> <<Ch(e, CpOf[e])>>
RECURSIVE Flat(_)
Flat(es) == IF es = <<>> THEN <<>> ELSE Chars(es[1]) \o Flat(Tail(es))

HexDigits == <<"0", "1", "2", "3", "4", "5", "6", "7", "8", "9", "a", "b", "c", "d", "e", "f">>
HexUpper == <<"0", "1", "2", "3", "4", "5", "6", "7", "8", "9", "A", "B", "C", "D", "E", "F">>
HexTab == [c \in AsciiSet |-> IF \E i \in 1..16 : HexDigits[i] = c \/ HexUpper[i] = c
                               THEN (CHOOSE i \in 1..16 : HexDigits[i] = c \/ HexUpper[i] = c) - 1 ELSE 16]
HexVal(s) == IF s \in AsciiSet THEN HexTab[s] ELSE 16
IsHex(s) == HexVal(s) < 16
IsOct(s) == HexVal(s) < 8

(* ---------------------------------------------------------------- line endings *)
RECURSIVE Norm(_)
Norm(cs) == IF cs = <<>> THEN <<>>
            ELSE IF cs[1].s = "CR" THEN <<Ch("LF", 10)>> \o Norm(IF Len(cs) >= 2 /\ cs[2].s = "LF" THEN SubSeq(cs, 3, Len(cs)) ELSE Tail(cs))
            ELSE <<cs[1]>> \o Norm(Tail(cs))

(* ---------------------------------------------------------------- where the literal ends *)
\* form = [kind: "str" | "bytes", raw: BOOLEAN, u: BOOLEAN, q: "SQ" | "DQ", triple: BOOLEAN, prefix: source spelling]
QuoteChar(form) == IF form.q = "SQ" THEN "'" ELSE "\""
\* positions of unescaped characters: a backslash hides the next character from the scanner (raw literals too)
RECURSIVE Unesc(_, _)
Unesc(cs, i) == IF i > Len(cs) THEN {} ELSE IF cs[i].s = "\\" THEN Unesc(cs, i + 2) ELSE {i} \cup Unesc(cs, i + 1)
RECURSIVE EndsHanging(_, _)
EndsHanging(cs, i) == IF i > Len(cs) THEN FALSE ELSE IF cs[i].s = "\\" THEN (i = Len(cs) \/ EndsHanging(cs, i + 2)) ELSE EndsHanging(cs, i + 1)
Closed(cs, form) ==
  LET u == Unesc(cs, 1)
      qs == {i \in u : cs[i].s = QuoteChar(form)} IN
  /\ ~EndsHanging(cs, 1)
  /\ IF form.triple
     THEN /\ ~(\E i \in qs : (i + 1) \in qs /\ (i + 2) \in qs)
          /\ (cs # <<>> => Len(cs) \notin qs)
     ELSE /\ qs = {}
          /\ ~(\E i \in u : cs[i].s = "LF")                       \* after Norm every line break is LF
          \* backslash-newline continues a single-quoted literal, so a hidden LF is fine

(* ---------------------------------------------------------------- values *)
Ok(v) == [ok |-> TRUE, val |-> v]
Bad == [ok |-> FALSE, val |-> <<>>]
Cons(cp, r) == IF r.ok THEN Ok(<<cp>> \o r.val) ELSE r
Cons2(a, b, r) == IF r.ok THEN Ok(<<a, b>> \o r.val) ELSE r

Simple(s) == CASE s = "\\" -> 92 [] s = "'" -> 39 [] s = "\"" -> 34 [] s = "a" -> 7 [] s = "b" -> 8 [] s = "f" -> 12 [] s = "n" -> 10
                 [] s = "r" -> 13 [] s = "t" -> 9 [] s = "v" -> 11 [] OTHER -> 0
IsSimple(s) == s \in {"\\", "'", "\"", "a", "b", "f", "n", "r", "t", "v"}

\* n hexadecimal digits starting at i
RECURSIVE HexRun(_, _, _)
HexRun(cs, i, n) == IF n = 0 THEN 0 ELSE HexVal(cs[i].s) * (16 ^ (n - 1)) + HexRun(cs, i + 1, n - 1)
HasHex(cs, i, n) == i + n - 1 <= Len(cs) /\ \A j \in i..(i + n - 1) : IsHex(cs[j].s)
\* up to three octal digits starting at i (the first is one)
OctLen(cs, i) == IF i + 1 <= Len(cs) /\ IsOct(cs[i + 1].s) THEN (IF i + 2 <= Len(cs) /\ IsOct(cs[i + 2].s) THEN 3 ELSE 2) ELSE 1
RECURSIVE OctRun(_, _, _)
OctRun(cs, i, n) == IF n = 0 THEN 0 ELSE HexVal(cs[i].s) * (8 ^ (n - 1)) + OctRun(cs, i + 1, n - 1)
IsBullet(cs, i) == i + 7 <= Len(cs) /\ [j \in 1..8 |-> cs[i + j - 1].s] = <<"{", "B", "U", "L", "L", "E", "T", "}">>

RECURSIVE Dec(_, _, _)
Dec(cs, i, form) ==
  IF i > Len(cs) THEN Ok(<<>>)
  ELSE LET c == cs[i] IN
  IF c.s # "\\" \/ form.raw
  THEN IF form.kind = "bytes" /\ c.cp > 127 THEN Bad ELSE Cons(c.cp, Dec(cs, i + 1, form))
  ELSE IF i = Len(cs) THEN Bad
  ELSE LET e == cs[i + 1] IN
    IF IsSimple(e.s) THEN Cons(Simple(e.s), Dec(cs, i + 2, form))
    ELSE IF e.s = "LF" THEN Dec(cs, i + 2, form)                              \* backslash-newline: nothing
    ELSE IF IsOct(e.s) THEN
         LET n == OctLen(cs, i + 1)
             v == OctRun(cs, i + 1, n) IN
         \* an octal escape above 0o377 is taken modulo 256 in bytes, and is the code point in text
         Cons(IF form.kind = "bytes" THEN v % 256 ELSE v, Dec(cs, i + 1 + n, form))
    ELSE IF e.s = "x" THEN (IF HasHex(cs, i + 2, 2) THEN Cons(HexRun(cs, i + 2, 2), Dec(cs, i + 4, form)) ELSE Bad)
    ELSE IF e.s = "u" /\ form.kind = "str" THEN (IF HasHex(cs, i + 2, 4) THEN Cons(HexRun(cs, i + 2, 4), Dec(cs, i + 6, form)) ELSE Bad)
    ELSE IF e.s = "U" /\ form.kind = "str" THEN
         (IF HasHex(cs, i + 2, 8) /\ HexRun(cs, i + 2, 4) <= 16 THEN Cons(HexRun(cs, i + 2, 8), Dec(cs, i + 10, form)) ELSE Bad)
    ELSE IF e.s = "N" /\ form.kind = "str" THEN (IF IsBullet(cs, i + 2) THEN Cons(8226, Dec(cs, i + 10, form)) ELSE Bad)
    ELSE \* not an escape: backslash and character stay
         IF form.kind = "bytes" /\ e.cp > 127 THEN Bad ELSE Cons2(92, e.cp, Dec(cs, i + 2, form))

Value(es, form) == Dec(Norm(Flat(es)), 1, form)

(* ---------------------------------------------------------------- literal forms and alphabets (chosen in the cfg) *)
Form(prefix, kind, raw, u, q, triple) == [prefix |-> prefix, kind |-> kind, raw |-> raw, u |-> u, q |-> q, triple |-> triple]
Canon(q, triple) == {Form("", "str", FALSE, FALSE, q, triple), Form("b", "bytes", FALSE, FALSE, q, triple), Form("r", "str", TRUE, FALSE, q, triple),
                     Form("rb", "bytes", TRUE, FALSE, q, triple), Form("u", "str", FALSE, TRUE, q, triple)}
FormsAll == Canon("SQ", FALSE) \cup Canon("DQ", FALSE) \cup Canon("SQ", TRUE) \cup Canon("DQ", TRUE)
FormsCore == Canon("SQ", FALSE) \cup Canon("DQ", TRUE)
\* every spelling of every prefix
FormsPrefix == {Form(p, "str", FALSE, FALSE, "SQ", FALSE) : p \in {""}} \cup {Form("u", "str", FALSE, TRUE, "SQ", FALSE), Form("U", "str", FALSE, FALSE, "SQ", FALSE)}   \* the kind marker records a lower-case u only
               \cup {Form(p, "str", TRUE, FALSE, "DQ", FALSE) : p \in {"r", "R"}} \cup {Form(p, "bytes", FALSE, FALSE, "SQ", TRUE) : p \in {"b", "B"}}
               \cup {Form(p, "bytes", TRUE, FALSE, "SQ", FALSE) : p \in {"br", "bR", "Br", "BR", "rb", "rB", "Rb", "RB"}}
AlphaDeep == {"\\", "'", "\"", "a", "n", "x", "u", "U", "N", "q", "0", "1", "7", "8", "f", " ", "LF", "CR", "XE", "XA", "NB", "HU", "HA", "HS"}
AlphaSweep == AsciiSet \cup Specials

(* ---------------------------------------------------------------- machine *)
Init == body = <<>> /\ done = FALSE
Grow == ~done /\ Len(body) < MaxLen /\ \E e \in Alphabet : body' = Append(body, e) /\ UNCHANGED done
Stop == ~done /\ done' = TRUE /\ UNCHANGED body
Next == Grow \/ Stop
Spec == Init /\ [][Next]_vars

\* sanity of the definitions themselves
RawKeepsAll == done => \A f \in Forms : (f.raw /\ f.kind = "str") => Value(body, f) = Ok([j \in 1..Len(Norm(Flat(body))) |-> Norm(Flat(body))[j].cp])
NoLongerThanSource == done => \A f \in Forms : Value(body, f).ok => Len(Value(body, f).val) <= Len(Flat(body))

RECURSIVE SrcOf(_)
SrcOf(es) == IF es = <<>> THEN "" ELSE Src(es[1]) \o SrcOf(Tail(es))
Cases == {f \in Forms : Closed(Norm(Flat(body)), f)}
\* implicit concatenation: the values are concatenated, the kind marker is the first literal's; text and bytes do not mix
Seconds == {<<>>, <<"a">>, <<"\\", "n">>, <<"XE">>, <<"\\", "1", "0", "1">>}
Both(a, b) == IF a.ok /\ b.ok THEN Ok(a.val \o b.val) ELSE Bad
Pairs == IF Len(body) > 1 THEN {} ELSE
           {p \in Cases \X (Forms \X Seconds) : p[1].kind = p[2][1].kind /\ Closed(Norm(Flat(p[2][2])), p[2][1])}
EmitOK == (Emit /\ done) =>
          /\ \A f \in Cases :
             PrintT("REPLAY" \o ToJson([prefix |-> f.prefix, q |-> f.q, triple |-> f.triple, kind |-> f.kind, u |-> f.u,
                                        body |-> SrcOf(body), want |-> Value(body, f)]))
          /\ \A p \in Pairs :
             PrintT("REPLAY" \o ToJson([prefix |-> p[1].prefix, q |-> p[1].q, triple |-> p[1].triple, kind |-> p[1].kind, u |-> p[1].u, body |-> SrcOf(body),
                                        prefix2 |-> p[2][1].prefix, q2 |-> p[2][1].q, triple2 |-> p[2][1].triple, body2 |-> SrcOf(p[2][2]),
                                        want |-> Both(Value(body, p[1]), Value(p[2][2], p[2][1]))]))
=============================================================================

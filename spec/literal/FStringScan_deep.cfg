CONSTANTS
  MaxLen = 6
  Emit = TRUE
  Alphabet = {"{", "}", "a", "!", "r", ":", "=", "(", ")", "'", " "}
SPECIFICATION Spec
INVARIANTS ScanTotal PartsShape EmitOK
CHECK_DEADLOCK FALSE

---------------------------- MODULE SoftKwFeat ----------------------------
(* C10 for the soft-keyword pass: two copies of the SoftKw machine, one on a  *)
(* full-lexer token stream (Comment and NonLogicalNewline tokens present; the *)
(* transformer keeps start_of_line across them) and one on the same stream    *)
(* with those tokens filtered out (the plain build).  Removing the extra      *)
(* tokens from the full build's output must give the plain build's output:    *)
(* comments, comment-only lines, blank lines and line breaks inside brackets  *)
(* never change whether match / case / type is a keyword.                     *)
EXTENDS Integers, Sequences, FiniteSets, TLC, Json
CONSTANTS MaxLen, First, Alphabet, Emit_
VARIABLES rawF, posF, solF, outF, rawP, posP, solP, outP
vars == <<rawF, posF, solF, outF, rawP, posP, solP, outP>>

Extra == {"Comment", "NonLogicalNewline"}
Filter(s) == SelectSeq(s, LAMBDA t : t \notin Extra)

F == INSTANCE SoftKw WITH Mode <- "Module", FullLexer <- TRUE, Emit_ <- FALSE,
                          raw <- rawF, pos <- posF, sol <- solF, out <- outF
P == INSTANCE SoftKw WITH Mode <- "Module", FullLexer <- FALSE, Emit_ <- FALSE,
                          raw <- rawP, pos <- posP, sol <- solP, out <- outP

(* Streams the full lexer can produce: a Comment is followed by the line end  *)
(* (a Newline after code at nesting 0, otherwise a NonLogicalNewline); a      *)
(* NonLogicalNewline ends a blank / comment-only line or a line inside        *)
(* brackets; Newline ends a non-empty logical line at nesting 0.              *)
RECURSIVE FP(_, _, _, _, _)
FP(s, k, nest, empty, cm) ==
  IF k > Len(s) THEN nest = 0 /\ empty /\ ~cm
  ELSE LET t == s[k] IN
       IF cm THEN (IF nest > 0 \/ empty THEN t = "NonLogicalNewline" /\ FP(s, k + 1, nest, empty, FALSE)
                   ELSE t = "Newline" /\ FP(s, k + 1, 0, TRUE, FALSE))
       ELSE IF t = "Comment" THEN FP(s, k + 1, nest, empty, TRUE)
       ELSE IF t = "NonLogicalNewline" THEN (nest > 0 \/ empty) /\ FP(s, k + 1, nest, empty, FALSE)
       ELSE IF t = "Newline" THEN nest = 0 /\ ~empty /\ FP(s, k + 1, 0, TRUE, FALSE)
       ELSE IF t \in F!Openers THEN FP(s, k + 1, nest + 1, FALSE, FALSE)
       ELSE IF t \in F!Closers THEN nest > 0 /\ FP(s, k + 1, nest - 1, FALSE, FALSE)
       ELSE FP(s, k + 1, nest, FALSE, FALSE)

Init == /\ \E f \in First, n \in 0..(MaxLen - 2) :
              \* the rest of the stream in two halves (TLC refuses to enumerate a function set above 10^6 elements)
              \E r1 \in [1..(n \div 2) -> Alphabet \cup Extra \cup {"Newline"}], r2 \in [1..(n - (n \div 2)) -> Alphabet \cup Extra \cup {"Newline"}] :
                 rawF = <<f>> \o r1 \o r2 \o <<"Newline">>
        /\ FP(rawF, 1, 0, TRUE, FALSE)
        /\ \E k \in 1..Len(rawF) : rawF[k] \in F!Soft
        /\ \E k \in 1..Len(rawF) : rawF[k] \in Extra
        /\ posF = 1 /\ solF = TRUE /\ outF = <<>>
        /\ rawP = Filter(rawF)     \* what the plain build's lexer produces for the same text
        /\ posP = 1 /\ solP = TRUE /\ outP = <<>>

StepF == F!Emit /\ UNCHANGED <<rawP, posP, solP, outP>>
StepP == posF > Len(rawF) /\ P!Emit /\ UNCHANGED <<rawF, posF, solF, outF>>
Next == StepF \/ StepP
Spec == Init /\ [][Next]_vars

Both == posF > Len(rawF) /\ posP > Len(rawP)
FilterOK == Both => Filter(outF) = outP
\* start_of_line agrees whenever both machines stand before the same plain token
Report == Both /\ Emit_ => PrintT("REPLAY" \o ToJson([raw |-> rawF, out |-> outF, plain |-> outP]))
=============================================================================

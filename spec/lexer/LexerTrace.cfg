CONSTANTS
  FullLexer = FALSE
  Start = 0
SPECIFICATION TSpec
VIEW tview
CONSTRAINT Track
POSTCONDITION TraceAccepted
CHECK_DEADLOCK FALSE

CONSTANTS
  MaxLen = 4
  Tokens = {"x", "1", "}", "for", "in", "'s'", "f'{a}'", "(", ")", "[", ":", ",", "=", "+", "*", "**", ".", "if", "else", "def", "lambda", "match", "NL", "IND", "@", "->", "not", ":="}
  Emit = TRUE
SPECIFICATION Spec
INVARIANTS EmitOK
CHECK_DEADLOCK FALSE

---------------------------- MODULE LexerFeat ----------------------------
(* Two copies of the lexer machine on the same text: the plain configuration  *)
(* and the full-lexer configuration (comments and non-logical newlines are    *)
(* tokens).  C10: filtering those tokens out of the full stream gives exactly *)
(* the plain stream, and both end with the same error (kind and offset).      *)
EXTENDS Naturals, Sequences, FiniteSets, TLC
CONSTANTS MaxLen, Alphabet
VARIABLES inp, boff,
          iP, posP, bolP, nestP, indP, pendP, errP, eofP, outP,
          iF, posF, bolF, nestF, indF, pendF, errF, eofF, outF
varsP == <<iP, posP, bolP, nestP, indP, pendP, errP, eofP, outP>>
varsF == <<iF, posF, bolF, nestF, indF, pendF, errF, eofF, outF>>
vars == <<inp, boff, varsP, varsF>>

P == INSTANCE Lexer WITH FullLexer <- FALSE, Start <- 0, i <- iP, pos <- posP, atBol <- bolP, nesting <- nestP,
                         indents <- indP, pending <- pendP, err <- errP, eof <- eofP
F == INSTANCE Lexer WITH FullLexer <- TRUE, Start <- 0, i <- iF, pos <- posF, atBol <- bolF, nesting <- nestF,
                         indents <- indF, pending <- pendF, err <- errF, eof <- eofF

Texts == UNION {[1..n -> Alphabet] : n \in 0..MaxLen}
RECURSIVE OffTab(_, _, _)
OffTab(t, k, acc) == IF k > Len(t) THEN acc ELSE OffTab(t, k + 1, Append(acc, acc[Len(acc)] + P!Bytes(t[k])))
Init == /\ inp \in Texts /\ boff = OffTab(inp, 1, <<0>>)
        /\ P!InitLexer /\ F!InitLexer /\ outP = <<>> /\ outF = <<>>

StepP == ~P!Finished /\ P!Step /\ UNCHANGED <<outP, varsF>>
PopP == ~P!Finished /\ P!Pop /\ outP' = (IF Head(pendP).k = "EndOfFile" THEN outP ELSE Append(outP, Head(pendP))) /\ UNCHANGED varsF
StepF == P!Finished /\ ~F!Finished /\ F!Step /\ UNCHANGED <<outF, varsP>>
PopF == P!Finished /\ ~F!Finished /\ F!Pop /\ outF' = (IF Head(pendF).k = "EndOfFile" THEN outF ELSE Append(outF, Head(pendF))) /\ UNCHANGED varsP
Next == StepP \/ PopP \/ StepF \/ PopF
Spec == Init /\ [][Next]_vars

Strip(t) == [k |-> t.k, s |-> t.s, e |-> t.e]
Filter(s) == SelectSeq(s, LAMBDA t : t.k \notin {"Comment", "NonLogicalNewline"})
Both == P!Finished /\ F!Finished
FilterOK == Both => /\ [k \in 1..Len(Filter(outF)) |-> Strip(Filter(outF)[k])] = [k \in 1..Len(outP) |-> Strip(outP[k])]
                    /\ errP = errF
\* the state that decides soft keywords and layout is the same: nesting and indentation never depend on the extra tokens
StateOK == Both => nestP = nestF /\ indP = indF /\ posP = posF
=======================================================================

CONSTANTS
  MaxLen = 4
  Alphabet = {"EQ", "PLUS", "MINUS", "STAR", "SLASH", "LT", "GT", "BANG", "DOT", "COLON", "TILDE", "La", "D1"}
  FullLexer = FALSE
  Start = 0
  Emit = TRUE
SPECIFICATION Spec
INVARIANTS InBounds OnBoundaries Ordered GapsOK SpellOK LongestOK BalanceOK IndentPlaceOK ErrInBounds CursorOK EmitOK
PROPERTIES Progress
CHECK_DEADLOCK FALSE

CONSTANTS
  MaxLen = 7
  First = {"Match", "Case", "Type"}
  Alphabet = {"Match", "Type", "Name", "Colon", "Equal", "Lpar", "Rpar", "Lsqb", "Rsqb", "Lbrace", "Rbrace", "Lambda"}
  Mode = "Module"
  FullLexer = FALSE
  Emit_ = TRUE
SPECIFICATION Spec
INVARIANTS Shape MidLineIsName KeywordHasColon TypeKeywordHasEqual AliasNameIsName Report
CHECK_DEADLOCK FALSE

CONSTANTS
  MaxLen = 5
  Alphabet = {"La", "SP", "TAB", "FF", "LF", "CR", "HASH", "BS", "LP", "RP", "COLON", "SQ"}
SPECIFICATION Spec
INVARIANTS FilterOK StateOK
CHECK_DEADLOCK FALSE

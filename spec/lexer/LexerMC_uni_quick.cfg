CONSTANTS
  MaxLen = 4
  Alphabet = {"La", "XS2", "XS3", "XC2", "XC3", "EM4", "OT2", "OT3", "BOM", "CTL", "SP", "LF", "D1"}
  FullLexer = FALSE
  Start = 0
  Emit = TRUE
SPECIFICATION Spec
INVARIANTS InBounds OnBoundaries Ordered GapsOK SpellOK LongestOK BalanceOK IndentPlaceOK ErrInBounds CursorOK EmitOK
PROPERTIES Progress
CHECK_DEADLOCK FALSE

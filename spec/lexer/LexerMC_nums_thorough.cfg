CONSTANTS
  MaxLen = 5
  Alphabet = {"D0", "D1", "D8", "US", "DOT", "Le", "Lj", "Lx", "Lo", "Lb", "PLUS", "La"}
  FullLexer = FALSE
  Start = 0
  Emit = TRUE
SPECIFICATION Spec
INVARIANTS InBounds OnBoundaries Ordered GapsOK SpellOK LongestOK BalanceOK IndentPlaceOK ErrInBounds CursorOK EmitOK
PROPERTIES Progress
CHECK_DEADLOCK FALSE

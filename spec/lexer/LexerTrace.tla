--------------------------- MODULE LexerTrace ---------------------------
(* Trace validation of the real lexer: every call of Lexer::next recorded    *)
(* by the hook (token kind and range, or error kind and location, plus the   *)
(* lexer's nesting, indentation depth, at_begin_of_line, queue length and    *)
(* location after the call) must be the next observable event of Lexer.tla  *)
(* run on the same text, with the same state.  The machine's silent steps   *)
(* (iterations of inner_next's loop that queue nothing) are interleaved.    *)
EXTENDS Lexer, Keywords, Json, IOUtils
Log == ndJsonDeserialize(IOEnv.TRACE)
VARIABLE l
tvars == <<lexvars, l>>
\* the text never changes between resets and l identifies the run: keep it out of the fingerprint (cost per state O(1))
tview == <<i, pos, atBol, nesting, indents, pending, err, eof, l>>

Load(ev) == /\ inp' = ev.text /\ boff' = ev.boff
            /\ i' = (IF Len(ev.text) >= 1 /\ ev.text[1] = "BOM" THEN 2 ELSE 1)
            /\ pos' = ev.start + (IF Len(ev.text) >= 1 /\ ev.text[1] = "BOM" THEN 3 ELSE 0)
            /\ atBol' = TRUE /\ nesting' = 0 /\ indents' = << <<0, 0>> >>
            /\ pending' = <<>> /\ err' = NoErr /\ eof' = FALSE
TInit == /\ l = 2 /\ Log[1].ev = "init" /\ inp = Log[1].text /\ boff = Log[1].boff
         /\ i = (IF Len(inp) >= 1 /\ inp[1] = "BOM" THEN 2 ELSE 1)
         /\ pos = Log[1].start + (IF Len(inp) >= 1 /\ inp[1] = "BOM" THEN 3 ELSE 0)
         /\ atBol = TRUE /\ nesting = 0 /\ indents = << <<0, 0>> >>
         /\ pending = <<>> /\ err = NoErr /\ eof = FALSE

IsEvent(e) == l <= Len(Log) /\ Log[l].ev = e /\ l' = l + 1
\* a silent iteration of the loop (queue empty, nothing to report yet)
TSilent == l <= Len(Log) /\ Log[l].ev \in {"tok", "err"} /\ pending = <<>> /\ err.k = "none" /\ ~eof /\ Step /\ UNCHANGED l
KindOK(mk, ev) == IF mk = "Word" THEN ev.k = KwKind(ev.word) ELSE ev.k = mk
TTok == /\ IsEvent("tok") /\ pending # <<>> /\ err.k = "none"
        /\ LET t == Head(pending) ev == Log[l] IN
           /\ KindOK(t.k, ev) /\ t.s = ev.s /\ t.e = ev.e
           \* the lexer's state after the call
           /\ ev.nesting = nesting /\ ev.depth = Len(indents) /\ ev.bol = atBol /\ ev.pending = Len(pending) - 1 /\ ev.loc = pos
        /\ Pop
TErr == /\ IsEvent("err") /\ err.k # "none"
        /\ Log[l].k = err.k /\ Log[l].at = err.at
        /\ UNCHANGED lexvars
TReset == IsEvent("init") /\ Load(Log[l])
TNext == TSilent \/ TTok \/ TErr \/ TReset
TSpec == TInit /\ [][TNext]_tvars

\* progress register: the furthest event index reached (needs -workers 1)
Track == TLCSet(1, IF TLCGet(1) > l THEN TLCGet(1) ELSE l)
TraceAccepted ==
   IF TLCGet(1) = Len(Log) + 1 THEN TRUE
   ELSE /\ PrintT("UNMATCHED at " \o ToString(TLCGet(1)))
        /\ FALSE
ASSUME TLCSet(1, 0)
=======================================================================

---------------------------- MODULE Keywords ----------------------------
(* The reserved words of Python 3.11 plus the PEP 634 / PEP 695 soft        *)
(* keywords the lexer tokenises (match, case, type), with the token kind    *)
(* each one denotes.                                                         *)
EXTENDS Sequences
KwKind(w) ==
  CASE w = "False" -> "False" [] w = "None" -> "None" [] w = "True" -> "True"
    [] w = "and" -> "And" [] w = "as" -> "As" [] w = "assert" -> "Assert" [] w = "async" -> "Async" [] w = "await" -> "Await"
    [] w = "break" -> "Break" [] w = "case" -> "Case" [] w = "class" -> "Class" [] w = "continue" -> "Continue"
    [] w = "def" -> "Def" [] w = "del" -> "Del" [] w = "elif" -> "Elif" [] w = "else" -> "Else" [] w = "except" -> "Except"
    [] w = "finally" -> "Finally" [] w = "for" -> "For" [] w = "from" -> "From" [] w = "global" -> "Global" [] w = "if" -> "If"
    [] w = "import" -> "Import" [] w = "in" -> "In" [] w = "is" -> "Is" [] w = "lambda" -> "Lambda" [] w = "match" -> "Match"
    [] w = "nonlocal" -> "Nonlocal" [] w = "not" -> "Not" [] w = "or" -> "Or" [] w = "pass" -> "Pass" [] w = "raise" -> "Raise"
    [] w = "return" -> "Return" [] w = "try" -> "Try" [] w = "type" -> "Type" [] w = "while" -> "While" [] w = "with" -> "With"
    [] w = "yield" -> "Yield"
    [] OTHER -> "Name"
=======================================================================

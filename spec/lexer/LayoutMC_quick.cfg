CONSTANTS
  MaxLines = 2
  Emit = TRUE
  FullLexer = FALSE
  Start = 0
SPECIFICATION Spec
INVARIANTS NoError SameTokens EmitOK
CHECK_DEADLOCK FALSE

CONSTANTS
  MaxLines = 2
  Emit = FALSE
  FullLexer = FALSE
  Start = 0
SPECIFICATION Spec
INVARIANTS NoError SameTokens
CHECK_DEADLOCK FALSE

---------------------------- MODULE LayoutMC ----------------------------
(* C08 (design level): layout never changes the token stream.                 *)
(* A logical program is a sequence of logical lines (depth + tokens); PyLayout *)
(* renders it to characters under layout choices -- line ending kind, indent   *)
(* unit, trailing whitespace, trailing comments, a leading BOM, a missing      *)
(* final line break, and one special feature at one line (blank line,          *)
(* whitespace-only line, comment-only line at an odd indentation, form feed,   *)
(* backslash join, line break inside brackets).  The lexer machine (Lexer.tla) *)
(* must deliver exactly the token kinds the logical program denotes.           *)
EXTENDS Lexer, Json
CONSTANTS MaxLines, Emit
VARIABLES prog, lay, out
vars == <<lexvars, prog, lay, out>>

LineKinds == {<<"N">>, <<"N", "C">>, <<"N", "L", "N", "R">>, <<"N", "L", "R", "C">>}
\* depth sequences: first line at 0, a deeper line only after a line ending in ':' (C), by one
DepthsOK(ls) == /\ ls[1].d = 0
                /\ \A k \in 2..Len(ls) : (ls[k].d = ls[k-1].d + 1 /\ ls[k-1].t[Len(ls[k-1].t)] = "C")
                                         \/ (ls[k].d <= ls[k-1].d /\ ls[k-1].t[Len(ls[k-1].t)] # "C")
Programs == {ls \in UNION {[1..n -> [d : 0..2, t : LineKinds]] : n \in 1..MaxLines} : DepthsOK(ls)}
Layouts == [eol : {<<"LF">>, <<"CR">>, <<"CR", "LF">>}, unit : {<<"SP">>, <<"SP", "SP">>, <<"TAB">>}, trail : BOOLEAN, comment : BOOLEAN,
            bom : BOOLEAN, lastEol : BOOLEAN, at : 1..MaxLines,
            feat : {"none", "blank", "wsblank", "oddcomment", "ff", "join", "brk", "joinmix", "brkmix", "brkcomment"}]

Cls(t) == CASE t = "N" -> <<"La">> [] t = "C" -> <<"COLON">> [] t = "L" -> <<"LP">> [] t = "R" -> <<"RP">>
RECURSIVE Rep(_, _)
Rep(s, n) == IF n <= 0 THEN <<>> ELSE s \o Rep(s, n - 1)
\* the tokens of one line with single spaces; a join / bracket break after the first token or bracket when requested
RECURSIVE LineToks(_, _, _, _)
LineToks(ts, k, L, special) ==
   IF k > Len(ts) THEN <<>>
   ELSE Cls(ts[k])
        \o (IF k < Len(ts)
            THEN (IF special /\ L.feat = "join" /\ k = 1 THEN <<"SP", "BS">> \o L.eol \o <<"SP", "SP", "SP">>
                  \* leading whitespace of a continuation line is not indentation: blank-then-tab is fine there
                  ELSE IF special /\ L.feat = "joinmix" /\ k = 1 THEN <<"SP", "BS">> \o L.eol \o <<"SP", "TAB">>
                  ELSE IF special /\ L.feat = "brk" /\ ts[k] = "L" THEN L.eol \o <<"SP", "SP", "SP", "SP", "SP">>
                  ELSE IF special /\ L.feat = "brkmix" /\ ts[k] = "L" THEN L.eol \o <<"SP", "TAB">> \o L.eol \o <<"SP", "TAB", "SP">>
                  ELSE IF special /\ L.feat = "brkcomment" /\ ts[k] = "L" THEN L.eol \o <<"SP", "TAB", "HASH", "La">> \o L.eol \o <<"TAB", "SP", "TAB">>
                  ELSE <<"SP">>)
            ELSE <<>>)
        \o LineToks(ts, k + 1, L, special)
RECURSIVE Render(_, _, _)
Render(ls, k, L) ==
   IF k > Len(ls) THEN <<>>
   ELSE LET special == L.at = k
            pre == IF ~special THEN <<>>
                   ELSE CASE L.feat = "blank" -> L.eol
                          [] L.feat = "wsblank" -> <<"TAB", "SP", "SP">> \o L.eol   \* (a tab after a space is the documented stricter rule: not a layout-only change)
                          [] L.feat = "oddcomment" -> <<"SP", "SP", "SP", "HASH", "La">> \o L.eol
                          [] L.feat = "ff" -> (IF ls[k].d = 0 THEN <<"FF">> ELSE <<>>)
                          [] OTHER -> <<>>
            body == Rep(L.unit, ls[k].d) \o LineToks(ls[k].t, 1, L, special)
                    \o (IF L.trail THEN <<"SP">> ELSE <<>>) \o (IF L.comment THEN <<"SP", "HASH", "La", "SP">> ELSE <<>>)
            end == IF k = Len(ls) /\ ~L.lastEol THEN <<>> ELSE L.eol
        IN pre \o body \o end \o Render(ls, k + 1, L)
Text(ls, L) == (IF L.bom THEN <<"BOM">> ELSE <<>>) \o Render(ls, 1, L)

\* the token kinds the logical program denotes
RECURSIVE Kinds(_, _, _)
Kinds(ls, k, prev) ==
   IF k > Len(ls) THEN [j \in 1..prev |-> "Dedent"]
   ELSE (IF ls[k].d > prev THEN <<"Indent">> ELSE [j \in 1..(prev - ls[k].d) |-> "Dedent"])
        \o [j \in 1..Len(ls[k].t) |-> CASE ls[k].t[j] = "N" -> "Word" [] ls[k].t[j] = "C" -> "Colon" [] ls[k].t[j] = "L" -> "Lpar" [] OTHER -> "Rpar"]
        \o <<"Newline">> \o Kinds(ls, k + 1, ls[k].d)

RECURSIVE OffTab(_, _, _)
OffTab(t, k, acc) == IF k > Len(t) THEN acc ELSE OffTab(t, k + 1, Append(acc, acc[Len(acc)] + Bytes(t[k])))
Init == /\ prog \in Programs /\ lay \in Layouts /\ lay.at <= Len(prog)
        /\ (lay.feat \in {"brk", "brkmix", "brkcomment"} => \E j \in 1..Len(prog[lay.at].t) : prog[lay.at].t[j] = "L")
        /\ inp = Text(prog, lay) /\ boff = OffTab(inp, 1, <<0>>) /\ InitLexer /\ out = <<>>
StepA == Step /\ UNCHANGED <<prog, lay, out>>
PopA == Pop /\ out' = (IF Head(pending).k = "EndOfFile" THEN out ELSE Append(out, Head(pending).k)) /\ UNCHANGED <<prog, lay>>
Next == StepA \/ PopA
Spec == Init /\ [][Next]_vars

\* M: no layout produces an error, and the delivered kinds are the logical program's
NoError == err.k = "none"
\* G: the same texts go to the real lexer, which must deliver the same kinds (binds this module to the code directly)
EmitOK == (Emit /\ eof /\ pending = <<>>) => PrintT("REPLAY" \o ToJson([inp |-> inp, kinds |-> Kinds(prog, 1, 0), feat |-> lay.feat]))
SameTokens == eof => SelectSeq(out, LAMBDA k : k \notin {"Comment", "NonLogicalNewline"}) = Kinds(prog, 1, 0)
=======================================================================

CONSTANTS
  MaxLen = 5
  Alphabet = {"SQ", "DQ", "BS", "Lr", "Lb", "Lu", "Lf", "La", "LF", "CR", "SP"}
  FullLexer = FALSE
  Start = 0
  Emit = TRUE
SPECIFICATION Spec
INVARIANTS InBounds OnBoundaries Ordered GapsOK SpellOK LongestOK BalanceOK IndentPlaceOK ErrInBounds CursorOK EmitOK
PROPERTIES Progress
CHECK_DEADLOCK FALSE

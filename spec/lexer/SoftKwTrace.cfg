CONSTANTS
  MaxLen = 0
  First = {}
  Alphabet = {}
  Mode = "Module"
  FullLexer = FALSE
  Emit_ = FALSE
SPECIFICATION TSpec
VIEW tview
CONSTRAINT Track
POSTCONDITION TraceAccepted
INVARIANTS Shape MidLineIsName KeywordHasColon TypeKeywordHasEqual AliasNameIsName
CHECK_DEADLOCK FALSE

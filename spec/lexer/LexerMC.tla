---------------------------- MODULE LexerMC ----------------------------
(* Exhaustive exploration of the lexer machine over every text up to MaxLen   *)
(* of a class alphabet, with the properties of C03 / C05 as invariants and    *)
(* one REPLAY line per finished run (expected token list or error).           *)
EXTENDS Lexer, Json
CONSTANTS MaxLen, Alphabet, Emit
VARIABLE out          \* tokens delivered so far (history)
vars == <<lexvars, out>>

Texts == UNION {[1..n -> Alphabet] : n \in 0..MaxLen}
RECURSIVE OffTab(_, _, _)
OffTab(t, k, acc) == IF k > Len(t) THEN acc ELSE OffTab(t, k + 1, Append(acc, acc[Len(acc)] + Bytes(t[k])))
Init == inp \in Texts /\ boff = OffTab(inp, 1, <<Start>>) /\ InitLexer /\ out = <<>>
StepA == Step /\ UNCHANGED out
PopA == Pop /\ out' = (IF Head(pending).k = "EndOfFile" THEN out ELSE Append(out, Head(pending)))
Next == StepA \/ PopA
Spec == Init /\ [][Next]_vars

RECURSIVE SumBytes(_, _)
SumBytes(t, k) == IF k > Len(t) THEN 0 ELSE Bytes(t[k]) + SumBytes(t, k + 1)
Total == Start + SumBytes(inp, 1)
\* byte offset of character index k
RECURSIVE Off(_)
Off(k) == IF k <= 1 THEN Start ELSE Off(k - 1) + Bytes(inp[k - 1])

All == out \o pending
\* ---- C05: the token stream tiles the source ----
InBounds == \A t \in 1..Len(All) : Start <= All[t].s /\ All[t].s <= All[t].e /\ All[t].e <= Total
OnBoundaries == \A t \in 1..Len(All) : All[t].s = Off(All[t].a) /\ All[t].e = Off(All[t].b)
Ordered == \A t \in 1..(Len(All) - 1) : All[t].e <= All[t + 1].s
\* text between consecutive tokens: whitespace, comments, backslash-newline joins, (non-logical) line breaks, a leading BOM
GapChar(c) == c \in {"SP", "TAB", "FF", "LF", "CR", "BS"}
RECURSIVE GapOK(_, _, _)
\* inComment: inside a comment (anything up to the line end)
GapOK(k, e, inComment) ==
   IF k >= e THEN TRUE
   ELSE LET c == inp[k] IN
        IF inComment THEN GapOK(k + 1, e, ~IsNL(c))
        ELSE IF c = "HASH" THEN GapOK(k + 1, e, TRUE)
        ELSE IF GapChar(c) \/ (c = "BOM" /\ k = 1) THEN GapOK(k + 1, e, FALSE)
        ELSE FALSE
GapsOK == (err.k = "none") =>
            \A t \in 0..Len(out) :
               LET from == IF t = 0 THEN 1 ELSE out[t].b
                   to == IF t = Len(out) THEN (IF pending # <<>> THEN pending[1].a ELSE i) ELSE out[t + 1].a
               IN FullLexer \/ GapOK(from, to, FALSE)
\* declarative operator table (Tokens): spelling -> kind
OpTable(txt) ==
   LET s == txt IN
   CASE s = <<"EQ">> -> "Equal" [] s = <<"EQ", "EQ">> -> "EqEqual" [] s = <<"PLUS">> -> "Plus" [] s = <<"PLUS", "EQ">> -> "PlusEqual"
     [] s = <<"STAR">> -> "Star" [] s = <<"STAR", "EQ">> -> "StarEqual" [] s = <<"STAR", "STAR">> -> "DoubleStar" [] s = <<"STAR", "STAR", "EQ">> -> "DoubleStarEqual"
     [] s = <<"SLASH">> -> "Slash" [] s = <<"SLASH", "EQ">> -> "SlashEqual" [] s = <<"SLASH", "SLASH">> -> "DoubleSlash" [] s = <<"SLASH", "SLASH", "EQ">> -> "DoubleSlashEqual"
     [] s = <<"PCT">> -> "Percent" [] s = <<"PCT", "EQ">> -> "PercentEqual" [] s = <<"VBAR">> -> "Vbar" [] s = <<"VBAR", "EQ">> -> "VbarEqual"
     [] s = <<"CARET">> -> "CircumFlex" [] s = <<"CARET", "EQ">> -> "CircumflexEqual" [] s = <<"AMP">> -> "Amper" [] s = <<"AMP", "EQ">> -> "AmperEqual"
     [] s = <<"MINUS">> -> "Minus" [] s = <<"MINUS", "EQ">> -> "MinusEqual" [] s = <<"MINUS", "GT">> -> "Rarrow"
     [] s = <<"AT">> -> "At" [] s = <<"AT", "EQ">> -> "AtEqual" [] s = <<"BANG", "EQ">> -> "NotEqual" [] s = <<"TILDE">> -> "Tilde"
     [] s = <<"COLON">> -> "Colon" [] s = <<"COLON", "EQ">> -> "ColonEqual" [] s = <<"SEMI">> -> "Semi" [] s = <<"COMMA">> -> "Comma"
     [] s = <<"LT">> -> "Less" [] s = <<"LT", "EQ">> -> "LessEqual" [] s = <<"LT", "LT">> -> "LeftShift" [] s = <<"LT", "LT", "EQ">> -> "LeftShiftEqual"
     [] s = <<"GT">> -> "Greater" [] s = <<"GT", "EQ">> -> "GreaterEqual" [] s = <<"GT", "GT">> -> "RightShift" [] s = <<"GT", "GT", "EQ">> -> "RightShiftEqual"
     [] s = <<"DOT">> -> "Dot" [] s = <<"DOT", "DOT", "DOT">> -> "Ellipsis"
     [] OTHER -> "none"
\* spelling: the text under a token spells it
Spelled(tk) ==
   LET txt == SubSeq(inp, tk.a, tk.b - 1) IN
   CASE tk.k = "Word" -> txt # <<>> /\ IsIdStart(txt[1]) /\ \A j \in 1..Len(txt) : IsIdCont(txt[j])
     [] tk.k = "Name" -> Len(txt) = 1 /\ txt[1] \in {"EM3", "EM4"}
     [] tk.k \in {"Int", "Float", "Complex"} -> txt # <<>> /\ \A j \in 1..Len(txt) : txt[j] \in Digits \cup {"US", "DOT", "Le", "Lj", "Lx", "Lo", "Lb", "Lf", "Lh", "PLUS", "MINUS"}
     [] tk.k = "String" -> LET pl == CHOOSE n \in 0..2 : IsQuote(txt[n + 1]) /\ \A j \in 1..n : ~IsQuote(txt[j]) IN
                           /\ Len(txt) >= pl + 2 /\ txt[Len(txt)] = txt[pl + 1]
     [] tk.k \in {"Newline", "NonLogicalNewline"} -> (txt = <<>> /\ tk.k = "Newline") \/ (\A j \in 1..Len(txt) : IsNL(txt[j]))
     [] tk.k \in {"Indent"} -> \A j \in 1..Len(txt) : txt[j] \in {"SP", "TAB"}
     [] tk.k \in {"Dedent", "EndOfFile"} -> txt = <<>>
     [] tk.k = "Comment" -> txt # <<>> /\ txt[1] = "HASH" /\ \A j \in 1..Len(txt) : ~IsNL(txt[j])
     [] tk.k \in {"Lpar", "Rpar", "Lsqb", "Rsqb", "Lbrace", "Rbrace"} -> Len(txt) = 1 /\ BracketTok(txt[1]) = tk.k
     [] OTHER -> \* operators: the independent table (longest match)
                 Len(txt) >= 1 /\ txt[1] \in OpChars /\ OpTable(txt) = tk.k
SpellOK == \A t \in 1..Len(All) : Spelled(All[t])
\* longest match: an operator token is never followed directly by a character that would extend it to another operator
LongestOK == \A t \in 1..Len(out) :
               (out[t].b <= Len(inp) /\ out[t].b - out[t].a <= 2 /\ OpTable(SubSeq(inp, out[t].a, out[t].b - 1)) # "none")
                  => OpTable(SubSeq(inp, out[t].a, out[t].b)) = "none" \/ (out[t].k = "Dot")
\* NEWLINE only outside brackets; INDENT/DEDENT balance and only at the start of a logical line
Count(kind) == Cardinality({t \in 1..Len(All) : All[t].k = kind})
BalanceOK == (err.k = "none") => Count("Indent") - Count("Dedent") = (IF Count("EndOfFile") = 1 THEN 0 ELSE Len(indents) - 1)
AtLineStart(t) == t = 1 \/ All[t - 1].k \in {"Newline", "Indent", "Dedent", "Comment", "NonLogicalNewline"}
IndentPlaceOK == \A t \in 1..Len(All) : All[t].k \in {"Indent", "Dedent"} => AtLineStart(t)
\* ---- C03: totality ----
ErrInBounds == err.k # "none" => Start <= err.at /\ err.at <= Total /\ (\E k \in 1..(Len(inp) + 1) : Off(k) = err.at)
\* every step consumes a character or queues a token or ends (checked as an action property)
Progress == [][Step => (i' > i \/ pending' # <<>> \/ err'.k # "none")]_vars
CursorOK == i >= 1 /\ i <= Len(inp) + 1 /\ pos = Off(i) /\ pos = boff[i] /\ \A k \in 1..(Len(inp) + 1) : boff[k] = Off(k)

EmitOK == (Emit /\ Finished /\ (pending = <<>> \/ err.k # "none")) =>
   PrintT("REPLAY" \o ToJson([fam |-> "lex", inp |-> inp, full |-> FullLexer, start |-> Start,
        toks |-> [t \in 1..Len(out) |-> <<out[t].k, out[t].s, out[t].e>>],
        err |-> IF err.k = "none" THEN <<>> ELSE <<err.k, err.at>>]))
=======================================================================

------------------------------ MODULE SoftKw ------------------------------
(* Mirror of SoftKeywordTransformer (parser/src/soft_keywords.rs): the pass   *)
(* between the lexer and the LR parser that decides, for every `match`,       *)
(* `case` and `type` token, whether it stays a keyword or becomes a Name.     *)
(*                                                                            *)
(* State of the real iterator: `start_of_line` and the multipeek cursor over  *)
(* the lexer's tokens.  One call of `next()` = one action Emit: it takes the  *)
(* token at `pos`, looks ahead (ScanMC / ScanT are the two `while peek()`     *)
(* loops, arm by arm and in the same order), emits the token or its Name, and *)
(* recomputes start_of_line from the token it emitted.                        *)
(*                                                                            *)
(* Uses:                                                                      *)
(*  M  TLC explores the machine on every lexer-producible token stream of at  *)
(*     most MaxLen tokens over Alphabet and checks Shape, MidLineIsName,      *)
(*     KeywordHasColon, TypeKeywordHasEqual (what the heuristic guarantees).  *)
(*  G  every finished run prints raw stream + decisions; the check renders    *)
(*     the stream to text, requires the real lexer to produce that raw stream *)
(*     and the real `lex` (lexer + transformer) to produce exactly `out`, and *)
(*     compares the parse of every reference-accepted completion of the text  *)
(*     with the reference tree (C01, "every placement of soft keywords").     *)
(*  T  SoftKwTrace validates the (raw, transformed) token streams recorded    *)
(*     from real source files against the same action.                        *)
EXTENDS Integers, Sequences, FiniteSets, TLC, Json
CONSTANTS MaxLen,      \* longest stream (tokens, including the closing Newline)
          First,       \* kinds the first token is drawn from
          Alphabet,    \* token kinds other than Newline for the rest of the stream
          Mode,        \* "Module" | "Interactive" | "Expression"
          FullLexer,   \* the full-lexer feature: Comment and NonLogicalNewline tokens are in the stream
          Emit_        \* TRUE: print one REPLAY line per finished stream
VARIABLES raw, pos, sol, out
vars == <<raw, pos, sol, out>>

Soft == {"Match", "Case", "Type"}
Openers == {"Lpar", "Lsqb", "Lbrace"}
Closers == {"Rpar", "Rsqb", "Rbrace"}
LineStart == {"Newline", "Indent", "Dedent", "StartModule", "StartInteractive"}

-----------------------------------------------------------------------------
(* The two look-ahead loops.  `q` is the multipeek cursor (index of the next  *)
(* token peek() returns); the loop ends at the end of the stream (None or a   *)
(* lexer error) exactly like `while let Some(Ok(..)) = peek()`.               *)

\* match / case: is there a colon at nesting 0 that is neither the token right after the keyword nor a lambda's colon?
RECURSIVE ScanMC(_, _, _, _, _, _)
ScanMC(s, q, first, nest, lam, colon) ==
  IF q > Len(s) \/ s[q] = "Newline" THEN colon
  ELSE LET t == s[q] IN
       IF t = "Lambda" /\ nest = 0 THEN ScanMC(s, q + 1, FALSE, nest, TRUE, colon)
       ELSE IF t = "Colon" /\ nest = 0 THEN
              IF lam THEN ScanMC(s, q + 1, FALSE, nest, FALSE, colon)
              ELSE ScanMC(s, q + 1, FALSE, nest, lam, colon \/ ~first)
       ELSE IF t \in Openers THEN ScanMC(s, q + 1, FALSE, nest + 1, lam, colon)
       ELSE IF t \in Closers THEN ScanMC(s, q + 1, FALSE, nest - 1, lam, colon)
       ELSE ScanMC(s, q + 1, FALSE, nest, lam, colon)

\* type: after the name, only [...] groups may precede an `=` at nesting 0
RECURSIVE ScanT(_, _, _)
ScanT(s, q, nest) ==
  IF q > Len(s) THEN FALSE
  ELSE LET t == s[q] IN
       IF t = "Newline" THEN FALSE
       ELSE IF t = "Equal" /\ nest = 0 THEN TRUE
       ELSE IF t = "Lsqb" THEN ScanT(s, q + 1, nest + 1)
       ELSE IF t = "Rsqb" THEN ScanT(s, q + 1, nest - 1)
       ELSE IF nest > 0 THEN ScanT(s, q + 1, nest)
       ELSE FALSE

IsTypeAlias(s, p) == /\ p + 1 <= Len(s)
                     /\ s[p + 1] \in {"Name", "Type", "Match", "Case"}
                     /\ ScanT(s, p + 2, 0)     \* the first peek consumed the name: the loop starts after it

\* the kind next() returns for the token at p when start_of_line = b
Decide(s, p, b) ==
  LET t == s[p] IN
  IF t \in {"Match", "Case"} THEN (IF b /\ ScanMC(s, p + 1, TRUE, 0, FALSE, FALSE) THEN t ELSE "Name")
  ELSE IF t = "Type" THEN (IF b /\ IsTypeAlias(s, p) THEN t ELSE "Name")
  ELSE t

-----------------------------------------------------------------------------
(* Streams the lexer can produce (default build): brackets balanced within a  *)
(* logical line (Newline is only a token at nesting 0, a closer at nesting 0  *)
(* is a lexical error), no empty logical lines, a Newline closes the stream.  *)
RECURSIVE Balanced(_, _, _)
Balanced(s, k, nest) ==
  IF k > Len(s) THEN nest = 0
  ELSE IF s[k] = "Newline" THEN nest = 0 /\ Balanced(s, k + 1, 0)
  ELSE IF s[k] \in Openers THEN Balanced(s, k + 1, nest + 1)
  ELSE IF s[k] \in Closers THEN nest > 0 /\ Balanced(s, k + 1, nest - 1)
  ELSE Balanced(s, k + 1, nest)

Producible(s) == /\ Len(s) >= 2 /\ s[Len(s)] = "Newline" /\ s[1] # "Newline"
                 /\ \A k \in 1..Len(s) - 1 : ~(s[k] = "Newline" /\ s[k + 1] = "Newline")
                 /\ \E k \in 1..Len(s) : s[k] \in Soft
                 /\ Balanced(s, 1, 0)


-----------------------------------------------------------------------------
Init == /\ \E f \in First, n \in 0..(MaxLen - 2) :
              \* the rest of the stream in two halves (TLC refuses to enumerate a function set above 10^6 elements)
              \E r1 \in [1..(n \div 2) -> Alphabet \cup {"Newline"}], r2 \in [1..(n - (n \div 2)) -> Alphabet \cup {"Newline"}] :
                 raw = <<f>> \o r1 \o r2 \o <<"Newline">>
        /\ Producible(raw)
        /\ pos = 1 /\ sol = (Mode \in {"Module", "Interactive"}) /\ out = <<>>

\* one call of SoftKeywordTransformer::next
Emit == /\ pos <= Len(raw)
        /\ LET k == Decide(raw, pos, sol) IN
           /\ out' = Append(out, k)
           \* with full-lexer, comments and non-logical newlines leave start_of_line as it is
           /\ sol' = (IF FullLexer /\ k \in {"NonLogicalNewline", "Comment"} THEN sol ELSE k \in LineStart)
        /\ pos' = pos + 1 /\ UNCHANGED raw
Done == pos > Len(raw)
Next == Emit
Spec == Init /\ [][Next]_vars

-----------------------------------------------------------------------------
(* What the heuristic guarantees by construction (design-level invariants).   *)
Shape == /\ Len(out) = pos - 1
         /\ \A k \in 1..Len(out) : out[k] = raw[k] \/ (raw[k] \in Soft /\ out[k] = "Name")
\* condition 1 of both heuristics: a soft keyword that does not start a logical line is a name
MidLineIsName == \A k \in 1..Len(out) :
                    raw[k] \in Soft /\ (IF k = 1 THEN Mode = "Expression" ELSE out[k - 1] \notin LineStart) => out[k] = "Name"
LineEnd(k) == LET nl == {j \in k..Len(raw) : raw[j] = "Newline"} IN
              IF nl = {} THEN Len(raw) ELSE CHOOSE j \in nl : \A j2 \in nl : j <= j2
\* a kept match/case has a colon later on its line that is not its immediate neighbour
KeywordHasColon == \A k \in 1..Len(out) : out[k] \in {"Match", "Case"} =>
                      \E j \in (k + 2)..LineEnd(k) : raw[j] = "Colon"
TypeKeywordHasEqual == \A k \in 1..Len(out) : out[k] = "Type" =>
                      /\ k + 1 <= Len(raw) /\ raw[k + 1] \in {"Name"} \cup Soft
                      /\ \E j \in (k + 2)..LineEnd(k) : raw[j] = "Equal"
\* the token after `type` in an alias is itself demoted (it is not at the start of a line)
AliasNameIsName == \A k \in 2..Len(out) : out[k - 1] = "Type" => out[k] = "Name"

Report == Done /\ Emit_ => PrintT("REPLAY" \o ToJson([raw |-> raw, out |-> out]))
=============================================================================

----------------------------- MODULE Lexer -----------------------------
(* The hand-written lexer (parser/src/lexer.rs) as a state machine.            *)
(* State: position in the text (character index i, byte offset pos),           *)
(* at_begin_of_line, bracket nesting, the indentation stack, the pending       *)
(* token queue, the error (if any) and the end-of-file flag.                   *)
(* Step = one iteration of the `while self.pending.is_empty()` loop of         *)
(* inner_next (handle_indentations when at the beginning of a line, then       *)
(* consume_normal); Pop = `Ok(self.pending.remove(0))`.                        *)
(*                                                                             *)
(* The text is a sequence of character classes (complete partition of          *)
(* Unicode as far as the lexer can tell characters apart):                     *)
(*  SP TAB FF LF CR ; every ASCII punctuation character by name ;              *)
(*  digits D0 '0'  D1 '1'  D2 '2'-'7'  D8 '8' '9' ;                            *)
(*  letters Lb Lr Lu Lf Le Lj Lx Lo (both cases)  Lh other hex letters a c d   *)
(*  La other ASCII letters  US '_' ;                                           *)
(*  non-ASCII by UTF-8 width: XS2 XS3 XS4 identifier start, XC2 XC3 XC4        *)
(*  identifier continue only, EM3 EM4 emoji presentation, OT2 OT3 OT4 other ;  *)
(*  BOM U+FEFF ; CTL other ASCII control characters.                           *)
EXTENDS Naturals, Sequences, FiniteSets, SequencesExt, TLC
CONSTANTS FullLexer, Start
\* boff[k] = byte offset of character k (k = 1..Len(inp)+1): a table derived from the text, fixed during a run
VARIABLES inp, boff, i, pos, atBol, nesting, indents, pending, err, eof
lexvars == <<inp, boff, i, pos, atBol, nesting, indents, pending, err, eof>>

Bytes(c) == CASE c \in {"XS2", "XC2", "OT2"} -> 2
              [] c \in {"XS3", "XC3", "EM3", "OT3", "BOM"} -> 3
              [] c \in {"XS4", "XC4", "EM4", "OT4"} -> 4
              [] OTHER -> 1
At(k) == IF k >= 1 /\ k <= Len(inp) THEN inp[k] ELSE "EOF"
IsNL(c) == c \in {"LF", "CR"}
Letters == {"Lb", "Lr", "Lu", "Lf", "Le", "Lj", "Lx", "Lo", "Lh", "La", "US"}
Digits == {"D0", "D1", "D2", "D8"}
IsIdStart(c) == c \in Letters \cup {"XS2", "XS3", "XS4"}
IsIdCont(c) == IsIdStart(c) \/ c \in Digits \cup {"XC2", "XC3", "XC4"}
IsQuote(c) == c \in {"SQ", "DQ"}
\* next_char: CR LF is consumed as one step of two bytes
AdvI(k) == IF At(k) = "CR" /\ At(k + 1) = "LF" THEN k + 2 ELSE k + 1
AdvP(k, p) == IF At(k) = "CR" /\ At(k + 1) = "LF" THEN p + 2 ELSE p + Bytes(At(k))

\* a token: kind, byte range [s, e), character range [a, b) of the text under it
Tok(kind, s, e, a, b) == [k |-> kind, s |-> s, e |-> e, a |-> a, b |-> b]
NoErr == [k |-> "none", at |-> 0]
E(kind, at) == [k |-> kind, at |-> at]

\* ---------------- scanners (each returns the character index after the lexeme; bytes come from boff) ----------------
\* Scans use SequencesExt!SelectInSubSeq (first index in a range satisfying a test), not per-character recursion,
\* so that long comments, strings and identifiers cost one pass.
FirstFrom(k, Test(_)) == LET j == SelectInSubSeq(inp, k, Len(inp), Test) IN IF k > Len(inp) \/ j = 0 THEN Len(inp) + 1 ELSE j
IdEndI(k) == FirstFrom(k, LAMBDA c : ~IsIdCont(c))
LineEndI(k) == FirstFrom(k, LAMBDA c : IsNL(c))
WsEndI(k) == FirstFrom(k, LAMBDA c : c \notin {"SP", "TAB", "FF"})
IdEnd(k, p) == LET j == IdEndI(k) IN <<j, boff[j]>>
LineEnd(k, p) == LET j == LineEndI(k) IN <<j, boff[j]>>
WsEnd(k, p) == LET j == WsEndI(k) IN <<j, boff[j]>>

DigitOf(c, radix) == CASE radix = 2 -> c \in {"D0", "D1"}
                       [] radix = 8 -> c \in {"D0", "D1", "D2"}
                       [] radix = 10 -> c \in Digits
                       [] OTHER -> c \in Digits \cup {"Lb", "Le", "Lf", "Lh"}
RECURSIVE RadixRun(_, _, _, _)
\* radix_run: <<position after the run, number of digits taken, TRUE iff every digit was '0'>>
RadixRun(k, radix, n, zeros) ==
   IF DigitOf(At(k), radix) THEN RadixRun(k + 1, radix, n + 1, zeros /\ At(k) = "D0")
   ELSE IF At(k) = "US" /\ DigitOf(At(k + 1), radix) THEN RadixRun(k + 1, radix, n, zeros)
   ELSE <<k, n, zeros>>

\* lex_number at character k / byte p: [i, pos, kind, err]
AtExponent(k) == At(k) = "Le" /\ (At(k + 1) \in Digits \/ (At(k + 1) \in {"PLUS", "MINUS"} /\ At(k + 2) \in Digits))
NumRes(k, p0, k0, kind, er) == [i |-> k, pos |-> p0 + (k - k0), kind |-> kind, err |-> er]   \* all number characters are one byte
LexNumber(k, p) ==
   IF At(k) = "D0" /\ At(k + 1) \in {"Lx", "Lo", "Lb"}
   THEN LET radix == CASE At(k + 1) = "Lx" -> 16 [] At(k + 1) = "Lo" -> 8 [] OTHER -> 2
            r == RadixRun(k + 2, radix, 0, TRUE)
        IN IF r[2] = 0 THEN NumRes(r[1], p, k, "Int", E("OtherError", p))      \* empty digit string: from_str_radix fails
           ELSE NumRes(r[1], p, k, "Int", NoErr)
   ELSE
   LET startZero == At(k) = "D0"
       r1 == RadixRun(k, 10, 0, TRUE)
       k1 == r1[1]
   IN IF At(k1) = "DOT" \/ AtExponent(k1)
      THEN \* float
           IF At(k1) = "DOT" /\ At(k1 + 1) = "US" THEN NumRes(k1, p, k, "Float", E("OtherError", p + (k1 - k)))
           ELSE LET k2 == IF At(k1) = "DOT" THEN k1 + 1 ELSE k1
                    r2 == IF At(k1) = "DOT" THEN RadixRun(k2, 10, 0, TRUE) ELSE <<k1, 0, TRUE>>
                    k3 == r2[1]
                    mantDigits == r1[2] + r2[2]
                IN IF At(k3) = "Le"
                   THEN IF At(k3 + 1) = "US" THEN NumRes(k3, p, k, "Float", E("OtherError", p + (k3 - k)))
                        ELSE LET k4 == k3 + 1
                                 signed == At(k4) \in {"PLUS", "MINUS"}
                             IN IF signed /\ At(k4 + 1) = "US" THEN NumRes(k4, p, k, "Float", E("OtherError", p + (k4 - k)))
                                ELSE LET k5 == IF signed THEN k4 + 1 ELSE k4
                                         r3 == RadixRun(k5, 10, 0, TRUE)
                                         k6 == r3[1]
                                     IN IF r3[2] = 0 \/ mantDigits = 0
                                        THEN NumRes(k6, p, k, "Float", E("OtherError", p + (k6 - k)))   \* "1.e", "1.e+": f64::from_str fails
                                        ELSE IF At(k6) = "Lj" THEN NumRes(k6 + 1, p, k, "Complex", NoErr)
                                        ELSE NumRes(k6, p, k, "Float", NoErr)
                   ELSE IF mantDigits = 0 THEN NumRes(k3, p, k, "Float", E("OtherError", p + (k3 - k)))
                        ELSE IF At(k3) = "Lj" THEN NumRes(k3 + 1, p, k, "Complex", NoErr)
                        ELSE NumRes(k3, p, k, "Float", NoErr)
      ELSE IF At(k1) = "Lj" THEN NumRes(k1 + 1, p, k, "Complex", NoErr)
      ELSE IF startZero /\ ~r1[3] THEN NumRes(k1, p, k, "Int", E("OtherError", p + (k1 - k)))   \* leading zeros
      ELSE NumRes(k1, p, k, "Int", NoErr)

\* lex_string starting at the first prefix character: plen prefix characters, then the quote
RECURSIVE StrBody(_, _, _, _)
\* scans the body from k; q = quote class; returns [i, pos, st] with st in ok / eol / eof.
\* Only backslashes, the quote character and (outside triple quotes) line breaks are inspected one by one.
StrBody(k, p, q, triple) ==
   LET j == FirstFrom(k, LAMBDA c : c = "BS" \/ c = q \/ (IsNL(c) /\ ~triple))
       c == At(j) IN
   IF c = "EOF" THEN [i |-> j, pos |-> boff[j], st |-> "eof"]
   ELSE IF c = "BS"
        THEN IF At(j + 1) = "EOF" THEN [i |-> j + 1, pos |-> boff[j + 1], st |-> "eof"]
             ELSE StrBody(AdvI(j + 1), 0, q, triple)                      \* backslash and the next character
   ELSE IF IsNL(c) THEN [i |-> AdvI(j), pos |-> boff[AdvI(j)], st |-> "eol"]
   ELSE \* the quote character
        IF triple
        THEN IF At(j + 1) = q /\ At(j + 2) = q THEN [i |-> j + 3, pos |-> boff[j + 3], st |-> "ok"]
             ELSE StrBody(j + 1, 0, q, triple)
        ELSE [i |-> j + 1, pos |-> boff[j + 1], st |-> "ok"]
LexString(k, p, plen) ==
   LET q == At(k + plen)
       triple == At(k + plen + 1) = q /\ At(k + plen + 2) = q
       k0 == k + plen + (IF triple THEN 3 ELSE 1)
       p0 == p + plen + (IF triple THEN 3 ELSE 1)
       r == StrBody(k0, p0, q, triple)
   IN [i |-> r.i, pos |-> r.pos, triple |-> triple,
       err |-> CASE r.st = "ok" -> NoErr
                 [] r.st = "eol" -> E("OtherError", r.pos)
                 [] OTHER -> E(IF triple THEN "Eof" ELSE "StringError", r.pos)]
\* string prefix at k: 0 = none, else its length (valid prefixes: r b u f ; rb br rf fr ; any case)
PrefixLen(k) ==
   IF At(k) \in {"Lr", "Lb", "Lu", "Lf"} /\ IsQuote(At(k + 1)) THEN 1
   ELSE IF IsQuote(At(k + 2)) /\ <<At(k), At(k + 1)>> \in {<<"Lr", "Lf">>, <<"Lf", "Lr">>, <<"Lr", "Lb">>, <<"Lb", "Lr">>} THEN 2
   ELSE 0

\* ---------------- eat_indentation -------------------------------------------------------
RECURSIVE Eat(_, _, _, _, _)
Eat(k, p, sp, tb, toks) ==
  LET c == At(k) IN
  CASE c = "SP" -> Eat(k + 1, p + 1, sp + 1, tb, toks)
    [] c = "TAB" -> IF sp # 0 THEN [i |-> k, pos |-> p, sp |-> sp, tb |-> tb, toks |-> toks, err |-> E("TabsAfterSpaces", p), bol |-> TRUE]
                    ELSE Eat(k + 1, p + 1, sp, tb + 1, toks)
    [] c = "HASH" -> LET r == LineEnd(k, p) IN
                     Eat(r[1], r[2], 0, 0, IF FullLexer THEN Append(toks, Tok("Comment", p, r[2], k, r[1])) ELSE toks)
    [] c = "FF" -> Eat(k + 1, p + 1, 0, 0, toks)
    [] IsNL(c) -> Eat(AdvI(k), AdvP(k, p), 0, 0,
                      IF FullLexer THEN Append(toks, Tok("NonLogicalNewline", p, AdvP(k, p), k, AdvI(k))) ELSE toks)
    [] c = "EOF" -> [i |-> k, pos |-> p, sp |-> 0, tb |-> 0, toks |-> toks, err |-> NoErr, bol |-> TRUE]
    [] OTHER -> [i |-> k, pos |-> p, sp |-> sp, tb |-> tb, toks |-> toks, err |-> NoErr, bol |-> FALSE]

\* compare_strict on <<tabs, spaces>>
Cmp(x, y) ==
  IF x[1] < y[1] THEN (IF x[2] <= y[2] THEN "LT" ELSE "TABERR")
  ELSE IF x[1] > y[1] THEN (IF x[2] >= y[2] THEN "GT" ELSE "TABERR")
  ELSE IF x[2] < y[2] THEN "LT" ELSE IF x[2] > y[2] THEN "GT" ELSE "EQ"
RECURSIVE Dedents(_, _, _, _, _)
Dedents(stk, lvl, p, k, toks) ==
  LET c == Cmp(lvl, stk[Len(stk)]) IN
  CASE c = "LT" -> Dedents(SubSeq(stk, 1, Len(stk) - 1), lvl, p, k, Append(toks, Tok("Dedent", p, p, k, k)))
    [] c = "EQ" -> [stk |-> stk, toks |-> toks, err |-> NoErr]
    [] c = "GT" -> [stk |-> stk, toks |-> toks, err |-> E("IndentationError", p)]
    [] OTHER -> [stk |-> stk, toks |-> toks, err |-> E("TabError", p)]

\* ---------------- operators: longest match as the code's nested matches ---------------
\* <<kind, length>> of the operator starting at k (only for operator characters)
Op(k) ==
  LET c == At(k) d == At(k + 1) e == At(k + 2) IN
  CASE c = "EQ" -> IF d = "EQ" THEN <<"EqEqual", 2>> ELSE <<"Equal", 1>>
    [] c = "PLUS" -> IF d = "EQ" THEN <<"PlusEqual", 2>> ELSE <<"Plus", 1>>
    [] c = "STAR" -> IF d = "EQ" THEN <<"StarEqual", 2>>
                     ELSE IF d = "STAR" THEN (IF e = "EQ" THEN <<"DoubleStarEqual", 3>> ELSE <<"DoubleStar", 2>>)
                     ELSE <<"Star", 1>>
    [] c = "SLASH" -> IF d = "EQ" THEN <<"SlashEqual", 2>>
                      ELSE IF d = "SLASH" THEN (IF e = "EQ" THEN <<"DoubleSlashEqual", 3>> ELSE <<"DoubleSlash", 2>>)
                      ELSE <<"Slash", 1>>
    [] c = "PCT" -> IF d = "EQ" THEN <<"PercentEqual", 2>> ELSE <<"Percent", 1>>
    [] c = "VBAR" -> IF d = "EQ" THEN <<"VbarEqual", 2>> ELSE <<"Vbar", 1>>
    [] c = "CARET" -> IF d = "EQ" THEN <<"CircumflexEqual", 2>> ELSE <<"CircumFlex", 1>>
    [] c = "AMP" -> IF d = "EQ" THEN <<"AmperEqual", 2>> ELSE <<"Amper", 1>>
    [] c = "MINUS" -> IF d = "EQ" THEN <<"MinusEqual", 2>> ELSE IF d = "GT" THEN <<"Rarrow", 2>> ELSE <<"Minus", 1>>
    [] c = "AT" -> IF d = "EQ" THEN <<"AtEqual", 2>> ELSE <<"At", 1>>
    [] c = "BANG" -> IF d = "EQ" THEN <<"NotEqual", 2>> ELSE <<"ERR", 1>>
    [] c = "TILDE" -> <<"Tilde", 1>>
    [] c = "COLON" -> IF d = "EQ" THEN <<"ColonEqual", 2>> ELSE <<"Colon", 1>>
    [] c = "SEMI" -> <<"Semi", 1>>
    [] c = "LT" -> IF d = "LT" THEN (IF e = "EQ" THEN <<"LeftShiftEqual", 3>> ELSE <<"LeftShift", 2>>)
                   ELSE IF d = "EQ" THEN <<"LessEqual", 2>> ELSE <<"Less", 1>>
    [] c = "GT" -> IF d = "GT" THEN (IF e = "EQ" THEN <<"RightShiftEqual", 3>> ELSE <<"RightShift", 2>>)
                   ELSE IF d = "EQ" THEN <<"GreaterEqual", 2>> ELSE <<"Greater", 1>>
    [] c = "COMMA" -> <<"Comma", 1>>
    [] c = "DOT" -> IF d = "DOT" /\ e = "DOT" THEN <<"Ellipsis", 3>> ELSE <<"Dot", 1>>
OpChars == {"EQ", "PLUS", "STAR", "SLASH", "PCT", "VBAR", "CARET", "AMP", "MINUS", "AT", "BANG", "TILDE", "COLON", "SEMI", "LT", "GT", "COMMA", "DOT"}
Openers == {"LP", "LB", "LC"}
Closers == {"RP", "RB", "RC"}
BracketTok(c) == CASE c = "LP" -> "Lpar" [] c = "RP" -> "Rpar" [] c = "LB" -> "Lsqb" [] c = "RB" -> "Rsqb" [] c = "LC" -> "Lbrace" [] c = "RC" -> "Rbrace"

\* ---------------- initial state --------------------------------------------------------------
\* Lexer::new: a BOM at the very start is skipped
InitLexer == /\ i = (IF At(1) = "BOM" THEN 2 ELSE 1)
             /\ pos = Start + (IF At(1) = "BOM" THEN 3 ELSE 0)
             /\ atBol = TRUE /\ nesting = 0 /\ indents = << <<0, 0>> >>
             /\ pending = <<>> /\ err = NoErr /\ eof = FALSE

Running == err.k = "none" /\ ~eof

\* result of one consume_normal at (k, p) after indentation handling produced (stk, toks0, bol1)
Consume(k, p, stk, toks0, bol1) ==
  LET c == At(k)
      R(ni, np, toks, nest, bol, stk2, e) == [i |-> ni, pos |-> np, toks |-> toks, nesting |-> nest, bol |-> bol, stk |-> stk2, err |-> e]
  IN
  CASE c = "EOF" ->
         IF nesting > 0 THEN R(k, p, toks0, nesting, bol1, stk, E("Eof", p))
         ELSE R(k, p,
                toks0 \o (IF ~bol1 THEN << Tok("Newline", p, p, k, k) >> ELSE <<>>)
                      \o [j \in 1..(Len(stk) - 1) |-> Tok("Dedent", p, p, k, k)]
                      \o << Tok("EndOfFile", p, p, k, k) >>,
                nesting, TRUE, << <<0, 0>> >>, NoErr)
    [] IsIdStart(c) ->
         LET pl == PrefixLen(k) IN
         IF pl > 0
         THEN LET r == LexString(k, p, pl) IN
              IF r.err.k = "none" THEN R(r.i, r.pos, Append(toks0, Tok("String", p, r.pos, k, r.i)), nesting, bol1, stk, NoErr)
              ELSE R(r.i, r.pos, toks0, nesting, bol1, stk, r.err)
         ELSE LET r == IdEnd(k, p) IN R(r[1], r[2], Append(toks0, Tok("Word", p, r[2], k, r[1])), nesting, bol1, stk, NoErr)
    [] c \in Digits \/ (c = "DOT" /\ At(k + 1) \in Digits) ->
         LET r == LexNumber(k, p) IN
         IF r.err.k = "none" THEN R(r.i, r.pos, Append(toks0, Tok(r.kind, p, r.pos, k, r.i)), nesting, bol1, stk, NoErr)
         ELSE R(r.i, r.pos, toks0, nesting, bol1, stk, r.err)
    [] c = "HASH" -> LET r == LineEnd(k, p) IN
         R(r[1], r[2], IF FullLexer THEN Append(toks0, Tok("Comment", p, r[2], k, r[1])) ELSE toks0, nesting, bol1, stk, NoErr)
    [] IsQuote(c) ->
         LET r == LexString(k, p, 0) IN
         IF r.err.k = "none" THEN R(r.i, r.pos, Append(toks0, Tok("String", p, r.pos, k, r.i)), nesting, bol1, stk, NoErr)
         ELSE R(r.i, r.pos, toks0, nesting, bol1, stk, r.err)
    [] c \in OpChars ->
         LET o == Op(k) IN
         IF o[1] = "ERR" THEN R(k + 1, p + 1, toks0, nesting, bol1, stk, E("UnrecognizedToken", p))
         ELSE R(k + o[2], p + o[2], Append(toks0, Tok(o[1], p, p + o[2], k, k + o[2])), nesting, bol1, stk, NoErr)
    [] c \in Openers -> R(k + 1, p + 1, Append(toks0, Tok(BracketTok(c), p, p + 1, k, k + 1)), nesting + 1, bol1, stk, NoErr)
    [] c \in Closers ->
         IF nesting = 0 THEN R(k + 1, p + 1, Append(toks0, Tok(BracketTok(c), p, p + 1, k, k + 1)), nesting, bol1, stk, E("NestingError", p + 1))
         ELSE R(k + 1, p + 1, Append(toks0, Tok(BracketTok(c), p, p + 1, k, k + 1)), nesting - 1, bol1, stk, NoErr)
    [] IsNL(c) ->
         IF nesting = 0 THEN R(AdvI(k), AdvP(k, p), Append(toks0, Tok("Newline", p, AdvP(k, p), k, AdvI(k))), nesting, TRUE, stk, NoErr)
         ELSE R(AdvI(k), AdvP(k, p), IF FullLexer THEN Append(toks0, Tok("NonLogicalNewline", p, AdvP(k, p), k, AdvI(k))) ELSE toks0,
                nesting, bol1, stk, NoErr)
    [] c \in {"SP", "TAB", "FF"} -> LET r == WsEnd(k, p) IN R(r[1], r[2], toks0, nesting, bol1, stk, NoErr)
    [] c = "BS" ->
         IF IsNL(At(k + 1))
         THEN LET k2 == AdvI(k + 1) p2 == AdvP(k + 1, p + 1) IN
              R(k2, p2, toks0, nesting, bol1, stk, IF At(k2) = "EOF" THEN E("Eof", p2) ELSE NoErr)
         ELSE R(k + 1, p + 1, toks0, nesting, bol1, stk, E("LineContinuationError", p + 1))
    [] c \in {"EM3", "EM4"} -> R(k + 1, p + Bytes(c), Append(toks0, Tok("Name", p, p + Bytes(c), k, k + 1)), nesting, bol1, stk, NoErr)
    [] OTHER -> R(k + 1, p + Bytes(c), toks0, nesting, bol1, stk, E("UnrecognizedToken", p + Bytes(c)))

Step ==
  /\ Running /\ pending = <<>>
  /\ LET ind == IF atBol THEN Eat(i, pos, 0, 0, <<>>)
                ELSE [i |-> i, pos |-> pos, sp |-> 0, tb |-> 0, toks |-> <<>>, err |-> NoErr, bol |-> FALSE]
         hi == IF ~atBol \/ ind.err.k # "none" \/ nesting # 0
               THEN [stk |-> indents, toks |-> ind.toks, err |-> ind.err]
               ELSE LET lvl == <<ind.tb, ind.sp>>
                        c == Cmp(lvl, indents[Len(indents)]) IN
                    CASE c = "EQ" -> [stk |-> indents, toks |-> ind.toks, err |-> NoErr]
                      [] c = "GT" -> [stk |-> Append(indents, lvl),
                                      toks |-> Append(ind.toks, Tok("Indent", ind.pos - ind.sp - ind.tb, ind.pos, ind.i - ind.sp - ind.tb, ind.i)),
                                      err |-> NoErr]
                      [] c = "LT" -> Dedents(indents, lvl, ind.pos, ind.i, ind.toks)
                      [] OTHER -> [stk |-> indents, toks |-> ind.toks, err |-> E("TabError", ind.pos)]
         bol1 == IF atBol THEN ind.bol ELSE FALSE
     IN
     IF hi.err.k # "none"
     THEN /\ err' = hi.err /\ pending' = hi.toks /\ indents' = hi.stk /\ i' = ind.i /\ pos' = ind.pos /\ atBol' = bol1
          /\ UNCHANGED <<inp, boff, nesting, eof>>
     ELSE LET r == Consume(ind.i, ind.pos, hi.stk, hi.toks, bol1) IN
          /\ i' = r.i /\ pos' = r.pos /\ pending' = r.toks /\ nesting' = r.nesting /\ atBol' = r.bol
          /\ indents' = r.stk /\ err' = r.err /\ UNCHANGED <<inp, boff, eof>>

\* Ok(self.pending.remove(0)); EndOfFile ends the iteration.  An error is returned by the call in which it occurs,
\* before anything that the failing step had already queued (those tokens are only delivered by later calls), so the
\* observable stream up to the first error consists of the tokens popped before it.
PopTok == Head(pending)
Pop == /\ pending # <<>> /\ ~eof /\ err.k = "none"
       /\ eof' = (Head(pending).k = "EndOfFile")
       /\ pending' = Tail(pending)
       /\ UNCHANGED <<inp, boff, i, pos, atBol, nesting, indents, err>>
Finished == eof \/ err.k # "none"
=======================================================================

CONSTANTS
  MaxLen = 7
  Alphabet = {"La", "SP", "TAB", "LF"}
  FullLexer = FALSE
  Start = 0
  Emit = TRUE
SPECIFICATION Spec
INVARIANTS InBounds OnBoundaries Ordered GapsOK SpellOK LongestOK BalanceOK IndentPlaceOK ErrInBounds CursorOK EmitOK
PROPERTIES Progress
CHECK_DEADLOCK FALSE

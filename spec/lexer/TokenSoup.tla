---------------------------- MODULE TokenSoup ----------------------------
(* Generator for C03: every sequence of up to MaxLen tokens over a token     *)
(* alphabet (keywords, names, literals, operators, brackets, line structure) *)
(* -- mostly ungrammatical "token soups".  The text is the tokens joined by  *)
(* single spaces (NL / IND are written as line breaks / a line break plus    *)
(* indentation).                                                             *)
EXTENDS Naturals, Sequences, TLC, Json
CONSTANTS MaxLen, Tokens, Emit
VARIABLES soup, done
vars == <<soup, done>>
Init == soup = <<>> /\ done = FALSE
Add == ~done /\ Len(soup) < MaxLen /\ \E t \in Tokens : soup' = Append(soup, t) /\ UNCHANGED done
Stop == ~done /\ done' = TRUE /\ UNCHANGED soup
Next == Add \/ Stop
Spec == Init /\ [][Next]_vars
EmitOK == (Emit /\ done) => PrintT("REPLAY" \o ToJson([fam |-> "soup", toks |-> soup]))
=======================================================================

CONSTANTS
  MaxLen = 6
  First = {"Match", "Case", "Type", "Name", "Lpar", "Lambda", "Int"}
  Alphabet = {"Match", "Case", "Type", "Name", "Colon", "Equal", "Lpar", "Rpar", "Lsqb", "Rsqb", "Lambda", "Comma", "Dot", "Semi", "Int"}
  Mode = "Module"
  FullLexer = FALSE
  Emit_ = TRUE
SPECIFICATION Spec
INVARIANTS Shape MidLineIsName KeywordHasColon TypeKeywordHasEqual AliasNameIsName Report
CHECK_DEADLOCK FALSE

CONSTANTS
  MaxLen = 8
  First = {"Match", "Type", "Name", "Comment", "NonLogicalNewline"}
  Alphabet = {"Match", "Case", "Type", "Name", "Colon", "Equal", "Lpar", "Rpar"}
  Emit_ = TRUE
SPECIFICATION Spec
INVARIANTS FilterOK Report
CHECK_DEADLOCK FALSE

---------------------------- MODULE SoftKwTrace ----------------------------
(* Trace validation of the real SoftKeywordTransformer: for every logical     *)
(* line of a real source file the harness records the token kinds the lexer   *)
(* produced (`raw`, from Lexer::new) and the kinds `lex()` returned for the   *)
(* same tokens (`out`, after the transformer).  TLC replays the recorded raw  *)
(* kinds through SoftKw!Emit, one step per token, and a line is matched only  *)
(* if the machine's output equals the recorded output.  start_of_line is      *)
(* carried by the machine from line to line (it is not logged).               *)
EXTENDS SoftKw, IOUtils
Log == ndJsonDeserialize(IOEnv.TRACE)
VARIABLE l
tvars == <<vars, l>>
tview == <<pos, sol, out, l>>

TInit == /\ l = 1 /\ raw = Log[1].raw /\ pos = 1 /\ sol = TRUE /\ out = <<>>
TEmit == pos <= Len(raw) /\ Emit /\ UNCHANGED l
\* end of a recorded line: the transformer's output must be the recorded one; load the next line
TLine == /\ pos > Len(raw) /\ l <= Len(Log)
         /\ out = Log[l].out
         /\ l' = l + 1
         /\ IF l + 1 <= Len(Log)
            THEN /\ raw' = Log[l + 1].raw /\ pos' = 1 /\ out' = <<>>
                 /\ sol' = (IF Log[l + 1].first THEN TRUE ELSE sol)     \* a new file starts a new transformer
            ELSE UNCHANGED <<raw, pos, out, sol>>
TNext == TEmit \/ TLine
TSpec == TInit /\ [][TNext]_tvars

Track == TLCSet(1, IF TLCGet(1) > l THEN TLCGet(1) ELSE l)
TraceAccepted ==
   IF TLCGet(1) = Len(Log) + 1 THEN TRUE
   ELSE /\ PrintT("UNMATCHED at " \o ToString(TLCGet(1)))
        /\ FALSE
ASSUME TLCSet(1, 0)
=============================================================================

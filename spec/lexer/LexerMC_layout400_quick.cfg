CONSTANTS
  MaxLen = 4
  Alphabet = {"La", "SP", "TAB", "FF", "LF", "CR", "HASH", "BS", "LP", "RP", "COLON"}
  FullLexer = FALSE
  Start = 400
  Emit = TRUE
SPECIFICATION Spec
INVARIANTS InBounds OnBoundaries Ordered GapsOK SpellOK LongestOK BalanceOK IndentPlaceOK ErrInBounds CursorOK EmitOK
PROPERTIES Progress
CHECK_DEADLOCK FALSE

CONSTANTS
  MaxLen = 7
  First = {"Match", "Case", "Type"}
  Alphabet = {"Type", "Name", "Colon", "Equal", "Lpar", "Rpar", "Lsqb", "Rsqb"}
  Mode = "Module"
  FullLexer = FALSE
  Emit_ = TRUE
SPECIFICATION Spec
INVARIANTS Shape MidLineIsName KeywordHasColon TypeKeywordHasEqual AliasNameIsName Report
CHECK_DEADLOCK FALSE

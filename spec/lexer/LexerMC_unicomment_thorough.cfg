CONSTANTS
  MaxLen = 5
  Alphabet = {"La", "XS2", "OT3", "EM4", "HASH", "SQ", "SP", "LF", "CR", "LP"}
  FullLexer = FALSE
  Start = 0
  Emit = TRUE
SPECIFICATION Spec
INVARIANTS InBounds OnBoundaries Ordered GapsOK SpellOK LongestOK BalanceOK IndentPlaceOK ErrInBounds CursorOK EmitOK
PROPERTIES Progress
CHECK_DEADLOCK FALSE

CONSTANTS
  MaxStack = 4
  Budget = 9
  Enabled = {"Name", "Call", "Comp", "Expression"}
  NameSet = {"a"}
  ExtraParens = FALSE
  Emit = TRUE
  Variant = "fixed"
SPECIFICATION Spec
INVARIANTS UEmitOK RoundTripSafe
CHECK_DEADLOCK FALSE

CONSTANTS
  MaxStack = 4
  Budget = 4
  Enabled = {"Name", "Const", "Set", "Dict", "Comp", "AsyncComp", "NamedExpr", "Await", "Lambda", "Yield", "Tuple", "Expression"}
  NameSet = {"a", "b"}
  ExtraParens = TRUE
  Emit = TRUE
SPECIFICATION Spec
INVARIANTS EmitOK
CHECK_DEADLOCK FALSE

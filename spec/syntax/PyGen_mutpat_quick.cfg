CONSTANTS
  MaxStack = 3
  Budget = 4
  Enabled = {"Mut", "Name", "Match", "PatOnly", "SimpleStmt", "Module"}
  NameSet = {"a"}
  ExtraParens = FALSE
  Emit = TRUE
SPECIFICATION Spec
INVARIANTS EmitMutOK
CHECK_DEADLOCK FALSE

CONSTANTS
  MaxStack = 4
  Budget = 7
  Enabled = {"Name", "Call", "Comp", "Starred", "Expression"}
  NameSet = {"a"}
  Emit = TRUE
SPECIFICATION Spec
INVARIANTS EmitOK
CHECK_DEADLOCK FALSE

CONSTANTS
  MaxStack = 3
  Budget = 3
  Enabled = {"Name", "Const", "UnaryOp", "BinOp", "BoolOp", "Compare", "IfExp", "NamedExpr", "Await", "Attribute", "Starred", "Call", "Slice", "Subscript", "Tuple", "List", "Set", "Dict", "Comp", "Lambda", "Yield", "Expression"}
  NameSet = {"a"}
  ExtraParens = FALSE
  Emit = TRUE
  Variant = "fixed"
SPECIFICATION Spec
INVARIANTS UEmitOK RoundTripSafe
CHECK_DEADLOCK FALSE

CONSTANTS
  MaxLen = 5
  Emit = TRUE
SPECIFICATION Spec
INVARIANTS AcceptedSane EmitOK
CHECK_DEADLOCK FALSE

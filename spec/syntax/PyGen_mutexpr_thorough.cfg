CONSTANTS
  MaxStack = 3
  Budget = 3
  Enabled = {"Mut", "MutAll", "Name", "UnaryOp", "BinOp", "Call", "Tuple", "List", "Lambda", "IfExp", "Subscript", "Attribute", "Expression"}
  NameSet = {"a"}
  ExtraParens = FALSE
  Emit = TRUE
SPECIFICATION Spec
INVARIANTS EmitMutOK
CHECK_DEADLOCK FALSE

------------------------------ MODULE ArgRules ------------------------------
(* C04 -- the rules on parameter lists and call argument lists, decided for every short list.

   PyGen.tla plants chosen invalid signatures inside programs.  This module enumerates *every* list up to MaxLen over
   an alphabet of parameter items (resp. argument items) and decides, by the reference's rules, whether the list is
   accepted and, if not, which rule is the first one broken (in the order the parser reports: grammar shape first, then
   the checks of parser/src/function.rs).

   Parameters: items a, b (plain), a=, b= (with default), c= (another defaulted name), "/", "*", "*v", "**w", "*a" /
   "**a" (star parameters reusing the name a).
     shape   "/" at most once, not first, before any star item; at most one of "*" / "*x"; "**x" at most once and last;
     rules   duplicate name | non-default after default (positional parameters, across "/") | bare "*" with no named
             parameter after it.
   Arguments: items x (positional), *s (iterable unpacking), k=, k2= (keywords), k= again (repeated), **d (mapping
   unpacking).
     rules   positional after keyword or after **d | *s after **d | repeated keyword.
   The machine appends items; every list is a terminal state with its verdict.  Replay: CPython validates the verdict
   (its parser or, for duplicates, its compiler with the rule's message); the parser must give the same verdict with
   the error kind of the rule, for def, async def, lambda (parameters) and calls, decorators, class headers (arguments). *)
EXTENDS Naturals, Sequences, FiniteSets, TLC, Json

CONSTANTS MaxLen, Emit

VARIABLES kind, items, done
vars == <<kind, items, done>>

ParamItems == {"a", "b", "a=", "b=", "c=", "/", "*", "*v", "**w", "*a", "**a"}
ArgItems == {"x", "*s", "k=", "k2=", "**d"}

IsStar(it) == it \in {"*", "*v", "*a"}
IsDStar(it) == it \in {"**w", "**a"}
IsNamed(it) == it \in {"a", "b", "a=", "b=", "c="}
HasDefault(it) == it \in {"a=", "b=", "c="}
NameOf(it) == CASE it \in {"a", "a=", "*a", "**a"} -> "a" [] it \in {"b", "b="} -> "b" [] it = "c=" -> "c" [] it = "*v" -> "v" [] it = "**w" -> "w" [] OTHER -> ""

Idx(s, P(_)) == {j \in 1..Len(s) : P(s[j])}
First(S) == CHOOSE m \in S : \A y \in S : m <= y

(* ---------------------------------------------------------------- parameters *)
ParamShapeOK(s) ==
  LET slash == Idx(s, LAMBDA it : it = "/")
      stars == Idx(s, IsStar)
      dstars == Idx(s, IsDStar) IN
  /\ Cardinality(slash) <= 1 /\ (slash # {} => (First(slash) > 1 /\ \A j \in stars \cup dstars : j > First(slash)))
  /\ Cardinality(stars) <= 1
  /\ Cardinality(dstars) <= 1 /\ (dstars # {} => First(dstars) = Len(s))
  /\ (stars # {} /\ dstars # {} => First(stars) < First(dstars))

\* positional parameters: the named items before the star item (or all of them)
PosEnd(s) == LET stars == Idx(s, IsStar) \cup Idx(s, IsDStar) IN IF stars = {} THEN Len(s) ELSE First(stars) - 1
DefaultOrderBroken(s) == \E i, j \in 1..PosEnd(s) : i < j /\ IsNamed(s[i]) /\ IsNamed(s[j]) /\ HasDefault(s[i]) /\ ~HasDefault(s[j])
Duplicate(s) == \E i, j \in 1..Len(s) : i < j /\ NameOf(s[i]) # "" /\ NameOf(s[i]) = NameOf(s[j])
\* a bare star needs a named (keyword-only) parameter after it; **w does not count
BareStarAlone(s) == \E i \in 1..Len(s) : s[i] = "*" /\ ~(\E j \in (i + 1)..Len(s) : IsNamed(s[j]))
\* the form the parser is known to accept although the reference rejects it (F-C04-1): "*" followed only by **w
BareStarThenKwargs(s) == \E i \in 1..Len(s) : s[i] = "*" /\ ~(\E j \in (i + 1)..Len(s) : IsNamed(s[j])) /\ \E j \in (i + 1)..Len(s) : IsDStar(s[j])

ParamVerdict(s) ==
  IF ~ParamShapeOK(s) THEN "shape"
  ELSE IF BareStarAlone(s) THEN "param.bare_star"
  ELSE IF DefaultOrderBroken(s) THEN "param.default_order"
  ELSE IF Duplicate(s) THEN "param.duplicate"
  ELSE "ok"
\* every rule the list breaks (the parser and the reference may report different ones first)
ParamBroken(s) == (IF BareStarAlone(s) THEN {"param.bare_star"} ELSE {}) \cup (IF DefaultOrderBroken(s) THEN {"param.default_order"} ELSE {})
                  \cup (IF Duplicate(s) THEN {"param.duplicate"} ELSE {})

(* ---------------------------------------------------------------- arguments *)
IsKw(it) == it \in {"k=", "k2="}
PosAfterKw(s) == \E i, j \in 1..Len(s) : i < j /\ (IsKw(s[i]) \/ s[i] = "**d") /\ s[j] = "x"
StarAfterDStar(s) == \E i, j \in 1..Len(s) : i < j /\ s[i] = "**d" /\ s[j] = "*s"
RepeatedKw(s) == \E i, j \in 1..Len(s) : i < j /\ IsKw(s[i]) /\ s[i] = s[j]
ArgBroken(s) == (IF PosAfterKw(s) THEN {"call.positional_after_keyword"} ELSE {}) \cup (IF StarAfterDStar(s) THEN {"call.star_after_dstar"} ELSE {})
                \cup (IF RepeatedKw(s) THEN {"call.duplicate_keyword"} ELSE {})
ArgVerdict(s) == IF ArgBroken(s) = {} THEN "ok" ELSE "broken"

(* ---------------------------------------------------------------- machine *)
Init == kind \in {"params", "args"} /\ items = <<>> /\ done = FALSE
Grow == ~done /\ Len(items) < MaxLen /\ \E it \in (IF kind = "params" THEN ParamItems ELSE ArgItems) : items' = Append(items, it) /\ UNCHANGED <<kind, done>>
Stop == ~done /\ done' = TRUE /\ UNCHANGED <<kind, items>>
Next == Grow \/ Stop
Spec == Init /\ [][Next]_vars

\* sanity: an accepted parameter list has no two parameters of one name and its defaults are contiguous at the end of the positional part
AcceptedSane == (done /\ kind = "params" /\ ParamVerdict(items) = "ok") =>
                   /\ ~Duplicate(items)
                   /\ \A i, j \in 1..PosEnd(items) : (i < j /\ IsNamed(items[i]) /\ IsNamed(items[j]) /\ HasDefault(items[i])) => HasDefault(items[j])

EmitOK == (Emit /\ done) =>
   PrintT("REPLAY" \o ToJson(IF kind = "params"
             THEN [kind |-> kind, items |-> items, verdict |-> ParamVerdict(items), broken |-> ParamBroken(items), pinned_accepts |-> (ParamShapeOK(items) /\ BareStarThenKwargs(items) /\ ParamBroken(items) = {"param.bare_star"})]
             ELSE [kind |-> kind, items |-> items, verdict |-> ArgVerdict(items), broken |-> ArgBroken(items), pinned_accepts |-> FALSE]))
=============================================================================

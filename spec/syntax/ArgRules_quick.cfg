CONSTANTS
  MaxLen = 4
  Emit = TRUE
SPECIFICATION Spec
INVARIANTS AcceptedSane EmitOK
CHECK_DEADLOCK FALSE

CONSTANTS
  MaxStack = 4
  Budget = 4
  Enabled = {"Name", "Const", "Set", "Dict", "Comp", "AsyncComp", "NamedExpr", "Await", "Lambda", "Yield", "Tuple", "Expression"}
  NameSet = {"a", "b"}
  ExtraParens = FALSE
  Emit = TRUE
  Variant = "fixed"
SPECIFICATION Spec
INVARIANTS UEmitOK RoundTripSafe
CHECK_DEADLOCK FALSE

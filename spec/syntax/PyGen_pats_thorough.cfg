CONSTANTS
  MaxStack = 3
  Budget = 5
  Enabled = {"Match", "PatOnly", "Module"}
  NameSet = {"a", "b"}
  ExtraParens = FALSE
  Emit = TRUE
SPECIFICATION Spec
INVARIANTS EmitOK
CHECK_DEADLOCK FALSE

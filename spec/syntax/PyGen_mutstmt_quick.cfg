CONSTANTS
  MaxStack = 3
  Budget = 4
  Enabled = {"Mut", "Name", "Call", "Lambda", "Expr", "Assign", "Return", "If", "While", "Def", "Class", "With", "SimpleStmt", "Module"}
  NameSet = {"a"}
  ExtraParens = FALSE
  Emit = TRUE
SPECIFICATION Spec
INVARIANTS EmitMutOK
CHECK_DEADLOCK FALSE

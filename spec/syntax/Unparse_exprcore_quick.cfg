CONSTANTS
  MaxStack = 4
  Budget = 4
  Enabled = {"Name", "Const", "UnaryOp", "BinOp", "BoolOp", "Compare", "IfExp", "Expression"}
  NameSet = {"a", "b"}
  ExtraParens = FALSE
  Emit = TRUE
  Variant = "fixed"
SPECIFICATION Spec
INVARIANTS UEmitOK RoundTripSafe
CHECK_DEADLOCK FALSE

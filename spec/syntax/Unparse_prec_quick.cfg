CONSTANTS
  MaxStack = 4
  Budget = 3
  Enabled = {"Name", "UnaryOp", "BinOp", "Await", "Attribute", "Call", "NamedExpr", "Lambda", "IfExp", "Tuple", "Starred", "Compare", "BoolOp", "Yield", "Expression"}
  NameSet = {"a", "b"}
  ExtraParens = FALSE
  Emit = TRUE
  Variant = "fixed"
SPECIFICATION Spec
INVARIANTS UEmitOK RoundTripSafe
CHECK_DEADLOCK FALSE

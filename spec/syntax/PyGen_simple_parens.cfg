CONSTANTS
  MaxStack = 3
  Budget = 3
  Enabled = {"Name", "Const", "Tuple", "Starred", "Attribute", "Subscript", "Expr", "Assign", "AugAssign", "AnnAssign", "Return", "Delete", "Raise", "Assert", "Global", "Import", "SimpleStmt", "TypeAlias", "Module", "Yield", "List"}
  NameSet = {"a", "b"}
  ExtraParens = TRUE
  Emit = TRUE
SPECIFICATION Spec
INVARIANTS EmitOK
CHECK_DEADLOCK FALSE

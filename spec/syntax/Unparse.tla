----------------------------- MODULE Unparse -----------------------------
(* C11 -- unparsing an expression and parsing it again gives the same expression.

   PyGen builds every expression tree within a budget and renders it (R) with exactly the parentheses the grammar
   needs; C01 shows that the parser maps that text to the tree, C08 that redundant parentheses around expressions
   do not change the tree.  This module adds the unparser:

     U(n, lvl)  -- mirror of ast/src/unparse.rs Unparser::unparse_expr: the same sixteen precedence levels, the same
                   level passed to every child, group_if(level > prec), the special forms (yield always
                   parenthesised, a sole generator argument shares the call's parentheses, one-element tuples, "/"
                   and "*" markers of parameter lists).  Variant = "pinned" mirrors the pinned tree (dictionary
                   unpacking rendered at TEST level).

   M: RoundTripSafe -- for every generated tree the unparser's token sequence is the grammar's rendering plus
      redundant parenthesis pairs only (Aligned): no needed pair is missing, no other token differs.  With C01/C08
      this is the round-trip claim for every (parent, child, side) combination within the budget.
   G: the emitted record carries U's tokens; the replay checks that the real unparser prints exactly these tokens
      (so the mirror is the code), re-parses the text, compares the trees and re-unparses (fixed point). *)
EXTENDS PyGen

CONSTANT Variant

uTUPLE == 0  uTEST == 1  uOR == 2  uAND == 3  uNOT == 4  uCMP == 5  uBOR == 6  uBXOR == 7  uBAND == 8
uSHIFT == 9  uARITH == 10  uTERM == 11  uFACTOR == 12  uPOWER == 13  uAWAIT == 14  uATOM == 15
uEXPR == uBOR

UBinPrec(op) == CASE op \in {"Add", "Sub"} -> uARITH
                  [] op \in {"Mult", "MatMult", "Div", "Mod", "FloorDiv"} -> uTERM
                  [] op = "Pow" -> uPOWER
                  [] op \in {"LShift", "RShift"} -> uSHIFT
                  [] op = "BitOr" -> uBOR [] op = "BitXor" -> uBXOR [] op = "BitAnd" -> uBAND

S(s) == <<s>>
UG(grp, body) == IF grp THEN <<"(">> \o body \o <<")">> ELSE body
RECURSIVE UCat(_)
UCat(seqs) == IF seqs = <<>> THEN <<>> ELSE seqs[1] \o UCat(Tail(seqs))
\* p_delim(first, ", ")
RECURSIVE UCommas(_)
UCommas(seqs) == IF seqs = <<>> THEN <<>> ELSE IF Len(seqs) = 1 THEN seqs[1] ELSE seqs[1] \o <<",">> \o UCommas(Tail(seqs))

\* the level at which the value of a dictionary unpacking is written
DStarLevel == IF Variant = "pinned" THEN uTEST ELSE uEXPR

RECURSIVE U(_, _), UComp(_), UArgs(_)
U(n, lvl) ==
  CASE n.k = "BoolOp" ->
         LET prec == IF n.op = "And" THEN uAND ELSE uOR
             op == IF n.op = "And" THEN "and" ELSE "or"
             RECURSIVE J(_)
             J(j) == IF j > Len(n.values) THEN <<>> ELSE (IF j > 1 THEN <<op>> ELSE <<>>) \o U(n.values[j], prec + 1) \o J(j + 1)
         IN UG(lvl > prec, J(1))
    [] n.k = "NamedExpr" -> UG(lvl > uTUPLE, U(n.target, uATOM) \o <<":=">> \o U(n.value, uATOM))
    [] n.k = "BinOp" ->
         LET prec == UBinPrec(n.op)
             ra == IF n.op = "Pow" THEN 1 ELSE 0
         IN UG(lvl > prec, U(n.left, prec + ra) \o <<BinText(n.op)>> \o U(n.right, prec + (1 - ra)))
    [] n.k = "UnaryOp" ->
         LET prec == IF n.op = "Not" THEN uNOT ELSE uFACTOR IN UG(lvl > prec, <<UnaryText(n.op)>> \o U(n.operand, prec))
    [] n.k = "Lambda" -> UG(lvl > uTEST, <<"lambda">> \o UArgs(n.args) \o <<":">> \o U(n.body, uTEST))
    [] n.k = "IfExp" -> UG(lvl > uTEST, U(n.body, uTEST + 1) \o <<"if">> \o U(n.test, uTEST + 1) \o <<"else">> \o U(n.orelse, uTEST))
    [] n.k = "Dict" ->
         <<"{">> \o UCommas([j \in 1..Len(n.values) |->
                     IF n.keys[j].k = "~" THEN <<"**">> \o U(n.values[j], DStarLevel)
                     ELSE U(n.keys[j], uTEST) \o <<":">> \o U(n.values[j], uTEST)]) \o <<"}">>
    [] n.k = "Set" -> <<"{">> \o UCommas([j \in 1..Len(n.elts) |-> U(n.elts[j], uTEST)]) \o <<"}">>
    [] n.k = "ListComp" -> <<"[">> \o U(n.elt, uTEST) \o UComp(n.generators) \o <<"]">>
    [] n.k = "SetComp" -> <<"{">> \o U(n.elt, uTEST) \o UComp(n.generators) \o <<"}">>
    [] n.k = "DictComp" -> <<"{">> \o U(n.key, uTEST) \o <<":">> \o U(n.value, uTEST) \o UComp(n.generators) \o <<"}">>
    [] n.k = "GeneratorExp" -> <<"(">> \o U(n.elt, uTEST) \o UComp(n.generators) \o <<")">>
    [] n.k = "Await" -> UG(lvl > uAWAIT, <<"await">> \o U(n.value, uATOM))
    [] n.k = "Yield" -> <<"(", "yield">> \o (IF n.value.k = "~" THEN <<>> ELSE U(n.value, uTEST)) \o <<")">>
    [] n.k = "YieldFrom" -> <<"(", "yield", "from">> \o U(n.value, uTEST) \o <<")">>
    [] n.k = "Compare" ->
         LET RECURSIVE J(_)
             J(j) == IF j > Len(n.ops) THEN <<>> ELSE CmpText(n.ops[j]) \o U(n.comparators[j], uCMP + 1) \o J(j + 1)
         IN UG(lvl > uCMP, U(n.left, uCMP + 1) \o J(1))
    [] n.k = "Call" ->
         U(n.func, uATOM) \o <<"(">>
         \o (IF Len(n.args) = 1 /\ n.keywords = <<>> /\ n.args[1].k = "GeneratorExp"
             THEN U(n.args[1].elt, uTEST) \o UComp(n.args[1].generators)       \* no double parentheses
             ELSE UCommas([j \in 1..Len(n.args) |-> U(n.args[j], uTEST)]
                          \o [j \in 1..Len(n.keywords) |->
                                (IF n.keywords[j].arg = NoStr THEN <<"**">> ELSE <<n.keywords[j].arg, "=">>) \o U(n.keywords[j].value, uTEST)]))
         \o <<")">>
    [] n.k = "Constant" -> <<n.src>>
    [] n.k = "Attribute" -> U(n.value, uATOM) \o <<".", n.attr>>
    [] n.k = "Subscript" -> U(n.value, uATOM) \o <<"[">> \o U(n.slice, uTUPLE) \o <<"]">>
    [] n.k = "Starred" -> <<"*">> \o U(n.value, uEXPR)
    [] n.k = "Name" -> <<n.id>>
    [] n.k = "List" -> <<"[">> \o UCommas([j \in 1..Len(n.elts) |-> U(n.elts[j], uTEST)]) \o <<"]">>
    [] n.k = "Tuple" ->
         IF n.elts = <<>> THEN <<"(", ")">>
         ELSE UG(lvl > uTUPLE, UCommas([j \in 1..Len(n.elts) |-> U(n.elts[j], uTEST)]) \o (IF Len(n.elts) = 1 THEN <<",">> ELSE <<>>))
    [] n.k = "Slice" ->
         (IF n.lower.k = "~" THEN <<>> ELSE U(n.lower, uTEST)) \o <<":">>
         \o (IF n.upper.k = "~" THEN <<>> ELSE U(n.upper, uTEST))
         \o (IF n.step.k = "~" THEN <<>> ELSE <<":">> \o U(n.step, uTEST))

UComp(gens) ==
  UCat([g \in 1..Len(gens) |->
          (IF gens[g].is_async = 1 THEN <<"async", "for">> ELSE <<"for">>)
          \o U(gens[g].target, uTUPLE) \o <<"in">> \o U(gens[g].iter, uTEST + 1)
          \o UCat([c \in 1..Len(gens[g].ifs) |-> <<"if">> \o U(gens[g].ifs[c], uTEST + 1)])])

\* unparse_arguments / unparse_function_arg / unparse_arg
UArgs(a) ==
  LET FArg(x) == <<x.def.arg>> \o (IF x.def.annotation.k = "~" THEN <<>> ELSE <<":">> \o U(x.def.annotation, uTEST))
                 \o (IF x.default.k = "~" THEN <<>> ELSE <<"=">> \o U(x.default, uTEST))
      PArg(x) == <<x.arg>> \o (IF x.annotation.k = "~" THEN <<>> ELSE <<":">> \o U(x.annotation, uTEST))
      pos == a.posonlyargs \o a.args
      np == Len(a.posonlyargs)
      parts == [i \in 1..Len(pos) |-> FArg(pos[i]) \o (IF i = np THEN <<",", "/">> ELSE <<>>)]
               \o (IF a.vararg.k # "~" \/ a.kwonlyargs # <<>> THEN << <<"*">> \o (IF a.vararg.k # "~" THEN PArg(a.vararg) ELSE <<>>) >> ELSE <<>>)
               \o [i \in 1..Len(a.kwonlyargs) |-> FArg(a.kwonlyargs[i])]
               \o (IF a.kwarg.k # "~" THEN << <<"**">> \o PArg(a.kwarg) >> ELSE <<>>)
  IN UCommas(parts)

(* ---------------------------------------------------------------- alignment *)
\* the grammar's rendering without range marks
Unmark(items) == LET ts == SelectSeq(items, LAMBDA it : it.i = "t") IN [j \in 1..Len(ts) |-> ts[j].s]

\* b is a with redundant parenthesis pairs added: walk both; a "(" of b either is a's or is extra (then its ")" is
\* skipped); any other token must be equal.  open = for every unclosed "(" of b whether it was matched.
RECURSIVE Al(_, _, _, _, _)
Al(b, a, i, j, open) ==
  IF i > Len(b) THEN j > Len(a) /\ open = <<>>
  ELSE IF b[i] = "(" THEN
         \/ (j <= Len(a) /\ a[j] = "(" /\ Al(b, a, i + 1, j + 1, Append(open, TRUE)))
         \/ Al(b, a, i + 1, j, Append(open, FALSE))
  ELSE IF b[i] = ")" THEN
         /\ open # <<>>
         /\ IF open[Len(open)]
            THEN j <= Len(a) /\ a[j] = ")" /\ Al(b, a, i + 1, j + 1, SubSeq(open, 1, Len(open) - 1))
            ELSE Al(b, a, i + 1, j, SubSeq(open, 1, Len(open) - 1))
  ELSE j <= Len(a) /\ a[j] = b[i] /\ Al(b, a, i + 1, j + 1, open)
Aligned(b, a) == Al(b, a, 1, 1, <<>>)

(* two spec-only rendering choices give the same tree twice; the unparser prints one form, compare with that one *)
Opt(x) == IF x.k = "~" THEN <<>> ELSE <<x>>
GenKids(gens) == UCat([g \in 1..Len(gens) |-> <<gens[g].target, gens[g].iter>> \o gens[g].ifs])
ArgKids(a) == UCat([i \in 1..Len(a.posonlyargs) |-> Opt(a.posonlyargs[i].default)]) \o UCat([i \in 1..Len(a.args) |-> Opt(a.args[i].default)])
              \o UCat([i \in 1..Len(a.kwonlyargs) |-> Opt(a.kwonlyargs[i].default)])
Kids(n) ==
  CASE n.k = "BoolOp" -> n.values
    [] n.k = "NamedExpr" -> <<n.target, n.value>>
    [] n.k = "BinOp" -> <<n.left, n.right>>
    [] n.k = "UnaryOp" -> <<n.operand>>
    [] n.k = "Lambda" -> ArgKids(n.args) \o <<n.body>>
    [] n.k = "IfExp" -> <<n.test, n.body, n.orelse>>
    [] n.k = "Dict" -> UCat([j \in 1..Len(n.keys) |-> Opt(n.keys[j])]) \o n.values
    [] n.k \in {"Set", "List", "Tuple"} -> n.elts
    [] n.k \in {"ListComp", "SetComp", "GeneratorExp"} -> <<n.elt>> \o GenKids(n.generators)
    [] n.k = "DictComp" -> <<n.key, n.value>> \o GenKids(n.generators)
    [] n.k \in {"Await", "YieldFrom", "Starred", "Attribute"} -> <<n.value>>
    [] n.k = "Yield" -> Opt(n.value)
    [] n.k = "Compare" -> <<n.left>> \o n.comparators
    [] n.k = "Call" -> <<n.func>> \o n.args \o [j \in 1..Len(n.keywords) |-> n.keywords[j].value]
    [] n.k = "Subscript" -> <<n.value, n.slice>>
    [] n.k = "Slice" -> Opt(n.lower) \o Opt(n.upper) \o Opt(n.step)
    [] OTHER -> <<>>
RECURSIVE HasChoice(_)
HasChoice(n) ==
  \/ (n.k = "Tuple" /\ "noTrail" \in DOMAIN n /\ n.noTrail)
  \/ (n.k = "Call" /\ ~n.bareGen /\ Len(n.args) = 1 /\ n.keywords = <<>> /\ n.args[1].k = "GeneratorExp")
  \/ \E j \in 1..Len(Kids(n)) : HasChoice(Kids(n)[j])

IsExprDone == done /\ ~IsModule
UToks == U(stack[1].t, uTEST)
Safe == Aligned(UToks, Unmark(Items))
RoundTripSafe == (IsExprDone /\ ~HasChoice(stack[1].t)) => Safe

UEmitOK == (Emit /\ IsExprDone /\ ~HasChoice(stack[1].t)) =>
              PrintT("REPLAY" \o ToJson([fam |-> "unparse", mode |-> "Expression", tree |-> Tree, items |-> Items, utoks |-> UToks, safe |-> Safe]))
=======================================================================

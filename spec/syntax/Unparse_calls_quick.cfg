CONSTANTS
  MaxStack = 4
  Budget = 7
  Enabled = {"Name", "Call", "Comp", "Starred", "Expression"}
  NameSet = {"a"}
  ExtraParens = FALSE
  Emit = TRUE
  Variant = "fixed"
SPECIFICATION Spec
INVARIANTS UEmitOK RoundTripSafe
CHECK_DEADLOCK FALSE

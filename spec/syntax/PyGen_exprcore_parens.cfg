CONSTANTS
  MaxStack = 4
  Budget = 4
  Enabled = {"Name", "Const", "UnaryOp", "BinOp", "BoolOp", "Compare", "IfExp", "Expression"}
  NameSet = {"a", "b"}
  ExtraParens = TRUE
  Emit = TRUE
SPECIFICATION Spec
INVARIANTS EmitOK
CHECK_DEADLOCK FALSE

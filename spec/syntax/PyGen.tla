----------------------------- MODULE PyGen -----------------------------
(* Generative definition of Python syntax with its abstract syntax trees.     *)
(*                                                                            *)
(* PyBuild: a typed stack machine builds every tree bottom-up, one action per *)
(*   node constructor (the counterpart of the LR reductions); each tree of    *)
(*   the abstract syntax is built by exactly one action sequence.             *)
(* PyWalk: Render turns a tree into concrete tokens with B/E range marks,     *)
(*   parenthesising a child exactly when its precedence level is below the    *)
(*   level its position requires (the grammar's need-parentheses relation).   *)
(* The emitted behaviour holds the token items and the expected tree (the     *)
(* reference tree of C01, in the normalised shape of tools/pytree.py).        *)
EXTENDS Integers, Sequences, FiniteSets, TLC, Json
CONSTANTS MaxStack,    \* maximal height of the construction stack (prunes constructions that cannot finish)
          Budget,      \* maximal number of nodes
          Enabled,     \* set of constructor names enabled in this configuration
          ExtraParens, \* render every expression with one redundant pair of parentheses (layout-only variant, C08)
          NameSet,     \* identifiers available to PushName (soft keywords included in some configurations)
          Emit

VARIABLES stack, used, done,
          mut          \* the rule broken by the one deliberately invalid construct of this program ("none": a valid program; C04)
vars == <<stack, used, done, mut>>

\* absent optional child: a node of kind "~"; absent optional name: the empty string
None == [k |-> "~"]
NoStr == ""
\* ---------------- abstract syntax (normalised shape) ----------------
Name(id, ctx) == [k |-> "Name", id |-> id, ctx |-> ctx]
\* constants carry their source token in `src` (not part of the tree: dropped by the reader)
IntC(digits) == [k |-> "Constant", value |-> [t |-> "int", v |-> digits], kind |-> NoStr, src |-> digits]
StrC(text) == [k |-> "Constant", value |-> [t |-> "str", v |-> text], kind |-> NoStr, src |-> "'" \o text \o "'"]
NoneC == [k |-> "Constant", value |-> [t |-> "None"], kind |-> NoStr, src |-> "None"]
EllipsisC == [k |-> "Constant", value |-> [t |-> "Ellipsis"], kind |-> NoStr, src |-> "..."]
TrueC == [k |-> "Constant", value |-> [t |-> "bool", v |-> TRUE], kind |-> NoStr, src |-> "True"]

\* precedence levels
TUPLE == 0  NAMED == 1  TEST == 2  OR == 3  AND == 4  NOT == 5  CMP == 6  BOR == 7  BXOR == 8  BAND == 9
SHIFT == 10  ARITH == 11  TERM == 12  FACTOR == 13  POWER == 14  AWAIT == 15  PRIMARY == 16  ATOM == 17  NOPAREN == 18
BinLevel(op) == CASE op = "BitOr" -> BOR [] op = "BitXor" -> BXOR [] op = "BitAnd" -> BAND
                  [] op \in {"LShift", "RShift"} -> SHIFT [] op \in {"Add", "Sub"} -> ARITH
                  [] op \in {"Mult", "Div", "FloorDiv", "Mod", "MatMult"} -> TERM [] op = "Pow" -> POWER
BinText(op) == CASE op = "BitOr" -> "|" [] op = "BitXor" -> "^" [] op = "BitAnd" -> "&" [] op = "LShift" -> "<<" [] op = "RShift" -> ">>"
                 [] op = "Add" -> "+" [] op = "Sub" -> "-" [] op = "Mult" -> "*" [] op = "Div" -> "/" [] op = "FloorDiv" -> "//"
                 [] op = "Mod" -> "%" [] op = "MatMult" -> "@" [] op = "Pow" -> "**"
BinOps == {"BitOr", "BitXor", "BitAnd", "LShift", "RShift", "Add", "Sub", "Mult", "Div", "FloorDiv", "Mod", "MatMult", "Pow"}
UnaryText(op) == CASE op = "Not" -> "not" [] op = "USub" -> "-" [] op = "UAdd" -> "+" [] op = "Invert" -> "~"
CmpOps == {"Eq", "NotEq", "Lt", "LtE", "Gt", "GtE", "Is", "IsNot", "In", "NotIn"}
CmpText(op) == CASE op = "Eq" -> <<"==">> [] op = "NotEq" -> <<"!=">> [] op = "Lt" -> <<"<">> [] op = "LtE" -> <<"<=">> [] op = "Gt" -> <<">">>
                 [] op = "GtE" -> <<">=">> [] op = "Is" -> <<"is">> [] op = "IsNot" -> <<"is", "not">> [] op = "In" -> <<"in">> [] op = "NotIn" -> <<"not", "in">>

Level(n) ==
   CASE n.k = "Tuple" -> TUPLE
     [] n.k = "NamedExpr" -> NAMED
     [] n.k \in {"IfExp", "Lambda"} -> TEST
     [] n.k = "BoolOp" -> (IF n.op = "Or" THEN OR ELSE AND)
     [] n.k = "UnaryOp" -> (IF n.op = "Not" THEN NOT ELSE FACTOR)
     [] n.k = "Compare" -> CMP
     [] n.k = "BinOp" -> BinLevel(n.op)
     [] n.k = "Await" -> AWAIT
     [] n.k \in {"Attribute", "Call", "Subscript"} -> PRIMARY
     [] n.k \in {"Yield", "YieldFrom"} -> 0        \* handled specially: parenthesised unless the position allows a bare yield
     [] OTHER -> ATOM

\* ---------------- rendering: items are tokens and range marks ----------------
T(s) == [i |-> "t", s |-> s]
Toks(ss) == [j \in 1..Len(ss) |-> T(ss[j])]
B(p) == [i |-> "B", p |-> p]
E(p) == [i |-> "E", p |-> p]
SliceNoTrail(t) == "noTrail" \in DOMAIN t /\ t.noTrail
RECURSIVE Cat(_)
Cat(seqs) == IF seqs = <<>> THEN <<>> ELSE seqs[1] \o Cat(Tail(seqs))
\* elements separated by commas
RECURSIVE Commas(_)
Commas(seqs) == IF seqs = <<>> THEN <<>> ELSE IF Len(seqs) = 1 THEN seqs[1] ELSE seqs[1] \o <<T(",")>> \o Commas(Tail(seqs))

RECURSIVE R(_, _, _), RGens(_, _), RArgs(_, _, _), RP(_, _, _), RTypeParams(_, _)
\* render node n at path p where the position requires level `need`;
\* need = -1 marks a position where a bare yield / unparenthesised tuple with stars is allowed (statement level)
R(n, p, need) ==
   LET Ch(c, f, lvl) == R(c, Append(p, f), lvl)
       ChI(c, f, j, lvl) == R(c, p \o <<f, j>>, lvl)
       tupParens == n.k = "Tuple" /\ (n.elts = <<>> \/ need > TUPLE)
       Elts(es, f, lvl) == [j \in 1..Len(es) |-> IF es[j].k = "Starred" THEN R(es[j], p \o <<f, j>>, lvl) ELSE R(es[j], p \o <<f, j>>, lvl)]
       body ==
         CASE n.k = "Name" -> <<T(n.id)>>
           [] n.k = "Bad" -> <<T(n.src)>>
           [] n.k = "Constant" -> <<T(n.src)>>
           [] n.k = "UnaryOp" -> <<T(UnaryText(n.op))>> \o Ch(n.operand, "operand", IF n.op = "Not" THEN NOT ELSE FACTOR)
           [] n.k = "BinOp" -> IF n.op = "Pow" THEN Ch(n.left, "left", AWAIT) \o <<T("**")>> \o Ch(n.right, "right", FACTOR)
                               ELSE Ch(n.left, "left", BinLevel(n.op)) \o <<T(BinText(n.op))>> \o Ch(n.right, "right", BinLevel(n.op) + 1)
           [] n.k = "BoolOp" -> LET lvl == IF n.op = "Or" THEN AND ELSE NOT
                                    RECURSIVE J(_)
                                    J(j) == IF j > Len(n.values) THEN <<>>
                                            ELSE (IF j > 1 THEN <<T(IF n.op = "Or" THEN "or" ELSE "and")>> ELSE <<>>) \o ChI(n.values[j], "values", j, lvl) \o J(j + 1)
                                IN J(1)
           [] n.k = "Compare" -> LET RECURSIVE J(_)
                                     J(j) == IF j > Len(n.ops) THEN <<>> ELSE Toks(CmpText(n.ops[j])) \o ChI(n.comparators[j], "comparators", j, BOR) \o J(j + 1)
                                 IN Ch(n.left, "left", BOR) \o J(1)
           [] n.k = "IfExp" -> Ch(n.body, "body", OR) \o <<T("if")>> \o Ch(n.test, "test", OR) \o <<T("else")>> \o Ch(n.orelse, "orelse", TEST)
           [] n.k = "NamedExpr" -> Ch(n.target, "target", NOPAREN) \o <<T(":=")>> \o Ch(n.value, "value", TEST)
           [] n.k = "Await" -> <<T("await")>> \o Ch(n.value, "value", PRIMARY)
           [] n.k = "Attribute" -> Ch(n.value, "value", PRIMARY) \o <<T("."), T(n.attr)>>
           [] n.k = "Starred" -> <<T("*")>> \o Ch(n.value, "value", need)
           [] n.k = "Call" ->
                IF n.bareGen
                THEN \* f(x for x in y): the call's parentheses are the generator's
                     Ch(n.func, "func", PRIMARY) \o <<B(p \o <<"args", 1>>), T("(")>> \o R(n.args[1].elt, p \o <<"args", 1, "elt">>, NAMED)
                     \o RGens(n.args[1].generators, p \o <<"args", 1>>) \o <<T(")"), E(p \o <<"args", 1>>)>>
                ELSE
                Ch(n.func, "func", PRIMARY) \o <<T("(")>>
                \o Commas([j \in 1..Len(n.args) |-> ChI(n.args[j], "args", j, IF n.args[j].k = "Starred" THEN TEST ELSE NAMED)]
                          \o [j \in 1..Len(n.keywords) |->
                                <<B(p \o <<"keywords", j>>)>>
                                \o (IF n.keywords[j].arg = NoStr THEN <<T("**")>> ELSE <<T(n.keywords[j].arg), T("=")>>)
                                \o R(n.keywords[j].value, p \o <<"keywords", j, "value">>, TEST)
                                \o <<E(p \o <<"keywords", j>>)>>])
                \o <<T(")")>>
           [] n.k = "Subscript" ->
                Ch(n.value, "value", PRIMARY) \o <<T("[")>>
                \o (IF n.slice.k = "Tuple" /\ n.slice.elts # <<>> /\ ~(\E j \in 1..Len(n.slice.elts) : FALSE)
                    THEN \* an unparenthesised tuple: elements (which may be slices), trailing comma for one element
                         <<B(Append(p, "slice"))>>
                         \o Commas([j \in 1..Len(n.slice.elts) |-> R(n.slice.elts[j], p \o <<"slice", "elts", j>>, IF n.slice.elts[j].k = "Starred" THEN BOR ELSE NAMED)])
                         \o (IF Len(n.slice.elts) = 1 /\ ~SliceNoTrail(n.slice) THEN <<T(",")>> ELSE <<>>)
                         \o <<E(Append(p, "slice"))>>
                    ELSE Ch(n.slice, "slice", NAMED))
                \o <<T("]")>>
           [] n.k = "Slice" -> (IF n.lower.k = "~" THEN <<>> ELSE Ch(n.lower, "lower", TEST)) \o <<T(":")>>
                               \o (IF n.upper.k = "~" THEN <<>> ELSE Ch(n.upper, "upper", TEST))
                               \o (IF n.step.k = "~" THEN <<>> ELSE <<T(":")>> \o Ch(n.step, "step", TEST))
           [] n.k = "List" -> <<T("[")>> \o Commas([j \in 1..Len(n.elts) |-> ChI(n.elts[j], "elts", j, IF n.elts[j].k = "Starred" THEN BOR ELSE NAMED)]) \o <<T("]")>>
           [] n.k = "Set" -> <<T("{")>> \o Commas([j \in 1..Len(n.elts) |-> ChI(n.elts[j], "elts", j, IF n.elts[j].k = "Starred" THEN BOR ELSE NAMED)]) \o <<T("}")>>
           [] n.k = "Tuple" -> Commas([j \in 1..Len(n.elts) |-> ChI(n.elts[j], "elts", j, IF n.elts[j].k = "Starred" THEN BOR ELSE IF tupParens THEN NAMED ELSE TEST)])
                               \o (IF Len(n.elts) = 1 THEN <<T(",")>> ELSE <<>>)
           [] n.k = "Dict" -> <<T("{")>>
                              \o Commas([j \in 1..Len(n.values) |->
                                   IF n.keys[j].k = "~" THEN <<T("**")>> \o ChI(n.values[j], "values", j, BOR)
                                   ELSE ChI(n.keys[j], "keys", j, TEST) \o <<T(":")>> \o ChI(n.values[j], "values", j, TEST)])
                              \o <<T("}")>>
           [] n.k = "Lambda" -> <<T("lambda")>> \o RArgs(n.args, Append(p, "args"), FALSE) \o <<T(":")>> \o Ch(n.body, "body", TEST)
           [] n.k = "Yield" -> <<T("yield")>> \o (IF n.value.k = "~" THEN <<>> ELSE Ch(n.value, "value", TUPLE))
           [] n.k = "YieldFrom" -> <<T("yield"), T("from")>> \o Ch(n.value, "value", TEST)
           [] n.k \in {"ListComp", "SetComp", "GeneratorExp"} ->
                <<T(CASE n.k = "ListComp" -> "[" [] n.k = "SetComp" -> "{" [] OTHER -> "(")>>
                \o Ch(n.elt, "elt", NAMED) \o RGens(n.generators, p)
                \o <<T(CASE n.k = "ListComp" -> "]" [] n.k = "SetComp" -> "}" [] OTHER -> ")")>>
           [] n.k = "DictComp" -> <<T("{")>> \o Ch(n.key, "key", TEST) \o <<T(":")>> \o Ch(n.value, "value", TEST) \o RGens(n.generators, p) \o <<T("}")>>
       lvl == Level(n)
       yieldLike == n.k \in {"Yield", "YieldFrom"}
       \* need <= 0: a star_expressions position (need = -1: a bare yield is allowed too); everything but a tuple must be an
       \* `expression` there (TEST), so a walrus is parenthesised
       parens == IF yieldLike THEN need # -1
                 ELSE IF n.k = "Tuple" THEN tupParens
                 ELSE IF n.k \in {"Starred", "Slice"} THEN FALSE
                 ELSE lvl < (IF need <= 0 THEN TEST ELSE IF need = NOPAREN THEN ATOM ELSE need)
       core == IF parens
               THEN (IF n.k = "Tuple" THEN <<B(p), T("(")>> \o body \o <<T(")"), E(p)>>
                     ELSE <<T("("), B(p)>> \o body \o <<E(p), T(")")>>)
               ELSE <<B(p)>> \o body \o <<E(p)>>
       \* need = NOPAREN marks positions where parentheses are not allowed or would change the tree
       extra == ExtraParens /\ need # NOPAREN /\ n.k \notin {"Starred", "Slice"}
   IN IF extra THEN <<T("(")>> \o core \o <<T(")")>> ELSE core

\* comprehension clauses
RGens(gens, p) ==
   Cat([g \in 1..Len(gens) |->
          (IF gens[g].is_async = 1 THEN <<T("async")>> ELSE <<>>)
          \o <<T("for")>> \o R(gens[g].target, p \o <<"generators", g, "target">>, IF gens[g].target.k = "Tuple" THEN TUPLE ELSE BOR)
          \o <<T("in")>> \o R(gens[g].iter, p \o <<"generators", g, "iter">>, OR)
          \o Cat([c \in 1..Len(gens[g].ifs) |-> <<T("if")>> \o R(gens[g].ifs[c], p \o <<"generators", g, "ifs", c>>, OR)])])

\* parameter list (def: annotations allowed)
RArgs(a, p, isDef) ==
   LET Param(x, f, j) == <<B(p \o <<f, j, "def">>), T(x.def.arg)>>
                         \o (IF x.def.annotation.k = "~" THEN <<>> ELSE <<T(":")>> \o R(x.def.annotation, p \o <<f, j, "def", "annotation">>, TEST))
                         \o <<E(p \o <<f, j, "def">>)>>
                         \o (IF x.default.k = "~" THEN <<>> ELSE <<T("=")>> \o R(x.default, p \o <<f, j, "default">>, TEST))
       Plain(x, f) == <<B(Append(p, f)), T(x.arg)>>
                      \o (IF x.annotation.k = "~" THEN <<>> ELSE <<T(":")>> \o R(x.annotation, p \o <<f, "annotation">>, TEST))
                      \o <<E(Append(p, f))>>
       parts == [j \in 1..Len(a.posonlyargs) |-> Param(a.posonlyargs[j], "posonlyargs", j)]
                \o (IF a.posonlyargs # <<>> THEN << <<T("/")>> >> ELSE <<>>)
                \o [j \in 1..Len(a.args) |-> Param(a.args[j], "args", j)]
                \o (IF a.vararg.k # "~" THEN << <<T("*")>> \o Plain(a.vararg, "vararg") >>
                    ELSE IF a.kwonlyargs # <<>> \/ ("barestar" \in DOMAIN a /\ a.barestar) THEN << <<T("*")>> >> ELSE <<>>)
                \o [j \in 1..Len(a.kwonlyargs) |-> Param(a.kwonlyargs[j], "kwonlyargs", j)]
                \o (IF a.kwarg.k # "~" THEN << <<T("**")>> \o Plain(a.kwarg, "kwarg") >> ELSE <<>>)
   IN Commas(parts)

\* ---------------- store / del contexts ----------------
RECURSIVE SetCtx(_, _)
SetCtx(n, c) ==
   CASE n.k \in {"Name", "Attribute", "Subscript"} -> [n EXCEPT !.ctx = c]
     [] n.k = "Starred" -> [n EXCEPT !.ctx = c, !.value = SetCtx(n.value, c)]
     [] n.k \in {"Tuple", "List"} -> [n EXCEPT !.ctx = c, !.elts = [j \in 1..Len(n.elts) |-> SetCtx(n.elts[j], c)]]
     [] OTHER -> n
RECURSIVE IsTarget(_)
\* assignable: name, attribute, subscript, or a tuple/list of (possibly starred) targets with at most one star
IsTarget(n) ==
   \/ n.k \in {"Name", "Attribute", "Subscript"}
   \/ (n.k \in {"Tuple", "List"}
        /\ (\A j \in 1..Len(n.elts) : IF n.elts[j].k = "Starred" THEN IsTarget(n.elts[j].value) /\ n.elts[j].value.k # "Starred" ELSE IsTarget(n.elts[j]))
        /\ Cardinality({j \in 1..Len(n.elts) : n.elts[j].k = "Starred"}) <= 1)
IsSimpleTarget(n) == n.k \in {"Name", "Attribute", "Subscript"}

\* ---------------- PyBuild: the typed stack machine ----------------
\* a stack entry: [cat, t]   cat in  expr | star | slice | kw | dstar | pair | gen | stmt | ...
Ent(cat, t) == [cat |-> cat, t |-> t]
Init == stack = <<>> /\ used = 0 /\ done = FALSE /\ mut = "none"
On(name) == name \in Enabled
Can(n) == ~done /\ used < Budget /\ Len(stack) >= n /\ (n = 0 => Len(stack) < MaxStack)
Top(n) == SubSeq(stack, Len(stack) - n + 1, Len(stack))
Below(n) == SubSeq(stack, 1, Len(stack) - n)
CatsAre(n, cats) == \A j \in 1..n : Top(n)[j].cat \in cats
Trees(n) == [j \in 1..n |-> Top(n)[j].t]
Push(e) == stack' = Append(stack, e) /\ used' = used + 1 /\ UNCHANGED <<done, mut>>
Reduce(n, e) == stack' = Append(Below(n), e) /\ used' = used + 1 /\ UNCHANGED <<done, mut>>
\* the same with the construct marked as the program's one rule violation
ReduceBad(n, e, rule) == mut = "none" /\ stack' = Append(Below(n), e) /\ used' = used + 1 /\ mut' = rule /\ UNCHANGED done
Ex(t) == Ent("expr", t)

PushName == On("Name") /\ Can(0) /\ \E id \in NameSet : Push(Ex(Name(id, "Load")))
PushConst == On("Const") /\ Can(0) /\ \E c \in {IntC("1"), StrC("s"), NoneC, EllipsisC, TrueC} : Push(Ex(c))
MkUnary == On("UnaryOp") /\ Can(1) /\ CatsAre(1, {"expr"}) /\ \E op \in {"Not", "USub", "UAdd", "Invert"} :
              Reduce(1, Ex([k |-> "UnaryOp", op |-> op, operand |-> Trees(1)[1]]))
MkBin == On("BinOp") /\ Can(2) /\ CatsAre(2, {"expr"}) /\ \E op \in BinOps :
              Reduce(2, Ex([k |-> "BinOp", left |-> Trees(2)[1], op |-> op, right |-> Trees(2)[2]]))
MkBool == On("BoolOp") /\ \E n \in 2..3 : Can(n) /\ CatsAre(n, {"expr"}) /\ \E op \in {"And", "Or"} :
              \* the grammar flattens a and b and c: an operand that is itself the same BoolOp only arises from parentheses
              Reduce(n, Ex([k |-> "BoolOp", op |-> op, values |-> Trees(n)]))
MkCompare == On("Compare") /\ \E n \in 2..3 : Can(n) /\ CatsAre(n, {"expr"}) /\ \E ops \in [1..(n - 1) -> CmpOps] :
              Reduce(n, Ex([k |-> "Compare", left |-> Trees(n)[1], ops |-> ops, comparators |-> SubSeq(Trees(n), 2, n)]))
MkIfExp == On("IfExp") /\ Can(3) /\ CatsAre(3, {"expr"}) /\
              Reduce(3, Ex([k |-> "IfExp", test |-> Trees(3)[1], body |-> Trees(3)[2], orelse |-> Trees(3)[3]]))
MkNamed == On("NamedExpr") /\ Can(2) /\ CatsAre(2, {"expr"}) /\ Trees(2)[1].k = "Name" /\
              Reduce(2, Ex([k |-> "NamedExpr", target |-> SetCtx(Trees(2)[1], "Store"), value |-> Trees(2)[2]]))
MkAwait == On("Await") /\ Can(1) /\ CatsAre(1, {"expr"}) /\ Reduce(1, Ex([k |-> "Await", value |-> Trees(1)[1]]))
MkAttr == On("Attribute") /\ Can(1) /\ CatsAre(1, {"expr"}) /\ \E at \in {"x"} :
              Reduce(1, Ex([k |-> "Attribute", value |-> Trees(1)[1], attr |-> at, ctx |-> "Load"]))
MkStarred == On("Starred") /\ Can(1) /\ CatsAre(1, {"expr"}) /\
              Reduce(1, Ent("star", [k |-> "Starred", value |-> Trees(1)[1], ctx |-> "Load"]))
\* keyword argument name=value  /  **value
MkKeyword == On("Call") /\ Can(1) /\ CatsAre(1, {"expr"}) /\ \E nm \in {"k", NoStr} :
              Reduce(1, Ent("kw", [k |-> "keyword", arg |-> nm, value |-> Trees(1)[1]]))
\* Call(func, positional (expr | star)*, keywords*): positional arguments come first in this rendering;
\* no keyword name twice
MkCall == On("Call") /\ \E na \in 0..2, nk \in 0..2 : Can(1 + na + nk)
              /\ LET es == Top(1 + na + nk) IN
                 /\ es[1].cat = "expr"
                 /\ \A j \in 2..(1 + na) : es[j].cat \in {"expr", "star"}
                 /\ \A j \in (2 + na)..(1 + na + nk) : es[j].cat = "kw"
                 /\ Cardinality({j \in (2 + na)..(1 + na + nk) : es[j].t.arg # NoStr}) <= 1
                 /\ \E bare \in BOOLEAN : (bare => na = 1 /\ nk = 0 /\ es[2].t.k = "GeneratorExp") /\
                    Reduce(1 + na + nk, Ex([k |-> "Call", func |-> es[1].t, args |-> [j \in 1..na |-> es[1 + j].t],
                                            keywords |-> [j \in 1..nk |-> es[1 + na + j].t], bareGen |-> bare]))
MkSlice == On("Slice") /\ \E lo \in BOOLEAN, up \in BOOLEAN, st \in BOOLEAN :
              LET n == (IF lo THEN 1 ELSE 0) + (IF up THEN 1 ELSE 0) + (IF st THEN 1 ELSE 0) IN
              /\ Can(n) /\ CatsAre(n, {"expr"})
              /\ LET ts == Trees(n)
                     a == IF lo THEN ts[1] ELSE None
                     b == IF up THEN ts[(IF lo THEN 2 ELSE 1)] ELSE None
                     c == IF st THEN ts[n] ELSE None
                 IN IF n = 0 THEN Push(Ent("slice", [k |-> "Slice", lower |-> None, upper |-> None, step |-> None]))
                    ELSE Reduce(n, Ent("slice", [k |-> "Slice", lower |-> a, upper |-> b, step |-> c]))
\* Subscript(value, slice): slice is an expression, a Slice, or a tuple of those (tuples of plain expressions are built by MkTuple)
MkSubscript == On("Subscript") /\ Can(2) /\ Top(2)[1].cat = "expr" /\ Top(2)[2].cat \in {"expr", "slice"} /\
              Reduce(2, Ex([k |-> "Subscript", value |-> Trees(2)[1], slice |-> Trees(2)[2], ctx |-> "Load"]))
MkSubscriptTuple == On("Subscript") /\ (On("Slice") \/ On("Starred")) /\ \E n \in 1..2 : Can(1 + n) /\ Top(1 + n)[1].cat = "expr"
              /\ (\A j \in 2..(1 + n) : Top(1 + n)[j].cat \in {"expr", "slice", "star"}) /\ (\E j \in 2..(1 + n) : Top(1 + n)[j].cat \in {"slice", "star"})
              \* a[*b]: a single starred element needs no trailing comma to be a tuple
              /\ \E noTrail \in BOOLEAN : (noTrail => n = 1 /\ Top(1 + n)[2].cat = "star") /\
                 Reduce(1 + n, Ex([k |-> "Subscript", value |-> Trees(1 + n)[1],
                                   slice |-> [k |-> "Tuple", elts |-> SubSeq(Trees(1 + n), 2, 1 + n), ctx |-> "Load", noTrail |-> noTrail], ctx |-> "Load"]))
MkTuple == On("Tuple") /\ \E n \in 0..2 : Can(n) /\ CatsAre(n, {"expr", "star"}) /\
              (IF n = 0 THEN Push(Ex([k |-> "Tuple", elts |-> <<>>, ctx |-> "Load"]))
               ELSE Reduce(n, Ex([k |-> "Tuple", elts |-> Trees(n), ctx |-> "Load"])))
MkList == On("List") /\ \E n \in 0..2 : Can(n) /\ CatsAre(n, {"expr", "star"}) /\
              (IF n = 0 THEN Push(Ex([k |-> "List", elts |-> <<>>, ctx |-> "Load"]))
               ELSE Reduce(n, Ex([k |-> "List", elts |-> Trees(n), ctx |-> "Load"])))
MkSet == On("Set") /\ \E n \in 1..2 : Can(n) /\ CatsAre(n, {"expr", "star"}) /\ Reduce(n, Ex([k |-> "Set", elts |-> Trees(n)]))
\* dict entries: key: value pairs and **value
MkPair == On("Dict") /\ Can(2) /\ CatsAre(2, {"expr"}) /\ Reduce(2, Ent("pair", [key |-> Trees(2)[1], value |-> Trees(2)[2]]))
MkDStar == On("Dict") /\ Can(1) /\ CatsAre(1, {"expr"}) /\ Reduce(1, Ent("pair", [key |-> None, value |-> Trees(1)[1]]))
MkDict == On("Dict") /\ \E n \in 0..2 : Can(n) /\ CatsAre(n, {"pair"}) /\
              LET d == [k |-> "Dict", keys |-> [j \in 1..n |-> Trees(n)[j].key], values |-> [j \in 1..n |-> Trees(n)[j].value]] IN
              (IF n = 0 THEN Push(Ex(d)) ELSE Reduce(n, Ex(d)))
\* comprehension clause: for target in iter [if cond]*
CompTarget(t) == t.k = "Name" \/ (t.k = "Tuple" /\ t.elts # <<>> /\ \A j \in 1..Len(t.elts) : t.elts[j].k = "Name")
MkGen == On("Comp") /\ \E ni \in 0..1, asy \in {0, 1} : Can(2 + ni) /\ CatsAre(2 + ni, {"expr"}) /\ CompTarget(Trees(2 + ni)[1])
              /\ (asy = 1 => On("AsyncComp"))
              /\ Reduce(2 + ni, Ent("gen", [k |-> "comprehension", target |-> SetCtx(Trees(2 + ni)[1], "Store"), iter |-> Trees(2 + ni)[2],
                                            ifs |-> SubSeq(Trees(2 + ni), 3, 2 + ni), is_async |-> asy]))
MkComp == On("Comp") /\ \E ng \in 1..2 : Can(1 + ng) /\ Top(1 + ng)[1].cat = "expr" /\ (\A j \in 2..(1 + ng) : Top(1 + ng)[j].cat = "gen")
              /\ \E kind \in {"ListComp", "SetComp", "GeneratorExp"} :
                   Reduce(1 + ng, Ex([k |-> kind, elt |-> Trees(1 + ng)[1], generators |-> SubSeq(Trees(1 + ng), 2, 1 + ng)]))
MkDictComp == On("Comp") /\ On("Dict") /\ Can(3) /\ Top(3)[1].cat = "expr" /\ Top(3)[2].cat = "expr" /\ Top(3)[3].cat = "gen" /\
              Reduce(3, Ex([k |-> "DictComp", key |-> Trees(3)[1], value |-> Trees(3)[2], generators |-> <<Trees(3)[3]>>]))
MkYield == On("Yield") /\ \E hv \in BOOLEAN : Can(IF hv THEN 1 ELSE 0) /\ (hv => CatsAre(1, {"expr"})) /\
              (IF hv THEN Reduce(1, Ex([k |-> "Yield", value |-> Trees(1)[1]])) ELSE Push(Ex([k |-> "Yield", value |-> None])))
MkYieldFrom == On("Yield") /\ Can(1) /\ CatsAre(1, {"expr"}) /\ Reduce(1, Ex([k |-> "YieldFrom", value |-> Trees(1)[1]]))
\* parameters: a lambda / def signature is assembled from one shape table (see Args.tla for the conversions)
ArgN(nm) == [k |-> "arg", arg |-> nm, annotation |-> None]
AWD(nm, d) == [k |-> "arg_with_default", def |-> ArgN(nm), default |-> d]
NoArgs == [k |-> "arguments", posonlyargs |-> <<>>, args |-> <<>>, vararg |-> None, kwonlyargs |-> <<>>, kwarg |-> None]
\* signature shapes: which kinds are present; defaults take expressions from the stack
SigShapes == {<<>>, <<"a">>, <<"p", "/", "a">>, <<"a", "d">>, <<"*v">>, <<"a", "*", "k">>, <<"*v", "kd", "**w">>, <<"**w">>, <<"p", "/", "a", "d", "*v", "k", "kd", "**w">>, <<"pd", "/", "d">>}
NDefaults(sh) == Cardinality({j \in 1..Len(sh) : sh[j] \in {"d", "kd", "pd"}})
BuildArgs(sh, ds) ==
   LET RECURSIVE G(_, _, _)
       G(j, di, acc) ==
          IF j > Len(sh) THEN acc
          ELSE LET x == sh[j] IN
               CASE x = "p" -> G(j + 1, di, [acc EXCEPT !.posonlyargs = Append(@, AWD("p", None))])
                 [] x = "pd" -> G(j + 1, di + 1, [acc EXCEPT !.posonlyargs = Append(@, AWD("q", ds[di]))])
                 [] x = "/" -> G(j + 1, di, acc)
                 [] x = "a" -> G(j + 1, di, [acc EXCEPT !.args = Append(@, AWD("x", None))])
                 [] x = "d" -> G(j + 1, di + 1, [acc EXCEPT !.args = Append(@, AWD("y", ds[di]))])
                 [] x = "*v" -> G(j + 1, di, [acc EXCEPT !.vararg = ArgN("v")])
                 [] x = "*" -> G(j + 1, di, acc)
                 [] x = "k" -> G(j + 1, di, [acc EXCEPT !.kwonlyargs = Append(@, AWD("k", None))])
                 [] x = "kd" -> G(j + 1, di + 1, [acc EXCEPT !.kwonlyargs = Append(@, AWD("z", ds[di]))])
                 [] x = "**w" -> G(j + 1, di, [acc EXCEPT !.kwarg = ArgN("w")])
                 \* atoms of the deliberately invalid shapes (C04): a second parameter called x in every position; a bare * with nothing named after it
                 [] x = "a2" -> G(j + 1, di, [acc EXCEPT !.args = Append(@, AWD("x", None))])
                 [] x = "px" -> G(j + 1, di, [acc EXCEPT !.posonlyargs = Append(@, AWD("x", None))])
                 [] x = "k2" -> G(j + 1, di, [acc EXCEPT !.kwonlyargs = Append(@, AWD("x", None))])
                 [] x = "*x" -> G(j + 1, di, [acc EXCEPT !.vararg = ArgN("x")])
                 [] x = "**x" -> G(j + 1, di, [acc EXCEPT !.kwarg = ArgN("x")])
                 [] x = "*!" -> G(j + 1, di, [k |-> "arguments", posonlyargs |-> acc.posonlyargs, args |-> acc.args, vararg |-> acc.vararg,
                                               kwonlyargs |-> acc.kwonlyargs, kwarg |-> acc.kwarg, barestar |-> TRUE])
   IN G(1, 1, NoArgs)
MkLambda == On("Lambda") /\ \E sh \in SigShapes : LET nd == NDefaults(sh) IN
              /\ Can(1 + nd) /\ CatsAre(1 + nd, {"expr"})
              /\ Reduce(1 + nd, Ex([k |-> "Lambda", args |-> BuildArgs(sh, SubSeq(Trees(1 + nd), 1, nd)), body |-> Trees(1 + nd)[1 + nd]]))

\* ---------------- C04: one deliberately invalid construct per program ----------------
BadLeaf(src, rule) == [src |-> src, rule |-> rule]
BadNumbers == {BadLeaf("1__0", "num.double_underscore"), BadLeaf("1_", "num.trailing_underscore"), BadLeaf("1._5", "num.underscore_after_point"), BadLeaf("1e_5", "num.underscore_in_exponent"),
               BadLeaf("1e+", "num.empty_exponent"), BadLeaf("012", "num.leading_zero"), BadLeaf("0_7", "num.leading_zero"), BadLeaf("0x", "num.empty_radix"), BadLeaf("0b2", "num.bad_digit"),
               BadLeaf("0o8", "num.bad_digit"), BadLeaf("0b_", "num.empty_radix"), BadLeaf("0xg", "num.bad_digit")}
BadStrings == {BadLeaf("'s", "str.unterminated"), BadLeaf("'''s", "str.unterminated_triple"), BadLeaf("'\\x4'", "str.bad_hex"), BadLeaf("'\\u00e'", "str.bad_hex"), BadLeaf("'\\U0011ffff'", "str.bad_hex"),
               BadLeaf("'\\N{nope}'", "str.bad_name"), BadLeaf("b'<E9>'", "bytes.non_ascii"), BadLeaf("'a' b'b'", "bytes.mixed"), BadLeaf("b'a' 'b'", "bytes.mixed"), BadLeaf("b'a' f'{x}'", "bytes.mixed")}
BadFStrings == {BadLeaf("f'{'", "fstr.unclosed"), BadLeaf("f'{a'", "fstr.unclosed"), BadLeaf("f'}'", "fstr.single_rbrace"), BadLeaf("f'{}'", "fstr.empty"), BadLeaf("f'{ }'", "fstr.empty"),
                BadLeaf("f'{!r}'", "fstr.empty"), BadLeaf("f'{a!x}'", "fstr.bad_conversion"), BadLeaf("f'{a!}'", "fstr.bad_conversion"), BadLeaf("f'{a!r'", "fstr.unclosed"),
                BadLeaf("f'{(a]}'", "fstr.mismatched"), BadLeaf("f'{a)}'", "fstr.unmatched"), BadLeaf("f'{a]}'", "fstr.unmatched"), BadLeaf("f\"{'a}\"", "fstr.unterminated_string"),
                BadLeaf("f'{a:{b:{c}}}'", "fstr.nested_too_deeply"), BadLeaf("f'{a b}'", "fstr.invalid_expression"), BadLeaf("f'{a:{b'", "fstr.unclosed")}
BadChars == {BadLeaf("$", "char.unstartable"), BadLeaf("?", "char.unstartable"), BadLeaf("a ! b", "char.unstartable"), BadLeaf("a \\ b", "continuation.junk")}
BadBrackets == {BadLeaf("( a ]", "bracket.mismatched"), BadLeaf("[ a )", "bracket.mismatched"), BadLeaf("{ a ]", "bracket.mismatched"), BadLeaf("( a }", "bracket.mismatched")}
BadStars == {BadLeaf("( * a )", "star.parenthesised"), BadLeaf("( ** a )", "dstar.parenthesised")}
BadCalls == {BadLeaf("f ( k = a , b )", "call.positional_after_keyword"), BadLeaf("f ( ** k , b )", "call.positional_after_keyword"), BadLeaf("f ( ** k , * b )", "call.star_after_dstar"),
             BadLeaf("f ( k = a , k = b )", "call.duplicate_keyword"), BadLeaf("f ( a , k = b , ** c , k = d )", "call.duplicate_keyword"), BadLeaf("f ( a ) ( k = a , b )", "call.positional_after_keyword")}
BadLeaves == BadNumbers \cup BadStrings \cup BadFStrings \cup BadChars \cup BadBrackets \cup BadStars \cup BadCalls
PushBad == On("Mut") /\ Can(0) /\ \E b \in BadLeaves : (On("MutAll") \/ b \in BadStars \cup BadCalls \cup {BadLeaf("f'{}'", "fstr.empty"), BadLeaf("1__0", "num.double_underscore"), BadLeaf("'a' b'b'", "bytes.mixed")})
              /\ ReduceBad(0, Ex([k |-> "Bad", src |-> b.src, rule |-> b.rule]), b.rule)
BadSig(sh, rule) == [sh |-> sh, rule |-> rule]
BadSigs == {BadSig(<<"a", "a2">>, "param.duplicate"), BadSig(<<"a", "*", "k2">>, "param.duplicate"), BadSig(<<"a", "*x">>, "param.duplicate"), BadSig(<<"a", "**x">>, "param.duplicate"),
            BadSig(<<"px", "/", "a">>, "param.duplicate"), BadSig(<<"a", "*v", "k2", "**w">>, "param.duplicate"),
            BadSig(<<"d", "a">>, "param.default_order"), BadSig(<<"p", "/", "d", "a">>, "param.default_order"),
            BadSig(<<"pd", "/", "a">>, "param.default_order"), BadSig(<<"pd", "p", "/">>, "param.default_order"), BadSig(<<"pd", "/", "a", "d">>, "param.default_order"),
            BadSig(<<"a", "*!">>, "param.bare_star"), BadSig(<<"*!">>, "param.bare_star"), BadSig(<<"*!", "**w">>, "param.bare_star")}
MkLambdaBad == On("Mut") /\ On("Lambda") /\ \E b \in BadSigs : LET nd == NDefaults(b.sh) IN
              /\ Can(1 + nd) /\ CatsAre(1 + nd, {"expr"})
              /\ ReduceBad(1 + nd, Ex([k |-> "Lambda", args |-> BuildArgs(b.sh, SubSeq(Trees(1 + nd), 1, nd)), body |-> Trees(1 + nd)[1 + nd], bad |-> b.rule]), b.rule)

ExprActions == PushBad \/ MkLambdaBad \/ PushName \/ PushConst \/ MkUnary \/ MkBin \/ MkBool \/ MkCompare \/ MkIfExp \/ MkNamed \/ MkAwait \/ MkAttr \/ MkStarred
               \/ MkKeyword \/ MkCall \/ MkSlice \/ MkSubscript \/ MkSubscriptTuple \/ MkTuple \/ MkList \/ MkSet \/ MkPair \/ MkDStar \/ MkDict
               \/ MkGen \/ MkComp \/ MkDictComp \/ MkYield \/ MkYieldFrom \/ MkLambda

\* ---------------- statements ----------------
NL == [i |-> "NL"]
IND == [i |-> "IND"]
DED == [i |-> "DED"]
St(t) == Ent("stmt", t)
RECURSIVE RS(_, _), RBody(_, _, _)
RBody(ss, p, f) == <<T(":"), NL, IND>> \o Cat([j \in 1..Len(ss) |-> RS(ss[j], p \o <<f, j>>)]) \o <<DED>>
\* an else/elif chain: orelse consisting of exactly one If renders as elif
RECURSIVE RIfTail(_, _)
RIfTail(n, p) ==
   IF n.orelse = <<>> THEN <<>>
   ELSE IF Len(n.orelse) = 1 /\ n.orelse[1].k = "If" /\ n.elifForm
        THEN LET m == n.orelse[1] q == p \o <<"orelse", 1>> IN
             <<B(q), T("elif")>> \o R(m.test, Append(q, "test"), NAMED) \o RBody(m.body, q, "body") \o RIfTail(m, q) \o <<E(q)>>
        ELSE <<T("else")>> \o RBody(n.orelse, p, "orelse")
Dotted(name) == name      \* dotted names are single pieces in this rendering ("a.b" is written as one token run)
RAlias(a, p) == <<B(p), T(a.name)>> \o (IF a.asname = NoStr THEN <<>> ELSE <<T("as"), T(a.asname)>>) \o <<E(p)>>
RS(n, p) ==
   LET Ch(c, f, lvl) == R(c, Append(p, f), lvl)
       simple(items) == <<B(p)>> \o items \o <<E(p), NL>>
       compound(items) == <<B(p)>> \o items \o <<E(p)>>
   IN
   CASE n.k = "Expr" -> simple(Ch(n.value, "value", -1))
     [] n.k = "BadStmt" -> simple(<<T(n.src)>>)
     [] n.k = "Assign" -> simple(Cat([j \in 1..Len(n.targets) |-> R(n.targets[j], p \o <<"targets", j>>, TUPLE) \o <<T("=")>>]) \o Ch(n.value, "value", -1))
     [] n.k = "AugAssign" -> simple(Ch(n.target, "target", ATOM) \o <<T(BinText(n.op) \o "=")>> \o Ch(n.value, "value", -1))
     [] n.k = "AnnAssign" -> simple((IF n.parTarget THEN <<T("(")>> \o Ch(n.target, "target", NOPAREN) \o <<T(")")>> ELSE Ch(n.target, "target", IF n.simple = 1 THEN NOPAREN ELSE PRIMARY)) \o <<T(":")>> \o Ch(n.annotation, "annotation", TEST)
                                    \o (IF n.value.k = "~" THEN <<>> ELSE <<T("=")>> \o Ch(n.value, "value", -1)))
     [] n.k = "Return" -> simple(<<T("return")>> \o (IF n.value.k = "~" THEN <<>> ELSE Ch(n.value, "value", TUPLE)))
     [] n.k \in {"Pass", "Break", "Continue"} -> simple(<<T(CASE n.k = "Pass" -> "pass" [] n.k = "Break" -> "break" [] OTHER -> "continue")>>)
     [] n.k = "Delete" -> simple(<<T("del")>> \o Commas([j \in 1..Len(n.targets) |-> R(n.targets[j], p \o <<"targets", j>>, BOR)]))
     [] n.k = "Raise" -> simple(<<T("raise")>> \o (IF n.exc.k = "~" THEN <<>> ELSE Ch(n.exc, "exc", TEST) \o (IF n.cause.k = "~" THEN <<>> ELSE <<T("from")>> \o Ch(n.cause, "cause", TEST))))
     [] n.k = "Assert" -> simple(<<T("assert")>> \o Ch(n.test, "test", TEST) \o (IF n.msg.k = "~" THEN <<>> ELSE <<T(",")>> \o Ch(n.msg, "msg", TEST)))
     [] n.k \in {"Global", "Nonlocal"} -> simple(<<T(IF n.k = "Global" THEN "global" ELSE "nonlocal")>> \o Commas([j \in 1..Len(n.names) |-> <<T(n.names[j])>>]))
     [] n.k = "Import" -> simple(<<T("import")>> \o Commas([j \in 1..Len(n.names) |-> RAlias(n.names[j], p \o <<"names", j>>)]))
     [] n.k = "ImportFrom" -> simple(<<T("from")>>
                                     \* the level is written with '.' tokens, or with as many '...' tokens as fit followed by '.' tokens
                                     \o (IF n.ell THEN [j \in 1..(n.level \div 3) |-> T("...")] \o [j \in 1..(n.level % 3) |-> T(".")] ELSE [j \in 1..n.level |-> T(".")])
                                     \o (IF n.module = NoStr THEN <<>> ELSE <<T(n.module)>>) \o <<T("import")>>
                                     \o (IF n.star THEN <<B(p \o <<"names", 1>>), T("*"), E(p \o <<"names", 1>>)>>
                                         ELSE Commas([j \in 1..Len(n.names) |-> RAlias(n.names[j], p \o <<"names", j>>)])))
     [] n.k = "TypeAlias" -> simple(<<T("type")>> \o Ch(n.name, "name", NOPAREN) \o RTypeParams(n.type_params, p) \o <<T("=")>> \o Ch(n.value, "value", TEST))
     [] n.k = "If" -> compound(<<T("if")>> \o Ch(n.test, "test", NAMED) \o RBody(n.body, p, "body") \o RIfTail(n, p))
     [] n.k = "While" -> compound(<<T("while")>> \o Ch(n.test, "test", NAMED) \o RBody(n.body, p, "body")
                                  \o (IF n.orelse = <<>> THEN <<>> ELSE <<T("else")>> \o RBody(n.orelse, p, "orelse")))
     [] n.k \in {"For", "AsyncFor"} -> compound((IF n.k = "AsyncFor" THEN <<T("async")>> ELSE <<>>) \o <<T("for")>> \o Ch(n.target, "target", TUPLE) \o <<T("in")>>
                                  \o Ch(n.iter, "iter", TUPLE) \o RBody(n.body, p, "body")
                                  \o (IF n.orelse = <<>> THEN <<>> ELSE <<T("else")>> \o RBody(n.orelse, p, "orelse")))
     [] n.k \in {"With", "AsyncWith"} -> compound((IF n.k = "AsyncWith" THEN <<T("async")>> ELSE <<>>) \o <<T("with")>>
                                  \* the items may stand in one pair of parentheses (parItems); an item's extent is its expression and target
                                  \o (IF n.parItems THEN <<T("(")>> ELSE <<>>)
                                  \o Commas([j \in 1..Len(n.items) |->
                                        <<B(p \o <<"items", j>>)>>
                                        \o R(n.items[j].context_expr, p \o <<"items", j, "context_expr">>, TEST)
                                        \o (IF n.items[j].optional_vars.k = "~" THEN <<>> ELSE <<T("as")>> \o R(n.items[j].optional_vars, p \o <<"items", j, "optional_vars">>, BOR))
                                        \o <<E(p \o <<"items", j>>)>>])
                                  \o (IF n.parItems THEN <<T(")")>> ELSE <<>>)
                                  \o RBody(n.body, p, "body"))
     [] n.k \in {"Try", "TryStar"} -> compound(<<T("try")>> \o RBody(n.body, p, "body")
                                  \o Cat([j \in 1..Len(n.handlers) |->
                                        LET h == n.handlers[j] q == p \o <<"handlers", j>> IN
                                        <<B(q), T("except")>> \o (IF n.k = "TryStar" THEN <<T("*")>> ELSE <<>>)
                                        \o (IF h.type.k = "~" THEN <<>> ELSE R(h.type, Append(q, "type"), TEST) \o (IF h.name = NoStr THEN <<>> ELSE <<T("as"), T(h.name)>>))
                                        \o RBody(h.body, q, "body") \o <<E(q)>>])
                                  \o (IF n.orelse = <<>> THEN <<>> ELSE <<T("else")>> \o RBody(n.orelse, p, "orelse"))
                                  \o (IF n.finalbody = <<>> THEN <<>> ELSE <<T("finally")>> \o RBody(n.finalbody, p, "finalbody")))
     [] n.k \in {"FunctionDef", "AsyncFunctionDef"} ->
            Cat([j \in 1..Len(n.decorator_list) |-> <<T("@")>> \o R(n.decorator_list[j], p \o <<"decorator_list", j>>, NAMED) \o <<NL>>])
            \o compound((IF n.k = "AsyncFunctionDef" THEN <<T("async")>> ELSE <<>>) \o <<T("def"), T(n.name)>> \o RTypeParams(n.type_params, p)
                        \o <<T("(")>> \o RArgs(n.args, Append(p, "args"), TRUE) \o <<T(")")>>
                        \o (IF n.returns.k = "~" THEN <<>> ELSE <<T("->")>> \o Ch(n.returns, "returns", TEST)) \o RBody(n.body, p, "body"))
     [] n.k = "ClassDef" ->
            Cat([j \in 1..Len(n.decorator_list) |-> <<T("@")>> \o R(n.decorator_list[j], p \o <<"decorator_list", j>>, NAMED) \o <<NL>>])
            \o compound(<<T("class"), T(n.name)>> \o RTypeParams(n.type_params, p)
                        \o (IF n.bases = <<>> /\ n.keywords = <<>> THEN <<>>
                            ELSE <<T("(")>> \o Commas([j \in 1..Len(n.bases) |-> R(n.bases[j], p \o <<"bases", j>>, IF n.bases[j].k = "Starred" THEN TEST ELSE NAMED)]
                                                      \o [j \in 1..Len(n.keywords) |->
                                                            <<B(p \o <<"keywords", j>>)>> \o (IF n.keywords[j].arg = NoStr THEN <<T("**")>> ELSE <<T(n.keywords[j].arg), T("=")>>)
                                                            \o R(n.keywords[j].value, p \o <<"keywords", j, "value">>, TEST) \o <<E(p \o <<"keywords", j>>)>>])
                                 \o <<T(")")>>)
                        \o RBody(n.body, p, "body"))
     [] n.k = "Match" -> compound(<<T("match")>> \o Ch(n.subject, "subject", TUPLE) \o <<T(":"), NL, IND>>
                                  \o Cat([j \in 1..Len(n.cases) |->
                                        LET c == n.cases[j] q == p \o <<"cases", j>> IN
                                        <<T("case")>> \o RP(c.pattern, Append(q, "pattern"), 0)
                                        \o (IF c.guard.k = "~" THEN <<>> ELSE <<T("if")>> \o R(c.guard, Append(q, "guard"), NAMED))
                                        \o RBody(c.body, q, "body")])
                                  \o <<DED>>)

\* ---------------- patterns ----------------
\* expressions inside patterns (literals, dotted names, signed numbers) never take parentheses
RECURSIVE RNoX(_, _, _)
RNoX(v, p, need) ==
   <<B(p)>> \o (CASE v.k = "Name" -> <<T(v.id)>>
                  [] v.k = "Constant" -> <<T(v.src)>>
                  [] v.k = "Attribute" -> RNoX(v.value, Append(p, "value"), PRIMARY) \o <<T("."), T(v.attr)>>
                  [] v.k = "UnaryOp" -> <<T(UnaryText(v.op))>> \o RNoX(v.operand, Append(p, "operand"), FACTOR))
   \o <<E(p)>>
\* levels: 0 as-pattern, 1 or-pattern, 2 closed pattern
PLevel(q) == IF q.k = "MatchAs" /\ q.pattern.k # "~" THEN 0 ELSE IF q.k = "MatchOr" THEN 1 ELSE 2
RP(q, p, need) ==
   LET Sub(c, f, j, lvl) == RP(c, p \o <<f, j>>, lvl)
       body ==
         CASE q.k = "MatchValue" -> RNoX(q.value, Append(p, "value"), FACTOR)
           [] q.k = "MatchSingleton" -> <<T(q.src)>>
           [] q.k = "MatchSequence" -> <<T("[")>> \o Commas([j \in 1..Len(q.patterns) |-> Sub(q.patterns[j], "patterns", j, 0)]) \o <<T("]")>>
           [] q.k = "MatchStar" -> <<T("*"), T(IF q.name = NoStr THEN "_" ELSE q.name)>>
           [] q.k = "MatchMapping" -> <<T("{")>>
                 \o Commas([j \in 1..Len(q.keys) |-> RNoX(q.keys[j], p \o <<"keys", j>>, PRIMARY) \o <<T(":")>> \o Sub(q.patterns[j], "patterns", j, 0)]
                           \o (IF q.rest = NoStr THEN <<>> ELSE << <<T("**"), T(q.rest)>> >>))
                 \o <<T("}")>>
           [] q.k = "MatchClass" -> RNoX(q.cls, Append(p, "cls"), PRIMARY) \o <<T("(")>>
                 \o Commas([j \in 1..Len(q.patterns) |-> Sub(q.patterns[j], "patterns", j, 0)]
                           \o [j \in 1..Len(q.kwd_attrs) |-> <<T(q.kwd_attrs[j]), T("=")>> \o Sub(q.kwd_patterns[j], "kwd_patterns", j, 0)])
                 \o <<T(")")>>
           [] q.k = "MatchAs" -> IF q.pattern.k = "~" THEN <<T(IF q.name = NoStr THEN "_" ELSE q.name)>>
                                 ELSE RP(q.pattern, Append(p, "pattern"), 1) \o <<T("as"), T(q.name)>>
           [] q.k = "MatchOr" -> LET RECURSIVE J(_)
                                     J(j) == IF j > Len(q.patterns) THEN <<>> ELSE (IF j > 1 THEN <<T("|")>> ELSE <<>>) \o Sub(q.patterns[j], "patterns", j, 2) \o J(j + 1)
                                 IN J(1)
   IN IF PLevel(q) < need THEN <<T("("), B(p)>> \o body \o <<E(p), T(")")>> ELSE <<B(p)>> \o body \o <<E(p)>>

RTypeParams(tps, p) ==
   IF tps = <<>> THEN <<>>
   ELSE <<T("[")>> \o Commas([j \in 1..Len(tps) |->
            LET q == p \o <<"type_params", j>> IN
            <<B(q)>> \o (CASE tps[j].k = "TypeVar" -> <<T(tps[j].name)>> \o (IF tps[j].bound.k = "~" THEN <<>> ELSE <<T(":")>> \o R(tps[j].bound, Append(q, "bound"), TEST))
                           [] tps[j].k = "TypeVarTuple" -> <<T("*"), T(tps[j].name)>>
                           [] OTHER -> <<T("**"), T(tps[j].name)>>) \o <<E(q)>>]) \o <<T("]")>>

\* ---------------- statement constructors ----------------
AllStmts(n) == CatsAre(n, {"stmt"})
Blocks == 1..2
PushSimple == On("SimpleStmt") /\ Can(0) /\ \E kk \in {"Pass", "Break", "Continue"} : Push(St([k |-> kk]))
MkExprStmt == On("Expr") /\ Can(1) /\ CatsAre(1, {"expr"}) /\ Reduce(1, St([k |-> "Expr", value |-> Trees(1)[1]]))
MkAssign == On("Assign") /\ \E nt \in 1..2 : Can(nt + 1) /\ CatsAre(nt + 1, {"expr"}) /\ (\A j \in 1..nt : IsTarget(Trees(nt + 1)[j]))
              /\ Reduce(nt + 1, St([k |-> "Assign", targets |-> [j \in 1..nt |-> SetCtx(Trees(nt + 1)[j], "Store")], value |-> Trees(nt + 1)[nt + 1]]))
MkAugAssign == On("AugAssign") /\ Can(2) /\ CatsAre(2, {"expr"}) /\ IsSimpleTarget(Trees(2)[1]) /\ \E op \in {"Add", "Pow", "FloorDiv", "RShift", "MatMult", "BitAnd"} :
              Reduce(2, St([k |-> "AugAssign", target |-> SetCtx(Trees(2)[1], "Store"), op |-> op, value |-> Trees(2)[2]]))
\* `( x ) : int` -- a parenthesised name as target is the one place where parentheses change the tree (simple = 0)
MkAnnAssign == On("AnnAssign") /\ \E hv \in BOOLEAN, par \in BOOLEAN : LET n == IF hv THEN 3 ELSE 2 IN
              /\ Can(n) /\ CatsAre(n, {"expr"}) /\ IsSimpleTarget(Trees(n)[1]) /\ (par => Trees(n)[1].k = "Name")
              /\ Reduce(n, St([k |-> "AnnAssign", target |-> SetCtx(Trees(n)[1], "Store"), annotation |-> Trees(n)[2],
                               value |-> IF hv THEN Trees(n)[3] ELSE None, simple |-> IF Trees(n)[1].k = "Name" /\ ~par THEN 1 ELSE 0, parTarget |-> par]))
MkReturn == On("Return") /\ \E hv \in BOOLEAN : Can(IF hv THEN 1 ELSE 0) /\ (hv => CatsAre(1, {"expr"})) /\
              (IF hv THEN Reduce(1, St([k |-> "Return", value |-> Trees(1)[1]])) ELSE Push(St([k |-> "Return", value |-> None])))
MkDelete == On("Delete") /\ \E n \in 1..2 : Can(n) /\ CatsAre(n, {"expr"}) /\ (\A j \in 1..n : IsSimpleTarget(Trees(n)[j])) /\
              Reduce(n, St([k |-> "Delete", targets |-> [j \in 1..n |-> SetCtx(Trees(n)[j], "Del")]]))
MkRaise == On("Raise") /\ \E n \in 0..2 : Can(n) /\ CatsAre(n, {"expr"}) /\
              (IF n = 0 THEN Push(St([k |-> "Raise", exc |-> None, cause |-> None]))
               ELSE Reduce(n, St([k |-> "Raise", exc |-> Trees(n)[1], cause |-> IF n = 2 THEN Trees(n)[2] ELSE None])))
MkAssert == On("Assert") /\ \E n \in 1..2 : Can(n) /\ CatsAre(n, {"expr"}) /\
              Reduce(n, St([k |-> "Assert", test |-> Trees(n)[1], msg |-> IF n = 2 THEN Trees(n)[2] ELSE None]))
PushGlobal == On("Global") /\ Can(0) /\ \E kk \in {"Global", "Nonlocal"}, ns \in {<<"a">>, <<"a", "b">>} : Push(St([k |-> kk, names |-> ns]))
Alias(nm, asn) == [k |-> "alias", name |-> nm, asname |-> asn]
PushImport == On("Import") /\ Can(0) /\
              \/ \E ns \in {<<Alias("m", NoStr)>>, <<Alias("m.n", "o")>>, <<Alias("m", NoStr), Alias("p.q.r", "s")>>} : Push(St([k |-> "Import", names |-> ns]))
              \/ \E lv \in 0..7, md \in {NoStr, "m", "m.n"}, ns \in {<<Alias("x", NoStr)>>, <<Alias("x", "y"), Alias("z", NoStr)>>} :
                    (lv = 0 => md # NoStr) /\ \E ell \in BOOLEAN : (ell => lv >= 3) /\
                    Push(St([k |-> "ImportFrom", module |-> md, names |-> ns, level |-> lv, star |-> FALSE, ell |-> ell]))
              \/ \E lv \in 0..1 : Push(St([k |-> "ImportFrom", module |-> "m", names |-> <<Alias("*", NoStr)>>, level |-> lv, star |-> TRUE, ell |-> FALSE]))
TypeParamSets == {<<>>, <<[k |-> "TypeVar", name |-> "T", bound |-> None]>>,
                  <<[k |-> "TypeVar", name |-> "T", bound |-> Name("int", "Load")], [k |-> "TypeVarTuple", name |-> "Ts"], [k |-> "ParamSpec", name |-> "P"]>>}
MkTypeAlias == On("TypeAlias") /\ Can(1) /\ CatsAre(1, {"expr"}) /\ \E nm \in {"X", "type", "match"}, tps \in TypeParamSets :
              Reduce(1, St([k |-> "TypeAlias", name |-> Name(nm, "Store"), type_params |-> tps, value |-> Trees(1)[1]]))
\* compound statements: bodies of 1..2 statements taken from the stack
MkIf == On("If") /\ \E nb \in Blocks, ne \in 0..2, ef \in BOOLEAN : Can(1 + nb + ne) /\ Top(1 + nb + ne)[1].cat = "expr"
              /\ (\A j \in 2..(1 + nb + ne) : Top(1 + nb + ne)[j].cat = "stmt")
              /\ (ef => ne = 1 /\ Trees(1 + nb + ne)[1 + nb + 1].k = "If")
              /\ LET ts == Trees(1 + nb + ne) IN
                 Reduce(1 + nb + ne, St([k |-> "If", test |-> ts[1], body |-> SubSeq(ts, 2, 1 + nb), orelse |-> SubSeq(ts, 2 + nb, 1 + nb + ne), elifForm |-> ef]))
MkWhile == On("While") /\ \E nb \in Blocks, ne \in 0..1 : Can(1 + nb + ne) /\ Top(1 + nb + ne)[1].cat = "expr"
              /\ (\A j \in 2..(1 + nb + ne) : Top(1 + nb + ne)[j].cat = "stmt")
              /\ LET ts == Trees(1 + nb + ne) IN
                 Reduce(1 + nb + ne, St([k |-> "While", test |-> ts[1], body |-> SubSeq(ts, 2, 1 + nb), orelse |-> SubSeq(ts, 2 + nb, 1 + nb + ne)]))
MkFor == On("For") /\ \E nb \in 1..1, ne \in 0..1, asy \in BOOLEAN : Can(2 + nb + ne) /\ Top(2 + nb + ne)[1].cat = "expr" /\ Top(2 + nb + ne)[2].cat = "expr"
              /\ IsTarget(Trees(2 + nb + ne)[1]) /\ (\A j \in 3..(2 + nb + ne) : Top(2 + nb + ne)[j].cat = "stmt")
              /\ LET ts == Trees(2 + nb + ne) IN
                 Reduce(2 + nb + ne, St([k |-> IF asy THEN "AsyncFor" ELSE "For", target |-> SetCtx(ts[1], "Store"), iter |-> ts[2],
                                         body |-> SubSeq(ts, 3, 2 + nb), orelse |-> SubSeq(ts, 3 + nb, 2 + nb + ne)]))
\* with items: context [as target]
MkWithItem == On("With") /\ \E hv \in BOOLEAN : LET n == IF hv THEN 2 ELSE 1 IN Can(n) /\ CatsAre(n, {"expr"}) /\ (hv => IsTarget(Trees(n)[2]))
              /\ Reduce(n, Ent("witem", [k |-> "withitem", context_expr |-> Trees(n)[1], optional_vars |-> IF hv THEN SetCtx(Trees(n)[2], "Store") ELSE None]))
MkWith == On("With") /\ \E ni \in 1..2, asy \in BOOLEAN, par \in BOOLEAN : Can(ni + 1) /\ (\A j \in 1..ni : Top(ni + 1)[j].cat = "witem") /\ Top(ni + 1)[ni + 1].cat = "stmt"
              \* a single item without a target in parentheses would be a parenthesised expression: not a different spelling of the list
              /\ (par => (ni = 2 \/ Trees(ni + 1)[1].optional_vars.k # "~")) /\ (par => ~asy)
              /\ Reduce(ni + 1, St([k |-> IF asy THEN "AsyncWith" ELSE "With", items |-> SubSeq(Trees(ni + 1), 1, ni), body |-> <<Trees(ni + 1)[ni + 1]>>, parItems |-> par]))
MkHandler == On("Try") /\ \E form \in {"bare", "type", "as"} : LET n == IF form = "bare" THEN 1 ELSE 2 IN
              /\ Can(n) /\ Top(n)[n].cat = "stmt" /\ (n = 2 => Top(n)[1].cat = "expr")
              /\ Reduce(n, Ent("handler", [k |-> "ExceptHandler", type |-> IF form = "bare" THEN None ELSE Trees(n)[1],
                                           name |-> IF form = "as" THEN "e" ELSE NoStr, body |-> <<Trees(n)[n]>>]))
MkTry == On("Try") /\ \E nh \in 0..2, ne \in 0..1, nf \in 0..1, star \in BOOLEAN :
              /\ (nh = 0 => nf = 1 /\ ne = 0 /\ ~star) /\ (ne = 1 => nh >= 1)
              /\ Can(1 + nh + ne + nf)
              /\ LET es == Top(1 + nh + ne + nf) IN
                 /\ es[1].cat = "stmt" /\ (\A j \in 2..(1 + nh) : es[j].cat = "handler") /\ (\A j \in (2 + nh)..(1 + nh + ne + nf) : es[j].cat = "stmt")
                 /\ (star => \A j \in 2..(1 + nh) : es[j].t.type.k # "~")
                 \* a bare except must be last
                 /\ (\A j \in 2..nh : es[j].t.type.k # "~")
                 /\ Reduce(1 + nh + ne + nf, St([k |-> IF star THEN "TryStar" ELSE "Try", body |-> <<es[1].t>>, handlers |-> [j \in 1..nh |-> es[1 + j].t],
                                                 orelse |-> [j \in 1..ne |-> es[1 + nh + j].t], finalbody |-> [j \in 1..nf |-> es[1 + nh + ne + j].t]]))
MkDef == On("Def") /\ \E sh \in SigShapes, nd \in 0..1, ret \in BOOLEAN, asy \in BOOLEAN, tps \in TypeParamSets, ann \in BOOLEAN :
              LET ndef == NDefaults(sh)
                  n == nd + ndef + (IF ret THEN 1 ELSE 0) + 1 IN
              /\ (tps # <<>> => On("TypeParams")) /\ (ann => sh = <<"a">>)
              \* features are crossed pairwise, not all at once
              /\ (tps # <<>> => sh \in {<<>>, <<"a">>} /\ nd = 0) /\ (asy => sh \in {<<>>, <<"a", "d">>}) /\ (nd = 1 => sh \in {<<>>, <<"*v", "kd", "**w">>})
              /\ Can(n) /\ CatsAre(n - 1, {"expr"}) = CatsAre(n - 1, {"expr"})
              /\ LET es == Top(n) IN
                 /\ (\A j \in 1..(n - 1) : es[j].cat = "expr") /\ es[n].cat = "stmt"
                 /\ LET decos == [j \in 1..nd |-> es[j].t]
                        ds == [j \in 1..ndef |-> es[nd + j].t]
                        a0 == BuildArgs(sh, ds)
                        a == IF ann THEN [a0 EXCEPT !.args = <<[k |-> "arg_with_default", def |-> [k |-> "arg", arg |-> "x", annotation |-> Name("int", "Load")], default |-> None]>>] ELSE a0
                    IN Reduce(n, St([k |-> IF asy THEN "AsyncFunctionDef" ELSE "FunctionDef", name |-> "f", args |-> a, body |-> <<es[n].t>>,
                                     decorator_list |-> decos, returns |-> IF ret THEN es[nd + ndef + 1].t ELSE None, type_params |-> tps]))
MkClass == On("Class") /\ \E nd \in 0..1, nb \in 0..2, nk \in 0..1, tps \in TypeParamSets :
              LET n == nd + nb + nk + 1 IN
              /\ (tps # <<>> => On("TypeParams"))
              /\ Can(n)
              /\ LET es == Top(n) IN
                 /\ (\A j \in 1..nd : es[j].cat = "expr") /\ (\A j \in (nd + 1)..(nd + nb) : es[j].cat \in {"expr", "star"})
                 /\ (\A j \in (nd + nb + 1)..(nd + nb + nk) : es[j].cat = "kw") /\ es[n].cat = "stmt"
                 /\ Reduce(n, St([k |-> "ClassDef", name |-> "C", bases |-> [j \in 1..nb |-> es[nd + j].t], keywords |-> [j \in 1..nk |-> es[nd + nb + j].t],
                                  body |-> <<es[n].t>>, decorator_list |-> [j \in 1..nd |-> es[j].t], type_params |-> tps]))
\* patterns are entries of category "pat"
Pat(t) == Ent("pat", t)
PushPattern == On("Match") /\ Can(0) /\
              \/ \E nm \in {NoStr, "x", "match"} : Push(Pat([k |-> "MatchAs", pattern |-> None, name |-> nm]))
              \/ \E c \in {[k |-> "MatchSingleton", value |-> [t |-> "None"], src |-> "None"], [k |-> "MatchSingleton", value |-> [t |-> "bool", v |-> TRUE], src |-> "True"]} : Push(Pat(c))
              \/ \E v \in {IntC("1"), StrC("s"), [k |-> "Attribute", value |-> Name("a", "Load"), attr |-> "x", ctx |-> "Load"],
                           [k |-> "UnaryOp", op |-> "USub", operand |-> IntC("1")]} : Push(Pat([k |-> "MatchValue", value |-> v]))
              \/ \E nm \in {NoStr, "r"} : Push(Ent("pstar", [k |-> "MatchStar", name |-> nm]))
MkPatSeq == On("Match") /\ \E n \in 0..2 : Can(n) /\ CatsAre(n, {"pat", "pstar"}) /\ Cardinality({j \in 1..n : Top(n)[j].cat = "pstar"}) <= 1 /\
              (IF n = 0 THEN Push(Pat([k |-> "MatchSequence", patterns |-> <<>>])) ELSE Reduce(n, Pat([k |-> "MatchSequence", patterns |-> Trees(n)])))
MkPatOr == On("Match") /\ \E n \in 2..3 : Can(n) /\ CatsAre(n, {"pat"}) /\ (\A j \in 1..n : Trees(n)[j].k # "MatchOr")
              \* only the last alternative may be irrefutable
              /\ (\A j \in 1..(n - 1) : ~(Trees(n)[j].k = "MatchAs" /\ Trees(n)[j].pattern.k = "~"))
              /\ Reduce(n, Pat([k |-> "MatchOr", patterns |-> Trees(n)]))
MkPatAs == On("Match") /\ Can(1) /\ CatsAre(1, {"pat"}) /\ ~(Trees(1)[1].k = "MatchAs" /\ Trees(1)[1].pattern.k = "~" /\ Trees(1)[1].name = NoStr) /\
              Trees(1)[1].k # "MatchAs" /\ Reduce(1, Pat([k |-> "MatchAs", pattern |-> Trees(1)[1], name |-> "y"]))
MkPatMapping == On("Match") /\ \E n \in 0..2, rest \in {NoStr, "r"} : Can(n) /\ CatsAre(n, {"pat"}) /\
              LET keys == [j \in 1..n |-> IF j = 1 THEN IntC("1") ELSE StrC("s")]
                  m == [k |-> "MatchMapping", keys |-> keys, patterns |-> Trees(n), rest |-> rest] IN
              (IF n = 0 THEN Push(Pat(m)) ELSE Reduce(n, Pat(m)))
MkPatClass == On("Match") /\ \E np \in 0..1, nk \in 0..1, dotted \in BOOLEAN : Can(np + nk) /\ CatsAre(np + nk, {"pat"}) /\
              LET cls == IF dotted THEN [k |-> "Attribute", value |-> Name("a", "Load"), attr |-> "B", ctx |-> "Load"] ELSE Name("A", "Load")
                  m == [k |-> "MatchClass", cls |-> cls, patterns |-> SubSeq(Trees(np + nk), 1, np), kwd_attrs |-> [j \in 1..nk |-> "z"],
                        kwd_patterns |-> SubSeq(Trees(np + nk), np + 1, np + nk)] IN
              (IF np + nk = 0 THEN Push(Pat(m)) ELSE Reduce(np + nk, Pat(m)))
MkCase == On("Match") /\ \E hg \in BOOLEAN : LET n == IF hg THEN 3 ELSE 2 IN
              /\ Can(n) /\ Top(n)[1].cat = "pat" /\ (hg => Top(n)[2].cat = "expr") /\ Top(n)[n].cat = "stmt"
              /\ Reduce(n, Ent("case", [k |-> "match_case", pattern |-> Trees(n)[1], guard |-> IF hg THEN Trees(n)[2] ELSE None, body |-> <<Trees(n)[n]>>]))
MkMatch == On("Match") /\ \E nc \in 1..2 : Can(1 + nc) /\ Top(1 + nc)[1].cat = "expr" /\ (\A j \in 2..(1 + nc) : Top(1 + nc)[j].cat = "case")
              \* an irrefutable case must be last
              /\ Reduce(1 + nc, St([k |-> "Match", subject |-> Trees(1 + nc)[1], cases |-> SubSeq(Trees(1 + nc), 2, 1 + nc)]))

\* pattern-focused configurations: one step wraps a finished pattern into `match a: case <pattern> [if b]: pass`
MkMatchSimple == On("PatOnly") /\ \E hg \in BOOLEAN, two \in BOOLEAN, subj \in {"name", "tuple1", "tuple2", "star"} : Can(1) /\ CatsAre(1, {"pat"}) /\ (two => ~hg) /\
              LET A == Name("a", "Load")
                  S == CASE subj = "name" -> A
                         [] subj = "tuple1" -> [k |-> "Tuple", elts |-> <<A>>, ctx |-> "Load"]
                         [] subj = "tuple2" -> [k |-> "Tuple", elts |-> <<A, Name("b", "Load")>>, ctx |-> "Load"]
                         [] OTHER -> [k |-> "Tuple", elts |-> <<[k |-> "Starred", value |-> A, ctx |-> "Load"], Name("b", "Load")>>, ctx |-> "Load"]
                  c1 == [k |-> "match_case", pattern |-> Trees(1)[1], guard |-> IF hg THEN Name("b", "Load") ELSE None, body |-> <<[k |-> "Pass"]>>]
                  c2 == [k |-> "match_case", pattern |-> [k |-> "MatchAs", pattern |-> None, name |-> NoStr], guard |-> None, body |-> <<[k |-> "Pass"], [k |-> "Break"]>>]
              IN (subj # "name" => ~hg /\ ~two) /\
                 Reduce(1, St([k |-> "Match", subject |-> S, cases |-> IF two THEN <<c1, c2>> ELSE <<c1>>]))
MkDefBad == On("Mut") /\ On("Def") /\ \E b \in BadSigs, asy \in BOOLEAN : LET nd == NDefaults(b.sh) IN
              /\ Can(1 + nd) /\ (\A j \in 1..nd : Top(1 + nd)[j].cat = "expr") /\ Top(1 + nd)[1 + nd].cat = "stmt"
              /\ ReduceBad(1 + nd, St([k |-> IF asy THEN "AsyncFunctionDef" ELSE "FunctionDef", name |-> "f", args |-> BuildArgs(b.sh, SubSeq(Trees(1 + nd), 1, nd)),
                                        body |-> <<Trees(1 + nd)[1 + nd]>>, decorator_list |-> <<>>, returns |-> None, type_params |-> <<>>, bad |-> b.rule]), b.rule)
BadStmts == {BadLeaf("class C ( k = a , b ) : pass", "call.positional_after_keyword"), BadLeaf("class C ( k = a , k = b ) : pass", "call.duplicate_keyword"),
             BadLeaf("class C ( ** k , * b ) : pass", "call.star_after_dstar")}
PushBadStmt == On("Mut") /\ Can(0) /\ \E b \in BadStmts : ReduceBad(0, St([k |-> "BadStmt", src |-> b.src, rule |-> b.rule]), b.rule)
MkPatAsBad == On("Mut") /\ On("Match") /\ Can(1) /\ CatsAre(1, {"pat"}) /\ Trees(1)[1].k # "MatchAs" /\
              ReduceBad(1, Pat([k |-> "MatchAs", pattern |-> Trees(1)[1], name |-> "_", bad |-> "pattern.as_underscore"]), "pattern.as_underscore")
StmtActions == MkDefBad \/ PushBadStmt \/ MkPatAsBad \/ MkMatchSimple \/ PushSimple \/ MkExprStmt \/ MkAssign \/ MkAugAssign \/ MkAnnAssign \/ MkReturn \/ MkDelete \/ MkRaise \/ MkAssert \/ PushGlobal \/ PushImport
               \/ MkTypeAlias \/ MkIf \/ MkWhile \/ MkFor \/ MkWithItem \/ MkWith \/ MkHandler \/ MkTry \/ MkDef \/ MkClass
               \/ PushPattern \/ MkPatSeq \/ MkPatOr \/ MkPatAs \/ MkPatMapping \/ MkPatClass \/ MkCase \/ MkMatch

\* ---------------- finishing: a module (1..2 statements) or a single expression ----------------
FinishModule == ~done /\ On("Module") /\ Len(stack) \in 1..2 /\ (\A j \in 1..Len(stack) : stack[j].cat = "stmt") /\ done' = TRUE /\ UNCHANGED <<stack, used, mut>>
FinishExpr == ~done /\ On("Expression") /\ Len(stack) = 1 /\ stack[1].cat = "expr" /\ done' = TRUE /\ UNCHANGED <<stack, used, mut>>
Next == ExprActions \/ StmtActions \/ FinishModule \/ FinishExpr
Spec == Init /\ [][Next]_vars

IsModule == \A j \in 1..Len(stack) : stack[j].cat = "stmt"
Tree == IF IsModule THEN [k |-> "Module", body |-> [j \in 1..Len(stack) |-> stack[j].t]] ELSE [k |-> "Expression", body |-> stack[1].t]
\* eval mode takes `expressions`: no bare yield, no walrus, no starred tuple element: rendered at TEST level
Items == IF IsModule THEN Cat([j \in 1..Len(stack) |-> RS(stack[j].t, <<"body", j>>)]) ELSE R(stack[1].t, <<"body">>, TEST)
EmitOK == (Emit /\ done /\ mut = "none") => PrintT("REPLAY" \o ToJson([fam |-> "py", mode |-> IF IsModule THEN "Module" ELSE "Expression", tree |-> Tree, items |-> Items]))
\* M: rendering is injective on finished programs is checked by the runner (distinct trees -> distinct token sequences)
\* C04: the error each rule must be reported as (kind paths as the replay normalises them; a trailing * is a prefix match)
RuleKinds(rule) ==
  CASE rule = "bracket.mismatched" -> {"UnrecognizedToken"}
    [] rule = "bytes.mixed" -> {"Lexical.OtherError:cannot mix bytes*"}
    [] rule = "bytes.non_ascii" -> {"Lexical.OtherError:bytes can only contain ASCII*"}
    [] rule = "call.duplicate_keyword" -> {"Lexical.DuplicateKeywordArgumentError"}
    [] rule = "call.positional_after_keyword" -> {"Lexical.PositionalArgumentError"}
    [] rule = "call.star_after_dstar" -> {"Lexical.UnpackedArgumentError"}
    [] rule = "char.unstartable" -> {"Lexical.UnrecognizedToken"}
    [] rule = "continuation.junk" -> {"Lexical.LineContinuationError"}
    [] rule = "dstar.parenthesised" -> {"Lexical.OtherError:cannot use double starred*"}
    [] rule = "star.parenthesised" -> {"Lexical.OtherError:cannot use starred*"}
    [] rule = "fstr.bad_conversion" -> {"Lexical.FStringError.InvalidConversionFlag", "Lexical.FStringError.UnclosedLbrace"}
    [] rule = "fstr.empty" -> {"Lexical.FStringError.EmptyExpression"}
    [] rule = "fstr.invalid_expression" -> {"Lexical.FStringError.InvalidExpression*"}
    [] rule = "fstr.mismatched" -> {"Lexical.FStringError.MismatchedDelimiter"}
    [] rule = "fstr.nested_too_deeply" -> {"Lexical.FStringError.ExpressionNestedTooDeeply"}
    [] rule = "fstr.single_rbrace" -> {"Lexical.FStringError.SingleRbrace"}
    [] rule = "fstr.unclosed" -> {"Lexical.FStringError.UnclosedLbrace"}
    [] rule = "fstr.unmatched" -> {"Lexical.FStringError.Unmatched"}
    [] rule = "fstr.unterminated_string" -> {"Lexical.FStringError.UnterminatedString"}
    [] rule \in {"num.bad_digit", "num.empty_radix"} -> {"Lexical.OtherError*", "UnrecognizedToken"}
    [] rule \in {"num.double_underscore", "num.trailing_underscore", "num.empty_exponent", "num.underscore_in_exponent"} -> {"UnrecognizedToken", "Lexical.OtherError*"}
    [] rule = "num.leading_zero" -> {"Lexical.OtherError:Invalid Token*"}
    [] rule = "num.underscore_after_point" -> {"Lexical.OtherError:Invalid Syntax*", "UnrecognizedToken"}
    [] rule = "param.bare_star" -> {"Lexical.OtherError:named arguments must follow bare*"}
    [] rule = "param.default_order" -> {"Lexical.DefaultArgumentError"}
    [] rule = "param.duplicate" -> {"Lexical.DuplicateArgumentError"}
    [] rule = "pattern.as_underscore" -> {"Lexical.OtherError:cannot use '_' as a target*"}
    [] rule \in {"str.bad_hex", "str.bad_name"} -> {"Lexical.UnicodeError"}
    [] rule = "str.unterminated" -> {"Lexical.StringError", "Lexical.OtherError:EOL*"}
    [] rule = "str.unterminated_triple" -> {"Lexical.Eof"}
\* C04: the programs with exactly one rule violation
EmitMutOK == (Emit /\ done /\ mut # "none") => PrintT("REPLAY" \o ToJson([fam |-> "mut", mode |-> IF IsModule THEN "Module" ELSE "Expression", rule |-> mut, expect |-> RuleKinds(mut), tree |-> Tree, items |-> Items]))
=======================================================================

CONSTANTS
  MaxStack = 4
  Budget = 3
  Enabled = {"Name", "UnaryOp", "BinOp", "Await", "Attribute", "Call", "NamedExpr", "Lambda", "IfExp", "Tuple", "Starred", "Compare", "BoolOp", "Yield", "Expression"}
  NameSet = {"a", "b"}
  ExtraParens = TRUE
  Emit = TRUE
SPECIFICATION Spec
INVARIANTS EmitOK
CHECK_DEADLOCK FALSE

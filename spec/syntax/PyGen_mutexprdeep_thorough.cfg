CONSTANTS
  MaxStack = 4
  Budget = 4
  Enabled = {"Mut", "Name", "UnaryOp", "BinOp", "Call", "Tuple", "List", "Lambda", "IfExp", "Subscript", "Attribute", "Expression"}
  NameSet = {"a"}
  ExtraParens = FALSE
  Emit = TRUE
SPECIFICATION Spec
INVARIANTS EmitMutOK
CHECK_DEADLOCK FALSE

CONSTANTS
  MaxStack = 4
  Budget = 6
  Enabled = {"Name", "SimpleStmt", "If", "While", "For", "With", "Try", "Module"}
  NameSet = {"a", "b"}
  ExtraParens = TRUE
  Emit = TRUE
SPECIFICATION Spec
INVARIANTS EmitOK
CHECK_DEADLOCK FALSE

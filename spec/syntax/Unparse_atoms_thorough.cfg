CONSTANTS
  MaxStack = 4
  Budget = 5
  Enabled = {"Name", "Const", "Attribute", "Call", "Subscript", "Slice", "Starred", "Tuple", "List", "Expression"}
  NameSet = {"a", "b"}
  ExtraParens = FALSE
  Emit = TRUE
  Variant = "fixed"
SPECIFICATION Spec
INVARIANTS UEmitOK RoundTripSafe
CHECK_DEADLOCK FALSE

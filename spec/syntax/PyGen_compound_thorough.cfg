CONSTANTS
  MaxStack = 4
  Budget = 7
  Enabled = {"Name", "SimpleStmt", "If", "While", "For", "With", "Try", "Module"}
  NameSet = {"a", "b"}
  ExtraParens = FALSE
  Emit = TRUE
SPECIFICATION Spec
INVARIANTS EmitOK
CHECK_DEADLOCK FALSE

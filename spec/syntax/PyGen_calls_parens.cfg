CONSTANTS
  MaxStack = 4
  Budget = 7
  Enabled = {"Name", "Call", "Comp", "Starred", "Expression"}
  NameSet = {"a"}
  ExtraParens = TRUE
  Emit = TRUE
SPECIFICATION Spec
INVARIANTS EmitOK
CHECK_DEADLOCK FALSE

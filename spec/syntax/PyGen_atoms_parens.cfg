CONSTANTS
  MaxStack = 4
  Budget = 4
  Enabled = {"Name", "Const", "Attribute", "Call", "Subscript", "Slice", "Starred", "Tuple", "List", "Expression"}
  NameSet = {"a", "b"}
  ExtraParens = TRUE
  Emit = TRUE
SPECIFICATION Spec
INVARIANTS EmitOK
CHECK_DEADLOCK FALSE

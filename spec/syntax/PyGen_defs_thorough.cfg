CONSTANTS
  MaxStack = 3
  Budget = 4
  Enabled = {"Name", "Const", "SimpleStmt", "Def", "Class", "TypeParams", "Starred", "Call", "Module"}
  NameSet = {"a", "b"}
  ExtraParens = FALSE
  Emit = TRUE
SPECIFICATION Spec
INVARIANTS EmitOK
CHECK_DEADLOCK FALSE

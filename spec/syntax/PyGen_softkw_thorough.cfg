CONSTANTS
  MaxStack = 3
  Budget = 4
  Enabled = {"Name", "Attribute", "Call", "Subscript", "Tuple", "Expr", "Assign", "AnnAssign", "AugAssign", "Lambda", "Compare", "UnaryOp", "TypeAlias", "Module", "Expression", "BinOp"}
  NameSet = {"a", "match", "case", "type"}
  ExtraParens = FALSE
  Emit = TRUE
SPECIFICATION Spec
INVARIANTS EmitOK
CHECK_DEADLOCK FALSE

CONSTANTS
  MaxStack = 3
  Budget = 4
  Enabled = {"Match", "PatOnly", "Module"}
  NameSet = {"a", "b"}
  ExtraParens = TRUE
  Emit = TRUE
SPECIFICATION Spec
INVARIANTS EmitOK
CHECK_DEADLOCK FALSE

CONSTANTS
  MaxStack = 3
  Budget = 4
  Enabled = {"Name", "Attribute", "Call", "Subscript", "Tuple", "Expr", "Assign", "AnnAssign", "AugAssign", "Lambda", "TypeAlias", "Module"}
  NameSet = {"a", "match", "case", "type"}
  ExtraParens = TRUE
  Emit = TRUE
SPECIFICATION Spec
INVARIANTS EmitOK
CHECK_DEADLOCK FALSE

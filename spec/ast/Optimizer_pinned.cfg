CONSTANTS
  Budget = 4
  Variant = "pinned"
  Emit = FALSE
SPECIFICATION Spec
INVARIANTS Idempotent Lossless
CHECK_DEADLOCK FALSE

CONSTANTS
  Budget = 6
  Variant = "fixed"
  Emit = TRUE
SPECIFICATION Spec
INVARIANTS Idempotent Lossless Maximal PinnedExact EmitOK
CHECK_DEADLOCK FALSE

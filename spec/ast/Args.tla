----------------------------- MODULE Args -----------------------------
(* The two parameter-list forms (ast/src/generic.rs):                         *)
(*   Arguments        defaults stored on each parameter, kw-only in source    *)
(*                    order                                                   *)
(*   PythonArguments  separate `defaults` / `kw_defaults` lists; kw-only      *)
(*                    parameters without defaults listed before those with    *)
(*                    defaults (as documented on the type)                    *)
(* A signature is built parameter by parameter (as the grammar allows), then  *)
(* converted (ToPython) and converted back (FromPython).  The conversions as  *)
(* the code performs them (prefix M) are checked against the declarative ones (D).  *)
EXTENDS Naturals, Sequences, FiniteSets, TLC, Json
CONSTANTS MaxPer, MaxKw, Emit, Variant   \* Variant: "pinned" = generic.rs at the pinned snapshot, "fixed" = after the fix: commit

VARIABLES sig, phase, py, back
vars == <<sig, phase, py, back>>

\* a parameter: [n |-> name, d |-> default id (0 = none)]
P(n, d) == [n |-> n, d |-> d]
NoSig == [po |-> <<>>, ar |-> <<>>, va |-> "", ko |-> <<>>, kw |-> ""]
Init == sig = NoSig /\ phase = "build" /\ py = <<>> /\ back = <<>>

HasDefault(s) == \E i \in 1..Len(s) : s[i].d # 0
\* positional parameters: once one has a default all later ones must have one (the grammar's rule)
AddPosOnly(d) == /\ phase = "build" /\ Len(sig.po) < MaxPer /\ sig.ar = <<>> /\ sig.va = "" /\ sig.ko = <<>> /\ sig.kw = ""
                 /\ (HasDefault(sig.po) => d)
                 /\ sig' = [sig EXCEPT !.po = Append(@, P("p" \o ToString(Len(@) + 1), IF d THEN 10 + Len(@) + 1 ELSE 0))]
                 /\ UNCHANGED <<phase, py, back>>
AddArg(d) == /\ phase = "build" /\ Len(sig.ar) < MaxPer /\ sig.va = "" /\ sig.ko = <<>> /\ sig.kw = ""
             /\ (HasDefault(sig.po) \/ HasDefault(sig.ar) => d)
             /\ sig' = [sig EXCEPT !.ar = Append(@, P("a" \o ToString(Len(@) + 1), IF d THEN 20 + Len(@) + 1 ELSE 0))]
             /\ UNCHANGED <<phase, py, back>>
SetVararg == /\ phase = "build" /\ sig.va = "" /\ sig.ko = <<>> /\ sig.kw = ""
             /\ sig' = [sig EXCEPT !.va = "v"] /\ UNCHANGED <<phase, py, back>>
\* keyword-only parameters may carry defaults in any pattern
AddKwOnly(d) == /\ phase = "build" /\ Len(sig.ko) < MaxKw /\ sig.kw = ""
                /\ sig' = [sig EXCEPT !.ko = Append(@, P("k" \o ToString(Len(@) + 1), IF d THEN 30 + Len(@) + 1 ELSE 0))]
                /\ UNCHANGED <<phase, py, back>>
SetKwarg == /\ phase = "build" /\ sig.kw = ""
            /\ sig' = [sig EXCEPT !.kw = "w"] /\ UNCHANGED <<phase, py, back>>

Names(s) == [i \in 1..Len(s) |-> s[i].n]
Defaults(s) == LET w == SelectSeq(s, LAMBDA p : p.d # 0) IN [i \in 1..Len(w) |-> w[i].d]

\* ---------------- declarative conversions ------------------------------------------------
DToPython(s) ==
   [po |-> Names(s.po), ar |-> Names(s.ar), defaults |-> Defaults(s.po \o s.ar), va |-> s.va,
    ko |-> Names(SelectSeq(s.ko, LAMBDA p : p.d = 0) \o SelectSeq(s.ko, LAMBDA p : p.d # 0)),
    kwd |-> Defaults(s.ko), kw |-> s.kw]
\* attach `ds` to the last Len(ds) names
Attach(ns, ds) == [i \in 1..Len(ns) |-> P(ns[i], IF i > Len(ns) - Len(ds) THEN ds[i - (Len(ns) - Len(ds))] ELSE 0)]
DFromPython(p) ==
   LET all == Attach(p.po \o p.ar, p.defaults) IN
   [po |-> SubSeq(all, 1, Len(p.po)), ar |-> SubSeq(all, Len(p.po) + 1, Len(all)), va |-> p.va,
    ko |-> Attach(p.ko, p.kwd), kw |-> p.kw]
\* what the round trip must give: the same signature with kw-only stably partitioned by default existence
Expected(s) == [s EXCEPT !.ko = SelectSeq(s.ko, LAMBDA p : p.d = 0) \o SelectSeq(s.ko, LAMBDA p : p.d # 0)]

\* ---------------- the conversions as the code performs them (mirror of generic.rs) ---------
MToPython(s) ==
   IF Variant = "pinned"
   THEN \* kw-only parameters are copied in source order, their defaults collected in that order
        [po |-> Names(s.po), ar |-> Names(s.ar), defaults |-> Defaults(s.po \o s.ar), va |-> s.va,
         ko |-> Names(s.ko), kwd |-> Defaults(s.ko), kw |-> s.kw]
   ELSE LET split == <<SelectSeq(s.ko, LAMBDA p : p.d = 0), SelectSeq(s.ko, LAMBDA p : p.d # 0)>> IN
        [po |-> Names(s.po), ar |-> Names(s.ar), defaults |-> Defaults(s.po \o s.ar), va |-> s.va,
         ko |-> Names(split[1] \o split[2]), kwd |-> Defaults(split[2]), kw |-> s.kw]
Pad(n, ds) == [i \in 1..n |-> IF i > n - Len(ds) THEN ds[i - (n - Len(ds))] ELSE 0]
MFromPython(p) ==
   LET n == Len(p.po) + Len(p.ar)
       dd == Pad(n, p.defaults)
       \* pinned: the padding length is taken from the still empty output vector, so nothing is padded and
       \* zip() stops at the shorter list: parameters beyond Len(kw_defaults) are dropped
       kd == IF Variant = "pinned" THEN p.kwd ELSE Pad(Len(p.ko), p.kwd)
       nk == IF Len(kd) < Len(p.ko) THEN Len(kd) ELSE Len(p.ko)
   IN [po |-> [i \in 1..Len(p.po) |-> P(p.po[i], dd[i])],
       ar |-> [i \in 1..Len(p.ar) |-> P(p.ar[i], dd[Len(p.po) + i])],
       va |-> p.va,
       ko |-> [i \in 1..nk |-> P(p.ko[i], kd[i])],
       kw |-> p.kw]

Convert == /\ phase = "build" /\ phase' = "python" /\ py' = MToPython(sig) /\ UNCHANGED <<sig, back>>
Back == /\ phase = "python" /\ phase' = "back" /\ back' = MFromPython(py) /\ UNCHANGED <<sig, py>>

Next == \/ \E d \in BOOLEAN : AddPosOnly(d) \/ AddArg(d) \/ AddKwOnly(d)
        \/ SetVararg \/ SetKwarg \/ Convert \/ Back
Spec == Init /\ [][Next]_vars

\* ---------------- M ----------------------------------------------------------------------
ToPythonOK == phase \in {"python", "back"} => py = DToPython(sig)
RoundTripOK == phase = "back" => /\ back = DFromPython(DToPython(sig))
                                 /\ back = Expected(sig)
\* nothing is lost: same multiset of (name, default) pairs, positional order unchanged
ParamSet(s) == {<<"po", s.po[i]>> : i \in 1..Len(s.po)} \cup {<<"ar", s.ar[i]>> : i \in 1..Len(s.ar)}
               \cup {<<"ko", s.ko[i]>> : i \in 1..Len(s.ko)}
KeepsAll == phase = "back" => /\ ParamSet(back) = ParamSet(sig) /\ back.po = sig.po /\ back.ar = sig.ar
                              /\ back.va = sig.va /\ back.kw = sig.kw /\ Len(back.ko) = Len(sig.ko)
\* documented order of the Python-style form
KwOrderOK == phase \in {"python", "back"} =>
               LET nd == Cardinality({i \in 1..Len(sig.ko) : sig.ko[i].d = 0}) IN
               /\ \A i \in 1..Len(py.ko) : (i <= nd) <=> (\E j \in 1..Len(sig.ko) : sig.ko[j].n = py.ko[i] /\ sig.ko[j].d = 0)
               /\ Len(py.kwd) = Len(sig.ko) - nd

EmitOK == (Emit /\ phase = "back") =>
   PrintT("REPLAY" \o ToJson([fam |-> "args", sig |-> sig, py |-> DToPython(sig), back |-> Expected(sig)]))
=======================================================================

----------------------------- MODULE Traversal -----------------------------
(* C12 -- Fold and Visitor traverse the whole tree faithfully (trace validation).

   The tree of each program is given as a node table (TREE: one record per struct of the tree in the canonical
   projection: kind, category, whether it carries a range in this build, the range, its children in declaration
   order).  The specification is the depth-first walk of that table:

     fold   a folder is told about every range-carrying node exactly twice: will_map_user when the node is entered
            (before any child), map_user when it is left (after all children, with the context it produced);
            nodes without a range (EmptyRange products in the default build) are walked silently;
     visit  the default Visitor calls visit_stmt / visit_expr / visit_pattern / visit_excepthandler once for every
            node of these categories, parents before children, children in declaration order; other structs
            (arguments, keyword, comprehension, withitem, match_case, ...) are walked silently.

   TRACE holds the callbacks recorded from the real Fold / Visitor implementations (one "reset" per program and
   mode); each step of the walk consumes the next event if the step is observable.  Any dropped, duplicated,
   reordered or foreign callback leaves an event unmatched (POSTCONDITION).
   Opaque = kinds whose children the default visitor does not walk: {} is the property; the pinned tree's generated
   visitor had empty bodies for the product types -- with Opaque set to those kinds the walk reproduces it and
   reports every hidden subtree in `bad`. *)
EXTENDS Naturals, Sequences, TLC, Json, IOUtils

CONSTANT Opaque

Nodes == ndJsonDeserialize(IOEnv.TREE)
Log == ndJsonDeserialize(IOEnv.TRACE)

VARIABLES l, stack, mode, bad
vars == <<l, stack, mode, bad>>

Cats == {"stmt", "expr", "pattern", "handler"}

Top == stack[Len(stack)]
Pop == SubSeq(stack, 1, Len(stack) - 1)
SetTop(i) == [stack EXCEPT ![Len(stack)].i = i]

\* is the node's entry / exit observable in this mode?
Observed(nd) == IF mode = "fold" THEN nd.ranged ELSE nd.cat \in Cats
EnterEvent(nd) == IF mode = "fold" THEN "enter" ELSE nd.cat
Kids(nd) == IF mode = "visit" /\ nd.kind \in Opaque THEN <<>> ELSE nd.kids

HasEvent == l <= Len(Log)
Matches(ev, nd) == HasEvent /\ Log[l].ev = ev /\ Log[l].s = nd.s /\ Log[l].e = nd.e

Init == l = 1 /\ stack = <<>> /\ mode = "none" /\ bad = <<>>

\* a new program (or the end mark): the previous walk must be complete
Reset == /\ stack = <<>> /\ HasEvent /\ Log[l].ev = "reset"
         /\ stack' = <<[n |-> Log[l].root, i |-> 0]>>
         /\ mode' = Log[l].mode
         /\ l' = l + 1 /\ UNCHANGED bad
Finish == /\ stack = <<>> /\ HasEvent /\ Log[l].ev = "end"
          /\ l' = l + 1 /\ UNCHANGED <<stack, mode, bad>>

Enter == /\ stack # <<>> /\ Top.i = 0
         /\ LET nd == Nodes[Top.n] IN
            /\ IF Observed(nd) THEN Matches(EnterEvent(nd), nd) /\ l' = l + 1 ELSE l' = l
            /\ bad' = IF mode = "visit" /\ nd.kind \in Opaque /\ nd.ncat > 0
                      THEN Append(bad, [what |-> "not_descended", kind |-> nd.kind, hidden |-> nd.ncat, prog |-> nd.prog]) ELSE bad
         /\ stack' = SetTop(1) /\ UNCHANGED mode

Descend == /\ stack # <<>> /\ Top.i >= 1 /\ Top.i <= Len(Kids(Nodes[Top.n]))
           /\ stack' = Append(SetTop(Top.i + 1), [n |-> Kids(Nodes[Top.n])[Top.i], i |-> 0])
           /\ UNCHANGED <<l, mode, bad>>

Exit == /\ stack # <<>> /\ Top.i >= 1 /\ Top.i = Len(Kids(Nodes[Top.n])) + 1
        /\ LET nd == Nodes[Top.n] IN
           IF mode = "fold" /\ nd.ranged THEN Matches("exit", nd) /\ l' = l + 1 ELSE l' = l
        /\ stack' = Pop /\ UNCHANGED <<mode, bad>>

Next == Reset \/ Finish \/ Enter \/ Descend \/ Exit
TSpec == Init /\ [][Next]_vars

(* ---------------------------------------------------------------- acceptance *)
Track == TLCSet(1, IF TLCGet(1) > l THEN TLCGet(1) ELSE l) /\ (bad # <<>> /\ l = Len(Log) + 1 => TLCSet(2, bad))
ASSUME TLCSet(1, 0) /\ TLCSet(2, <<>>)
TraceAccepted ==
   /\ (TLCGet(2) # <<>> => PrintT("BAD" \o ToJson(TLCGet(2))))
   /\ IF TLCGet(1) = Len(Log) + 1 THEN TRUE
      ELSE /\ PrintT("UNMATCHED at " \o ToString(TLCGet(1)))
           /\ FALSE
=============================================================================

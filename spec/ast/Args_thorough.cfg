CONSTANTS
  MaxPer = 3
  MaxKw = 4
  Emit = TRUE
  Variant = "fixed"
SPECIFICATION Spec
INVARIANTS ToPythonOK RoundTripOK KeepsAll KwOrderOK EmitOK
CHECK_DEADLOCK FALSE

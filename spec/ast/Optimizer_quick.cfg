CONSTANTS
  Budget = 5
  Variant = "fixed"
  Emit = TRUE
SPECIFICATION Spec
INVARIANTS Idempotent Lossless Maximal PinnedExact EmitOK
CHECK_DEADLOCK FALSE

----------------------------- MODULE Optimizer -----------------------------
(* C12 (third clause) -- the constant-tuple optimiser changes nothing except replacing load-context tuples whose
   elements are all constants by the equal tuple constant, and is idempotent.

   Abstract trees: C(v) constant, N name, T(ctx, elts) tuple, L(ctx, elts) list, K(vals) tuple constant; statements
   E(value), A(target, value), F(target, iter).  A stack machine builds every statement within a node budget
   (targets are names, tuples and lists of targets: `() = x` and `[(), a] = x` are valid programs).

   Opt is the rewriting in two variants: "fixed" folds load-context tuples only (the property); "pinned" mirrors
   ast/src/optimizer.rs of the pinned tree, which does not look at the context.
   M: Idempotent, Lossless (unfolding every tuple constant of the result gives back the input), Maximal (no foldable
      load tuple is left) for the fixed variant; PinnedExact states where the pinned variant deviates.
   G: every statement is emitted with its source text and Opt(fixed) / Opt(pinned); the replay runs the real
      ConstantOptimizer on the parsed text and compares the abstracted result. *)
EXTENDS Naturals, Sequences, TLC, Json

CONSTANTS Budget, Variant, Emit

VARIABLES stack, used, done
vars == <<stack, used, done>>

C(v) == [k |-> "C", v |-> v]
N == [k |-> "N"]
T(ctx, es) == [k |-> "T", ctx |-> ctx, elts |-> es]
L(ctx, es) == [k |-> "L", ctx |-> ctx, elts |-> es]
K(vs) == [k |-> "K", vals |-> vs]
IsConst(t) == t.k \in {"C", "K"}

RECURSIVE Opt(_, _)
Opt(t, variant) ==
  CASE t.k = "T" -> LET es == [j \in 1..Len(t.elts) |-> Opt(t.elts[j], variant)] IN
                    IF (variant = "pinned" \/ t.ctx = "Load") /\ \A j \in 1..Len(es) : IsConst(es[j]) THEN K(es) ELSE T(t.ctx, es)
    [] t.k = "L" -> L(t.ctx, [j \in 1..Len(t.elts) |-> Opt(t.elts[j], variant)])
    [] t.k = "E" -> [t EXCEPT !.value = Opt(t.value, variant)]
    [] t.k \in {"A", "F"} -> [t EXCEPT !.target = Opt(t.target, variant), !.value = Opt(t.value, variant)]
    [] OTHER -> t

\* every tuple constant written back as the load-context tuple display it stands for
RECURSIVE Unfold(_)
Unfold(t) ==
  CASE t.k = "K" -> T("Load", [j \in 1..Len(t.vals) |-> Unfold(t.vals[j])])
    [] t.k = "T" -> T(t.ctx, [j \in 1..Len(t.elts) |-> Unfold(t.elts[j])])
    [] t.k = "L" -> L(t.ctx, [j \in 1..Len(t.elts) |-> Unfold(t.elts[j])])
    [] t.k = "E" -> [t EXCEPT !.value = Unfold(t.value)]
    [] t.k \in {"A", "F"} -> [t EXCEPT !.target = Unfold(t.target), !.value = Unfold(t.value)]
    [] OTHER -> t

RECURSIVE Foldable(_, _)
\* a tuple of context ctx with only constant (or foldable) elements occurs in t
Foldable(t, ctx) ==
  CASE t.k = "T" -> \/ (t.ctx = ctx /\ \A j \in 1..Len(t.elts) : IsConst(t.elts[j]))
                    \/ \E j \in 1..Len(t.elts) : Foldable(t.elts[j], ctx)
    [] t.k = "L" -> \E j \in 1..Len(t.elts) : Foldable(t.elts[j], ctx)
    [] t.k = "E" -> Foldable(t.value, ctx)
    [] t.k \in {"A", "F"} -> Foldable(t.target, ctx) \/ Foldable(t.value, ctx)
    [] OTHER -> FALSE

(* ---------------------------------------------------------------- builder *)
RECURSIVE Store(_)
Store(t) == CASE t.k = "T" -> T("Store", [j \in 1..Len(t.elts) |-> Store(t.elts[j])])
              [] t.k = "L" -> L("Store", [j \in 1..Len(t.elts) |-> Store(t.elts[j])])
              [] OTHER -> t
RECURSIVE IsTarget(_)
IsTarget(t) == t.k = "N" \/ (t.k \in {"T", "L"} /\ \A j \in 1..Len(t.elts) : IsTarget(t.elts[j]))

Init == stack = <<>> /\ used = 0 /\ done = FALSE
Can(n) == ~done /\ used < Budget /\ Len(stack) >= n /\ (n = 0 => Len(stack) < 3)
TopN(n) == SubSeq(stack, Len(stack) - n + 1, Len(stack))
Reduce(n, t) == stack' = Append(SubSeq(stack, 1, Len(stack) - n), t) /\ used' = used + 1 /\ UNCHANGED done
PushLeaf == Can(0) /\ \E t \in {C("1"), C("'s'"), N} : Reduce(0, t)
MkTuple == \E n \in 0..2 : Can(n) /\ Reduce(n, T("Load", TopN(n)))
MkList == \E n \in 0..2 : Can(n) /\ Reduce(n, L("Load", TopN(n)))
FinishExpr == ~done /\ Len(stack) = 1 /\ stack' = <<[k |-> "E", value |-> stack[1]]>> /\ done' = TRUE /\ UNCHANGED used
FinishAssign == ~done /\ Len(stack) = 2 /\ IsTarget(stack[1]) /\ \E kind \in {"A", "F"} :
                   stack' = <<[k |-> kind, target |-> Store(stack[1]), value |-> stack[2]]>> /\ done' = TRUE /\ UNCHANGED used
Next == PushLeaf \/ MkTuple \/ MkList \/ FinishExpr \/ FinishAssign
Spec == Init /\ [][Next]_vars

(* ---------------------------------------------------------------- properties *)
Stmt == stack[1]
Idempotent == done => Opt(Opt(Stmt, Variant), Variant) = Opt(Stmt, Variant)
Lossless == done => Unfold(Opt(Stmt, Variant)) = Stmt
Maximal == done => ~Foldable(Opt(Stmt, Variant), "Load")
\* the pinned rewriting differs from the property exactly on statements holding a foldable store-context tuple
PinnedExact == done => ((Opt(Stmt, "pinned") # Opt(Stmt, "fixed")) <=> Foldable(Opt(Stmt, "fixed"), "Store"))

(* ---------------------------------------------------------------- rendering and emission *)
RECURSIVE Join(_)
Join(ss) == IF ss = <<>> THEN "" ELSE IF Len(ss) = 1 THEN ss[1] ELSE ss[1] \o ", " \o Join(Tail(ss))
RECURSIVE R(_)
R(t) == CASE t.k = "C" -> t.v
          [] t.k = "N" -> "a"
          [] t.k = "T" -> "(" \o Join([j \in 1..Len(t.elts) |-> R(t.elts[j])]) \o (IF Len(t.elts) = 1 THEN "," ELSE "") \o ")"
          [] t.k = "L" -> "[" \o Join([j \in 1..Len(t.elts) |-> R(t.elts[j])]) \o "]"
          [] t.k = "E" -> R(t.value)
          [] t.k = "A" -> R(t.target) \o " = " \o R(t.value)
          [] t.k = "F" -> "for " \o R(t.target) \o " in " \o R(t.value) \o ": pass"
EmitOK == (Emit /\ done) => PrintT("REPLAY" \o ToJson([src |-> R(Stmt) \o "\n", want |-> Opt(Stmt, "fixed"), pinned |-> Opt(Stmt, "pinned")]))
=============================================================================

CONSTANTS
  MaxPer = 2
  MaxKw = 2
  Emit = FALSE
  Variant = "pinned"
SPECIFICATION Spec
INVARIANTS ToPythonOK RoundTripOK KeepsAll KwOrderOK
CHECK_DEADLOCK FALSE

CONSTANTS
  MaxPer = 2
  MaxKw = 3
  Emit = TRUE
  Variant = "fixed"
SPECIFICATION Spec
INVARIANTS ToPythonOK RoundTripOK KeepsAll KwOrderOK EmitOK
CHECK_DEADLOCK FALSE

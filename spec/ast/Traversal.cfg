CONSTANTS
  Opaque = {}
SPECIFICATION TSpec
CONSTRAINT Track
POSTCONDITION TraceAccepted
CHECK_DEADLOCK FALSE

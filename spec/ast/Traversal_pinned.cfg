CONSTANTS
  Opaque = {"Arguments", "Arg", "Keyword", "Alias", "WithItem", "MatchCase", "Comprehension"}
SPECIFICATION TSpec
CONSTRAINT Track
POSTCONDITION TraceAccepted
CHECK_DEADLOCK FALSE

------------------------------- MODULE Entry -------------------------------
(* C09 -- start offsets only translate positions; all entry points are views of one parser.

   The parser proper is an oracle here (C01/C02 decide what it returns).  What this module specifies is the layer
   above it: which oracle call every public entry point makes, which part of the oracle's answer it hands back, what
   it reports when that part does not exist, and how a start offset k enters.  The state is

       cls    what the one parser says about the text at offset 0:
              module mode   rejected | accepted with 0 / 1 / more statements (kind of the first one; for an
                            expression statement the kind of its value)
              expression mode  rejected (because the token stream is empty | for another reason) | accepted (kind)
       entry  the public function that is called,  k  whether a non-zero start offset is passed,
       res    the answer, as a descriptor that the replay resolves against the two oracle answers:
              ok / view    which part of which tree ("mod", "mod.body", "mod.body[1]", "expr", "expr.body", ...)
              err / ekind  "same_as_mod" | "same_as_expr" (the oracle's error) | "Eof" | "InvalidToken"
                    at     where ("k" = start of the text, "zero" = absolute 0, or the start of a node)
              all positions are relative to the start of the text, i.e. already moved back by k.

   Two definitions are given and compared by TLC:
     Declared   -- the property: a table entry -> (mode, part) and one rule that reads the part off the oracle answer
     Funnel     -- the implementation's shape: every typed parser calls the next more general one and unwraps
                   (parser/src/parser.rs impl Parse for ..., parser/src/gen/parse.rs), errors clamped by at_least
   Variant = "pinned" adds the one place where the code is known to deviate (an empty token stream carries no
   position, so entry points that take tokens report Eof at absolute 0): the replay uses it to recognise that
   finding exactly. *)
EXTENDS Naturals, Sequences, FiniteSets, TLC, Json

CONSTANTS StmtKinds, ExprKinds, Variant, Emit

None == "-"

(* ---------------------------------------------------------------- input classes *)
ModClasses ==
       [ok : {FALSE}, n : {0}, k1 : {None}, v1 : {None}]
  \cup [ok : {TRUE}, n : {0}, k1 : {None}, v1 : {None}]
  \cup [ok : {TRUE}, n : {1, 2}, k1 : StmtKinds \ {"Expr"}, v1 : {None}]
  \cup [ok : {TRUE}, n : {1, 2}, k1 : {"Expr"}, v1 : ExprKinds]          \* n = 2 stands for "two or more"

ExprClasses ==
       [ok : {FALSE}, why : {"empty", "other"}, ek : {None}]
  \cup [ok : {TRUE}, why : {None}, ek : ExprKinds]

(* the relation between the two oracle answers that the property states: an accepted expression is the value of the
   single expression statement the text is in module mode; an empty token stream is an empty module *)
Consistent(m, x) ==
  /\ x.ok => (m.ok /\ m.n = 1 /\ m.k1 = "Expr" /\ m.v1 = x.ek)
  /\ (x.why = "empty") <=> (m.ok /\ m.n = 0)
  \* the converse of the first clause has documented exceptions (a bare yield or a starred target list is a
  \* statement but not an eval-mode expression), so it is not required here; the replay checks it against CPython.

Classes == {c \in [m : ModClasses, x : ExprClasses] : Consistent(c.m, c.x)}

(* ---------------------------------------------------------------- entry points *)
Modes == {"Module", "Interactive", "Expression"}
StmtMode(mode) == mode \in {"Module", "Interactive"}

\* name, whether an offset is passed, whether the error is clamped (text-taking functions) or not (token-taking)
Plain ==
  { [f |-> "parse." \o md, atk |-> FALSE, tok |-> FALSE] : md \in Modes } \cup
  { [f |-> "parse_starts_at." \o md \o "@k", atk |-> TRUE, tok |-> FALSE] : md \in Modes } \cup
  { [f |-> "parse_tokens." \o md, atk |-> FALSE, tok |-> TRUE] : md \in Modes } \cup
  { [f |-> "parse_tokens." \o md \o "@k", atk |-> TRUE, tok |-> TRUE] : md \in Modes }

Typed == {"ModModule", "ModInteractive", "ModExpression", "Suite", "Stmt", "Expr", "Identifier", "Constant"}
       \cup {"kind.Stmt" \o k : k \in StmtKinds} \cup {"kind.Expr" \o k : k \in ExprKinds}

TypedEntries ==
  { [f |-> t, atk |-> FALSE, tok |-> FALSE] : t \in Typed } \cup
  { [f |-> t \o "@k", atk |-> TRUE, tok |-> FALSE] : t \in Typed \ {"ModInteractive"} } \cup
  { [f |-> "ModInteractive@k", atk |-> TRUE, tok |-> FALSE] } \cup
  { [f |-> "Suite.without_path", atk |-> FALSE, tok |-> FALSE], [f |-> "Suite.parse_tokens", atk |-> FALSE, tok |-> TRUE],
    [f |-> "Suite.parse_tokens@k", atk |-> TRUE, tok |-> TRUE], [f |-> "Stmt.parse_tokens@k", atk |-> TRUE, tok |-> TRUE],
    [f |-> "Expr.parse_tokens@k", atk |-> TRUE, tok |-> TRUE] }

Deprecated ==
  { [f |-> "parse_program", atk |-> FALSE, tok |-> FALSE], [f |-> "parse_expression", atk |-> FALSE, tok |-> FALSE],
    [f |-> "parse_expression_starts_at@k", atk |-> TRUE, tok |-> FALSE] }

Lexing == { [f |-> "lex", atk |-> FALSE, tok |-> FALSE], [f |-> "lex@k", atk |-> TRUE, tok |-> FALSE] }

Entries == Plain \cup TypedEntries \cup Deprecated \cup Lexing

\* the typed parser an entry belongs to (strip "@k" and the token/path suffixes)
BaseOfRaw(e) ==
  LET f == e.f IN
  CASE f \in {"Suite.without_path", "Suite.parse_tokens", "Suite.parse_tokens@k", "parse_program"} -> "Suite"
    [] f = "Stmt.parse_tokens@k" -> "Stmt"
    [] f \in {"Expr.parse_tokens@k", "parse_expression", "parse_expression_starts_at@k"} -> "Expr"
    [] \E t \in Typed : f = t \/ f = t \o "@k" -> CHOOSE t \in Typed : f = t \/ f = t \o "@k"
    [] OTHER -> f

BaseTab == [e \in Entries |-> BaseOfRaw(e)]          \* constant-level tables: TLC evaluates them once
BaseOf(e) == BaseTab[e]

(* ---------------------------------------------------------------- descriptors *)
Ok(view) == [r |-> "ok", view |-> view, ekind |-> None, at |-> None]
Err(kind, at) == [r |-> "err", view |-> None, ekind |-> kind, at |-> at]
IsOk(d) == d.r = "ok"

(* ---------------------------------------------------------------- Declared: the property *)
\* (mode the text is parsed in, part of the tree that is returned)
ModeOfPlain(f) == CHOOSE md \in Modes : \E p \in {"parse.", "parse_starts_at.", "parse_tokens."} : f = p \o md \/ f = p \o md \o "@k"

PartRaw(e) ==
  LET b == BaseOf(e) IN
  CASE e \in Plain -> [mode |-> ModeOfPlain(e.f), part |-> "whole", kind |-> None]
    [] b = "ModModule" -> [mode |-> "Module", part |-> "whole", kind |-> None]
    [] b = "ModInteractive" -> [mode |-> "Interactive", part |-> "whole", kind |-> None]
    [] b = "ModExpression" -> [mode |-> "Expression", part |-> "whole", kind |-> None]
    [] b = "Suite" -> [mode |-> "Module", part |-> "body", kind |-> None]
    [] b = "Stmt" -> [mode |-> "Module", part |-> "only_stmt", kind |-> None]
    [] b = "Expr" -> [mode |-> "Expression", part |-> "value", kind |-> None]
    [] b = "Identifier" -> [mode |-> "Expression", part |-> "id", kind |-> "Name"]
    [] b = "Constant" -> [mode |-> "Expression", part |-> "const", kind |-> "Constant"]
    [] \E k \in StmtKinds : b = "kind.Stmt" \o k ->
          [mode |-> "Module", part |-> "only_stmt", kind |-> CHOOSE k \in StmtKinds : b = "kind.Stmt" \o k]
    [] \E k \in ExprKinds : b = "kind.Expr" \o k ->
          [mode |-> "Expression", part |-> "value", kind |-> CHOOSE k \in ExprKinds : b = "kind.Expr" \o k]
    [] OTHER -> [mode |-> "Module", part |-> "tokens", kind |-> None]

PartTab == [e \in Entries |-> PartRaw(e)]
Part(e) == PartTab[e]

\* reading a part off the oracle's answers; positions are relative to the start of the text, whatever k is
Declared(c, e) ==
  LET p == Part(e) IN
  IF p.part = "tokens" THEN Ok("toks")
  ELSE IF StmtMode(p.mode) THEN
    IF ~c.m.ok THEN Err("same_as_mod", None)
    ELSE CASE p.part = "whole" -> Ok(IF p.mode = "Module" THEN "mod" ELSE "mod.as_interactive")
           [] p.part = "body" -> Ok("mod.body")
           [] p.part = "only_stmt" ->
                 IF c.m.n = 0 THEN Err("Eof", "k")
                 ELSE IF c.m.n = 2 THEN Err("InvalidToken", "mod.body[2].start")
                 ELSE IF p.kind = None \/ p.kind = c.m.k1 THEN Ok("mod.body[1]")
                 ELSE Err("InvalidToken", "mod.body[1].start")
  ELSE
    IF ~c.x.ok THEN (IF c.x.why = "empty" THEN Err("Eof", "k") ELSE Err("same_as_expr", None))
    ELSE CASE p.part = "whole" -> Ok("expr")
           [] p.part = "value" -> IF p.kind = None \/ p.kind = c.x.ek THEN Ok("expr.body") ELSE Err("InvalidToken", "expr.body.start")
           [] p.part = "id" -> IF c.x.ek = "Name" THEN Ok("expr.body.id") ELSE Err("InvalidToken", "expr.body.start")
           [] p.part = "const" -> IF c.x.ek = "Constant" THEN Ok("expr.body.value") ELSE Err("InvalidToken", "expr.body.start")

(* ---------------------------------------------------------------- Funnel: the implementation's shape *)
\* parse_filtered_tokens: the start marker carries the default (absolute 0) range, so an end of input that arrives
\* before any token is reported there
FilteredTokens(c, mode) ==
  IF StmtMode(mode) THEN (IF c.m.ok THEN Ok(IF mode = "Module" THEN "mod" ELSE "mod.as_interactive") ELSE Err("same_as_mod", None))
  ELSE IF c.x.ok THEN Ok("expr")
  ELSE IF c.x.why = "empty" THEN Err("Eof", "zero") ELSE Err("same_as_expr", None)

\* Parse::parse_tokens of each implementing type, as the chain of calls it is
RECURSIVE TypedTokens(_, _)
TypedTokens(c, b) ==
  CASE b = "ModModule" -> FilteredTokens(c, "Module")
    [] b = "ModInteractive" -> FilteredTokens(c, "Interactive")
    [] b = "ModExpression" -> FilteredTokens(c, "Expression")
    [] b = "Suite" -> LET r == TypedTokens(c, "ModModule") IN IF IsOk(r) THEN Ok("mod.body") ELSE r
    [] b = "Stmt" -> LET r == TypedTokens(c, "ModModule") IN
          IF ~IsOk(r) THEN r
          ELSE CASE c.m.n = 0 -> Err("Eof", "zero")                       \* TextSize::default()
                 [] c.m.n = 1 -> Ok("mod.body[1]")
                 [] OTHER -> Err("InvalidToken", "mod.body[2].start")
    [] b = "Expr" -> LET r == TypedTokens(c, "ModExpression") IN IF IsOk(r) THEN Ok("expr.body") ELSE r
    [] b = "Identifier" -> LET r == TypedTokens(c, "Expr") IN
          IF ~IsOk(r) THEN r ELSE IF c.x.ek = "Name" THEN Ok("expr.body.id") ELSE Err("InvalidToken", "expr.body.start")
    [] b = "Constant" -> LET r == TypedTokens(c, "Expr") IN
          IF ~IsOk(r) THEN r ELSE IF c.x.ek = "Constant" THEN Ok("expr.body.value") ELSE Err("InvalidToken", "expr.body.start")
    [] \E k \in StmtKinds : b = "kind.Stmt" \o k ->
          LET k == CHOOSE kk \in StmtKinds : b = "kind.Stmt" \o kk
              r == TypedTokens(c, "Stmt") IN
          IF ~IsOk(r) THEN r ELSE IF c.m.k1 = k THEN Ok("mod.body[1]") ELSE Err("InvalidToken", "mod.body[1].start")
    [] \E k \in ExprKinds : b = "kind.Expr" \o k ->
          LET k == CHOOSE kk \in ExprKinds : b = "kind.Expr" \o kk
              r == TypedTokens(c, "Expr") IN
          IF ~IsOk(r) THEN r ELSE IF c.x.ek = k THEN Ok("expr.body") ELSE Err("InvalidToken", "expr.body.start")

\* at_least(error, offset): text-taking functions clamp the error position to the start of the text
AtLeast(d) == IF ~IsOk(d) /\ d.at = "zero" THEN [d EXCEPT !.at = "k"] ELSE d

\* with k = 0 absolute 0 is the start of the text
Norm(d, e) == IF ~e.atk /\ ~IsOk(d) /\ d.at = "zero" THEN [d EXCEPT !.at = "k"] ELSE d

\* the token-taking entry points cannot know k when the stream is empty; the ideal variant pretends they can
TokenFix(d) == IF Variant = "ideal" THEN AtLeast(d) ELSE d

Funnel(c, e) ==
  LET raw == CASE e \in Lexing -> Ok("toks")
               [] e \in Plain -> FilteredTokens(c, ModeOfPlain(e.f))
               [] OTHER -> TypedTokens(c, BaseOf(e)) IN
  Norm(IF e.tok THEN TokenFix(raw) ELSE AtLeast(raw), e)

(* ---------------------------------------------------------------- the machine *)
VARIABLES cls, entry, res
vars == <<cls, entry, res>>

Init == cls \in Classes /\ entry = None /\ res = None
Call(e) == /\ entry = None
           /\ entry' = e.f
           /\ res' = Funnel(cls, e)
           /\ UNCHANGED cls
Next == \E e \in Entries : Call(e)
Spec == Init /\ [][Next]_vars

(* ---------------------------------------------------------------- properties *)
ByName == [f \in {e.f : e \in Entries} |-> CHOOSE e \in Entries : e.f = f]
EntryOf(f) == ByName[f]

\* every entry point is the declared view of the one parser
Deviates(c, e) == Funnel(c, e) # Declared(c, e)
ViewsAgree == entry # None => ~Deviates(cls, EntryOf(entry))

\* a start offset only translates: relative to the start of the text the answer does not mention k
Translation == entry # None => LET e == EntryOf(entry) IN
                  /\ res.at # "zero"
                  /\ \A e0 \in Entries : (Part(e0) = Part(e)) => res = Funnel(cls, e0)

\* the pinned variant deviates in exactly one situation: token-taking entry points on an empty token stream whose
\* answer is an error made up above the oracle
PinnedDeviation(c, e) == e.tok /\ e.atk /\ c.m.ok /\ c.m.n = 0 /\ Part(e).part \in {"only_stmt", "value", "id", "const"} \cup (IF Part(e).mode = "Expression" THEN {"whole"} ELSE {})
PinnedExact == entry # None => (Deviates(cls, EntryOf(entry)) <=> PinnedDeviation(cls, EntryOf(entry)))

(* ---------------------------------------------------------------- replay records: one per class *)
ClassRec(c) == [m |-> c.m, x |-> c.x,
                want |-> [f \in {e.f : e \in Entries} |-> Declared(c, EntryOf(f))],
                code |-> [f \in {e.f : e \in Entries} |-> Funnel(c, EntryOf(f))]]
EmitOK == (Emit /\ entry = None) => PrintT("REPLAY" \o ToJson(ClassRec(cls)))
=============================================================================

SPECIFICATION Spec
CONSTANTS
 StmtKinds = {"FunctionDef", "AsyncFunctionDef", "ClassDef", "Return", "Delete", "Assign", "TypeAlias", "AugAssign", "AnnAssign", "For", "AsyncFor", "While", "If", "With", "AsyncWith", "Match", "Raise", "Try", "TryStar", "Assert", "Import", "ImportFrom", "Global", "Nonlocal", "Expr", "Pass", "Break", "Continue"}
 ExprKinds = {"BoolOp", "NamedExpr", "BinOp", "UnaryOp", "Lambda", "IfExp", "Dict", "Set", "ListComp", "SetComp", "DictComp", "GeneratorExp", "Await", "Yield", "YieldFrom", "Compare", "Call", "FormattedValue", "JoinedStr", "Constant", "Attribute", "Subscript", "Starred", "Name", "List", "Tuple", "Slice"}
 Variant = "ideal"
 Emit = TRUE
INVARIANT ViewsAgree
INVARIANT Translation
INVARIANT EmitOK
CHECK_DEADLOCK FALSE

CONSTANTS
  Mode = "hex"
  Emit = TRUE
  Quick = TRUE
SPECIFICATION Spec
INVARIANTS FixedLaw ExpLaw ReprLaw EmitOK
CHECK_DEADLOCK FALSE

CONSTANTS
  MaxLen = 3
  Alphabet = {"SQ", "DQ", "BS", "TAB", "CR", "LF", "C0", "DEL", "PA", "L1N", "L1P", "N2", "P3", "N3", "P4", "N4"}
  IsBytes = FALSE
  Emit = TRUE
  Variants = {1, 2, 3}
SPECIFICATION Spec
INVARIANTS ReprOK LenOK FastOK RoundTripOK EmitOK
CHECK_DEADLOCK FALSE

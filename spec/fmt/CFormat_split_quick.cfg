CONSTANTS
  MaxLen = 4
  Alphabet = {"PCT", "LP", "RP", "HASH", "ZERO", "MINUS", "PLUS", "SP", "ONE", "STAR", "DOT", "LEN", "TD", "TB", "OTHER"}
  Bytes = FALSE
  Mode = "split"
  Emit = TRUE
SPECIFICATION Spec
INVARIANTS CursorOK PartsOK EmitOK
CHECK_DEADLOCK FALSE

CONSTANTS
  MaxLen = 6
  Alphabet = {"LK", "RK", "DOT", "0", "a", "PLUS", "e2", "d2", "BANG"}
  Mode = "name"
  Emit = TRUE
SPECIFICATION Spec
INVARIANTS NormalFormOK CursorOK PartsOK EmitOK
CHECK_DEADLOCK FALSE

CONSTANTS
  Mode = "raw"
  Emit = TRUE
  MaxLen = 5
  RawAlphabet = {"<", "+", "#", "0", "7", ",", "_", ".", "d", "s", "q"}
  Widths = {""}
  Precs = {""}
  Quick = FALSE
SPECIFICATION Spec
INVARIANTS WidthLaw EmitOK
CHECK_DEADLOCK FALSE

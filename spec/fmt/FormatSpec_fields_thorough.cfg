CONSTANTS
  Mode = "fields"
  Emit = TRUE
  MaxLen = 0
  RawAlphabet = {"q"}
  Widths = {"", "1", "7", "12"}
  Precs = {"", ".0", ".2"}
  Quick = FALSE
SPECIFICATION Spec
INVARIANTS WidthLaw EmitOK
CHECK_DEADLOCK FALSE

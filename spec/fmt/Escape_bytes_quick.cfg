CONSTANTS
  MaxLen = 4
  Alphabet = {"SQ", "DQ", "BS", "TAB", "CR", "LF", "C0", "DEL", "PA", "HI"}
  IsBytes = TRUE
  Emit = TRUE
  Variants = {1, 2, 3}
SPECIFICATION Spec
INVARIANTS ReprOK LenOK FastOK RoundTripOK EmitOK
CHECK_DEADLOCK FALSE

----------------------------- MODULE Escape -----------------------------
(* repr of text and bytes (literal/src/escape.rs).                            *)
(* The value is a sequence of character classes; each class has one           *)
(* representative code point (the harness adds further members):              *)
(*   SQ ' DQ " BS \ TAB CR LF  C0 other control  DEL  PA printable ASCII      *)
(*   L1N Latin-1 non-printable (U+0085)   L1P Latin-1 printable (U+00E9)      *)
(*   N2 non-printable 2-byte beyond Latin-1 (U+061C)                          *)
(*   P3 printable 3-byte (U+20AC)  N3 non-printable BMP (U+2028)              *)
(*   P4 printable astral (U+1F600) N4 non-printable astral (U+E0001)          *)
(* Machine: the layout pass (one step per character: out_len, quote           *)
(* counters), the quote choice, the fast-path decision and the writer pass.   *)
(* Declarative: Python's repr as a table per class; Decode is the escape      *)
(* decoder of Python string literals restricted to what repr can emit.        *)
EXTENDS Naturals, Sequences, FiniteSets, TLC, Json
CONSTANTS MaxLen, Alphabet, IsBytes, Emit, Variants

VARIABLES variant, val, phase, i, outLen, singles, doubles, quote, announced, changed, text
vars == <<variant, val, phase, i, outLen, singles, doubles, quote, announced, changed, text>>

\* representative code point of a class; `variant` selects further members of the class
Code(c) == CASE c = "SQ" -> 39 [] c = "DQ" -> 34 [] c = "BS" -> 92 [] c = "TAB" -> 9 [] c = "CR" -> 13 [] c = "LF" -> 10
             [] c = "PA" -> 97
             [] c = "C0" -> (CASE variant = 1 -> 1 [] variant = 2 -> 0 [] OTHER -> 31)
             [] c = "DEL" -> 127
             [] c = "L1N" -> (CASE variant = 1 -> 133 [] variant = 2 -> 160 [] OTHER -> 173)         \* NEL, NBSP, SHY
             [] c = "L1P" -> (CASE variant = 1 -> 233 [] variant = 2 -> 161 [] OTHER -> 255)
             [] c = "N2" -> (CASE variant = 1 -> 1564 [] variant = 2 -> 1536 [] OTHER -> 1807)         \* U+061C U+0600 U+070F
             [] c = "P3" -> (CASE variant = 1 -> 8364 [] variant = 2 -> 20013 [] OTHER -> 2048 + 357)   \* U+20AC U+4E2D U+0965
             [] c = "N3" -> (CASE variant = 1 -> 8232 [] variant = 2 -> 57344 [] OTHER -> 12288)        \* U+2028 U+E000 U+3000
             [] c = "P4" -> (CASE variant = 1 -> 128512 [] variant = 2 -> 66560 [] OTHER -> 131072 + 11) \* U+1F600 U+10400 U+2000B
             [] c = "N4" -> (CASE variant = 1 -> 917505 [] variant = 2 -> 983040 [] OTHER -> 1114111)    \* U+E0001 U+F0000 U+10FFFF
             [] c = "HI" -> (CASE variant = 1 -> 200 [] variant = 2 -> 128 [] OTHER -> 255)   \* bytes only: a byte >= 0x80
Utf8Len(c) == LET k == Code(c) IN IF k < 128 THEN 1 ELSE IF k < 2048 THEN 2 ELSE IF k < 65536 THEN 3 ELSE 4
SrcLen(c) == IF IsBytes THEN 1 ELSE Utf8Len(c)
Printable(c) == c \in {"PA", "L1P", "P3", "P4", "SQ", "DQ", "BS"}

HexDigit(d) == SubSeq("0123456789abcdef", d + 1, d + 1)
RECURSIVE Hex(_, _)
Hex(n, digits) == IF digits = 0 THEN <<>> ELSE Hex(n \div 16, digits - 1) \o <<HexDigit(n % 16)>>

\* ---------- Python's repr, per character, as a sequence of output characters ----------
\* output characters are one-character strings for ASCII and the class name for a printable non-ASCII character
EscText(c, q) ==
   CASE c = "BS" -> <<"\\", "\\">>
     [] c = "TAB" -> <<"\\", "t">> [] c = "CR" -> <<"\\", "r">> [] c = "LF" -> <<"\\", "n">>
     [] c = "SQ" -> IF q = "SQ" THEN <<"\\", "'">> ELSE <<"'">>
     [] c = "DQ" -> IF q = "DQ" THEN <<"\\", "\"">> ELSE <<"\"">>
     [] c = "PA" -> <<"a">>
     [] c \in {"C0", "DEL", "L1N", "HI"} -> <<"\\", "x">> \o Hex(Code(c), 2)
     [] c \in {"L1P", "P3", "P4"} -> <<c>>
     [] c \in {"N2", "N3"} -> <<"\\", "u">> \o Hex(Code(c), 4)
     [] c = "N4" -> <<"\\", "U">> \o Hex(Code(c), 8)
\* number of bytes an output character occupies
OutBytes(o) == IF o \in {"L1P", "P3", "P4"} THEN Utf8Len(o) ELSE 1
RECURSIVE SumBytes(_)
SumBytes(t) == IF t = <<>> THEN 0 ELSE OutBytes(t[1]) + SumBytes(Tail(t))
Has(v, c) == \E k \in 1..Len(v) : v[k] = c
PyQuote(v) == IF Has(v, "SQ") /\ ~Has(v, "DQ") THEN "DQ" ELSE "SQ"
QuoteCh(q) == IF q = "SQ" THEN "'" ELSE "\""
RECURSIVE Body(_, _)
Body(v, q) == IF v = <<>> THEN <<>> ELSE EscText(v[1], q) \o Body(Tail(v), q)
PyRepr(v) == (IF IsBytes THEN <<"b">> ELSE <<>>) \o <<QuoteCh(PyQuote(v))>> \o Body(v, PyQuote(v)) \o <<QuoteCh(PyQuote(v))>>

\* ---------- decoder of a literal as repr emits it (subset of the escape rules of string literals) ----------
HexVal(h) == CHOOSE d \in 0..15 : HexDigit(d) = h
RECURSIVE HexNum(_, _)
HexNum(t, acc) == IF t = <<>> THEN acc ELSE HexNum(Tail(t), acc * 16 + HexVal(t[1]))
RECURSIVE DecodeBody(_, _)
\* decodes output characters up to (not including) the closing quote q; yields code points
DecodeBody(t, q) ==
   IF t = <<>> THEN <<>>
   ELSE IF t[1] = "\\" THEN
        LET e == t[2] IN
        CASE e = "\\" -> <<92>> \o DecodeBody(SubSeq(t, 3, Len(t)), q)
          [] e = "'" -> <<39>> \o DecodeBody(SubSeq(t, 3, Len(t)), q)
          [] e = "\"" -> <<34>> \o DecodeBody(SubSeq(t, 3, Len(t)), q)
          [] e = "t" -> <<9>> \o DecodeBody(SubSeq(t, 3, Len(t)), q)
          [] e = "r" -> <<13>> \o DecodeBody(SubSeq(t, 3, Len(t)), q)
          [] e = "n" -> <<10>> \o DecodeBody(SubSeq(t, 3, Len(t)), q)
          [] e = "x" -> <<HexNum(SubSeq(t, 3, 4), 0)>> \o DecodeBody(SubSeq(t, 5, Len(t)), q)
          [] e = "u" -> <<HexNum(SubSeq(t, 3, 6), 0)>> \o DecodeBody(SubSeq(t, 7, Len(t)), q)
          [] e = "U" -> <<HexNum(SubSeq(t, 3, 10), 0)>> \o DecodeBody(SubSeq(t, 11, Len(t)), q)
   ELSE (IF t[1] = "a" THEN <<97>> ELSE IF t[1] = "'" THEN <<39>> ELSE IF t[1] = "\"" THEN <<34>> ELSE <<Code(t[1])>>)
        \o DecodeBody(Tail(t), q)
Codes(v) == [k \in 1..Len(v) |-> Code(v[k])]

\* ---------- the machine (mirror of repr_layout / choose_quote / write_body) ----------
EscLen(c) == \* escaped_char_len (quotes are counted 1 here and corrected after the quote choice)
   IF IsBytes THEN (IF c \in {"BS", "TAB", "CR", "LF"} THEN 2 ELSE IF c \in {"PA", "SQ", "DQ"} THEN 1 ELSE 4)
   ELSE CASE c \in {"BS", "TAB", "CR", "LF"} -> 2
          [] c \in {"C0", "DEL"} -> 4
          [] c \in {"PA", "SQ", "DQ"} -> 1
          [] Printable(c) -> Utf8Len(c)
          [] Code(c) < 256 -> 4
          [] Code(c) < 65536 -> 6
          [] OTHER -> 10

Values == UNION {[1..n -> Alphabet] : n \in 0..MaxLen}
Init == /\ variant \in Variants /\ val \in Values /\ phase = "layout" /\ i = 1 /\ outLen = 0 /\ singles = 0 /\ doubles = 0
        /\ quote = "" /\ announced = 0 /\ changed = FALSE /\ text = <<>>

LayoutStep == /\ phase = "layout" /\ i <= Len(val)
              /\ LET c == val[i] IN
                 /\ outLen' = outLen + EscLen(c)
                 /\ singles' = singles + (IF c = "SQ" THEN 1 ELSE 0)
                 /\ doubles' = doubles + (IF c = "DQ" THEN 1 ELSE 0)
              /\ i' = i + 1 /\ UNCHANGED <<variant, val, phase, quote, announced, changed, text>>
RECURSIVE SrcBytes(_)
SrcBytes(v) == IF v = <<>> THEN 0 ELSE SrcLen(v[1]) + SrcBytes(Tail(v))
ChooseQuote == /\ phase = "layout" /\ i > Len(val)
               /\ LET useDouble == singles > 0 /\ doubles = 0
                      q == IF useDouble THEN "DQ" ELSE "SQ"
                      escaped == IF useDouble THEN doubles ELSE singles
                  IN /\ quote' = q /\ announced' = outLen + escaped
                     /\ changed' = (outLen + escaped # SrcBytes(val))
               /\ phase' = "write" /\ i' = 1 /\ text' = <<>> /\ UNCHANGED <<variant, val, outLen, singles, doubles>>
\* fast path: the source is copied unchanged
WriteFast == /\ phase = "write" /\ ~changed
             /\ text' = [k \in 1..Len(val) |-> IF val[k] = "PA" THEN "a" ELSE IF val[k] = "SQ" THEN "'" ELSE IF val[k] = "DQ" THEN "\"" ELSE val[k]]
             /\ phase' = "done" /\ UNCHANGED <<variant, val, i, outLen, singles, doubles, quote, announced, changed>>
WriteStep == /\ phase = "write" /\ changed /\ i <= Len(val)
             /\ text' = text \o EscText(val[i], quote)
             /\ i' = i + 1 /\ UNCHANGED <<variant, val, phase, outLen, singles, doubles, quote, announced, changed>>
WriteEnd == /\ phase = "write" /\ changed /\ i > Len(val) /\ phase' = "done"
            /\ UNCHANGED <<variant, val, i, outLen, singles, doubles, quote, announced, changed, text>>
Next == LayoutStep \/ ChooseQuote \/ WriteFast \/ WriteStep \/ WriteEnd
Spec == Init /\ [][Next]_vars

\* ---------- M ----------
Done == phase = "done"
\* the machine's output is Python's repr
ReprOK == Done => /\ quote = PyQuote(val)
                  /\ text = Body(val, PyQuote(val))
\* the announced length is the real (byte) length of the body
LenOK == Done => announced = SumBytes(text)
\* the fast path is taken exactly when nothing needs escaping
FastOK == Done => (~changed <=> \A k \in 1..Len(val) : (val[k] \in {"PA", "L1P", "P3", "P4"} \/ (val[k] \in {"SQ", "DQ"} /\ val[k] # quote)))
\* the repr decodes back to the value
RoundTripOK == Done => DecodeBody(Body(val, PyQuote(val)), PyQuote(val)) = Codes(val)

EmitOK == (Emit /\ Done) =>
   PrintT("REPLAY" \o ToJson([fam |-> "repr", bytes |-> IsBytes, val |-> val, codes |-> Codes(val),
                             chars |-> [c \in {"L1P", "P3", "P4"} |-> Code(c)], quote |-> PyQuote(val),
                             body |-> Body(val, PyQuote(val)), len |-> SumBytes(Body(val, PyQuote(val))), changed |-> changed]))
=======================================================================

---------------------- MODULE FormatStringTrace ----------------------
(* Trace validation for FormatString::from_str / FieldName::parse: each event  *)
(* is one call of the real code on a (longer, random) input together with its  *)
(* result, abstracted to character classes.  TLC evaluates the specification   *)
(* on the logged input and compares; deviations are collected in `bad`.        *)
EXTENDS FormatString, IOUtils
Log == ndJsonDeserialize(IOEnv.TRACE)
VARIABLES l, bad
tvars == <<vars, l, bad>>

TInit == l = 1 /\ bad = <<>> /\ inp = <<>> /\ pos = 1 /\ parts = <<>> /\ err = "" /\ done = FALSE

\* field-name splitter as a function (same steps as NameFirst/NameNext)
RECURSIVE NameRest(_, _, _)
NameRest(s, i, ps) ==
   IF i > Len(s) THEN [ok |-> TRUE, parts |-> ps]
   ELSE IF s[i] = "DOT"
   THEN LET e == HeadEnd(s, i + 1) nm == SubSeq(s, i + 1, e - 1) IN
        IF nm = <<>> THEN [ok |-> FALSE, why |-> "Empty attribute in format string"] ELSE NameRest(s, e, Append(ps, [k |-> "attr", t |-> nm]))
   ELSE IF s[i] = "LK"
   THEN LET S == {j \in (i + 1)..Len(s) : s[j] = "RK"} IN
        IF S = {} THEN [ok |-> FALSE, why |-> "Missing ']' in format string"]
        ELSE LET e == CHOOSE j \in S : \A m \in S : j <= m
                 nm == SubSeq(s, i + 1, e - 1) IN
             IF nm = <<>> THEN [ok |-> FALSE, why |-> "Empty attribute in format string"]
             ELSE NameRest(s, e + 1, Append(ps, [k |-> IF AllDigits(nm) THEN "item_index" ELSE "item_key", t |-> nm]))
   ELSE [ok |-> FALSE, why |-> "Only '.' or '[' may follow ']' in format field specifier"]
NameAll(s) == LET e == HeadEnd(s, 1) first == SubSeq(s, 1, e - 1) IN
              NameRest(s, e, << [k |-> IF first = <<>> THEN "auto" ELSE IF AllDigits(first) THEN "index" ELSE "keyword", t |-> first] >>)

MaxDepth(ps) == LET F == {i \in 1..Len(ps) : ps[i].k = "field"} IN
                IF F = {} THEN 0 ELSE LET D == {Depth(ps[i].spec, 1, 0, 0) : i \in F} IN CHOOSE d \in D : \A e \in D : d >= e

TCall ==
   /\ l <= Len(Log) /\ l' = l + 1
   /\ LET ev == Log[l]
          r == IF ev.op = "field_name" THEN NameAll(ev.inp) ELSE ParseAll(ev.inp, 1, <<>>)
      IN IF r.ok /\ ev.op # "field_name" /\ MaxDepth(r.parts) >= 2 THEN UNCHANGED bad   \* outside the stated scope
         ELSE IF r.ok # ev.ok THEN bad' = Append(bad, [at |-> l, pinned |-> (ev.op # "field_name" /\ LET q == Pinned(ev.inp) IN q.ok = ev.ok /\ (q.ok => q.parts = ev.parts)),
                                                       why |-> IF r.ok THEN "rejects_valid" ELSE "accepts_invalid",
                                                       tags |-> TagsOfIn(r.ok, IF r.ok THEN "" ELSE r.why, IF r.ok THEN r.parts ELSE <<>>, ev.inp)])
         ELSE IF r.ok /\ r.parts # ev.parts THEN bad' = Append(bad, [at |-> l, pinned |-> (ev.op # "field_name" /\ LET q == Pinned(ev.inp) IN q.ok /\ q.parts = ev.parts), why |-> "parts", tags |-> TagsOf(TRUE, "", r.parts)])
         ELSE UNCHANGED bad
   /\ UNCHANGED vars

TSpec == TInit /\ [][TCall]_tvars
Report == (l = Len(Log) + 1) => PrintT("BAD" \o ToJson(bad))
TraceAccepted ==
   LET d == TLCGet("stats").diameter IN
   IF d = Len(Log) + 1 THEN TRUE ELSE PrintT("UNMATCHED at " \o ToString(d)) /\ FALSE
=======================================================================

------------------------- MODULE FormatString -------------------------
(* str.format templates.                                                      *)
(*  - Markup: CPython's MarkupIterator (Objects/stringlib/unicode_format.h)   *)
(*    as a machine: one action per iterator step (literal run, optional       *)
(*    field); this is the reference the property names.                       *)
(*  - FieldSplit: field_name_split + FieldNameIterator.                       *)
(* A template is a sequence of character classes:                             *)
(*   LB { RB } LK [ RK ] BANG ! COLON : DOT .  "0" ASCII digit  "a" letter    *)
(*   PLUS +   "e2" multi-byte letter   "d2" non-ASCII decimal digit           *)
(* M: Render/Parse normal-form laws; G: every template up to MaxLen.          *)
EXTENDS Naturals, Sequences, FiniteSets, TLC, Json
CONSTANTS MaxLen, Alphabet, Mode, Emit    \* Mode: "template" | "field" (template = LB s RB) | "name"

VARIABLES inp, pos, parts, err, done
vars == <<inp, pos, parts, err, done>>

Strings == UNION {[1..n -> Alphabet] : n \in 0..MaxLen}
Init == /\ inp \in (IF Mode = "field" THEN {<<"LB">> \o s \o <<"RB">> : s \in Strings} ELSE Strings)
        /\ pos = 1 /\ parts = <<>> /\ err = "" /\ done = FALSE

At(s, i) == IF i >= 1 /\ i <= Len(s) THEN s[i] ELSE "EOF"
IsBrace(c) == c \in {"LB", "RB"}

\* ---------- MarkupIterator_next ------------------------------------------------
\* first position >= i holding a brace, or Len+1
RECURSIVE BraceFrom(_, _)
BraceFrom(s, i) == IF i > Len(s) THEN Len(s) + 1 ELSE IF IsBrace(s[i]) THEN i ELSE BraceFrom(s, i + 1)

\* parse_field starting at position i (just after the opening brace):
\* returns [ok, name, conv, spec, next] or [ok |-> FALSE, why]
RECURSIVE NameEnd(_, _)
\* scan the field name: returns <<position of terminator, terminator class>>; "LB" is an error, "[" skips to "]"
NameEnd(s, i) ==
   IF i > Len(s) THEN <<i, "EOF">>
   ELSE LET c == s[i] IN
        IF c = "LB" THEN <<i, "LBERR">>
        ELSE IF c = "LK" THEN LET RECURSIVE ToRK(_)
                                  ToRK(j) == IF j > Len(s) THEN j ELSE IF s[j] = "RK" THEN j ELSE ToRK(j + 1)
                              IN NameEnd(s, ToRK(i + 1))    \* the ']' itself is then read as an ordinary character
        ELSE IF c \in {"RB", "COLON", "BANG"} THEN <<i, c>>
        ELSE NameEnd(s, i + 1)
RECURSIVE SpecEnd(_, _, _)
\* brace counting in the format spec: position of the closing brace, or 0 if unmatched
SpecEnd(s, i, count) ==
   IF i > Len(s) THEN 0
   ELSE IF s[i] = "LB" THEN SpecEnd(s, i + 1, count + 1)
   ELSE IF s[i] = "RB" THEN (IF count = 1 THEN i ELSE SpecEnd(s, i + 1, count - 1))
   ELSE SpecEnd(s, i + 1, count)
\* maximal brace nesting depth inside a spec text
RECURSIVE Depth(_, _, _, _)
Depth(s, i, cur, mx) == IF i > Len(s) THEN mx
                        ELSE IF s[i] = "LB" THEN Depth(s, i + 1, cur + 1, IF cur + 1 > mx THEN cur + 1 ELSE mx)
                        ELSE IF s[i] = "RB" THEN Depth(s, i + 1, IF cur > 0 THEN cur - 1 ELSE 0, mx)
                        ELSE Depth(s, i + 1, cur, mx)

Fail(why) == [ok |-> FALSE, why |-> why]
Field(name, conv, spec, next) == [ok |-> TRUE, name |-> name, conv |-> conv, spec |-> spec, next |-> next]
ParseSpecFrom(s, name, conv, i) ==
   LET e == SpecEnd(s, i, 1) IN
   IF e = 0 THEN Fail("unmatched '{' in format spec") ELSE Field(name, conv, SubSeq(s, i, e - 1), e + 1)
ParseField(s, i) ==
   LET ne == NameEnd(s, i)
       p == ne[1] c == ne[2]
       name == SubSeq(s, i, p - 1)
   IN IF c = "LBERR" THEN Fail("unexpected '{' in field name")
      ELSE IF c = "RB" THEN Field(name, "", <<>>, p + 1)
      ELSE IF c = "EOF" THEN Fail("expected '}' before end of string")
      ELSE IF c = "COLON" THEN ParseSpecFrom(s, name, "", p + 1)
      ELSE \* "!" : there must be another character
           IF p + 1 > Len(s) THEN Fail("end of string while looking for conversion specifier")
           ELSE LET conv == s[p + 1] IN
                IF p + 2 > Len(s) THEN ParseSpecFrom(s, name, conv, p + 2)   \* falls into the spec scan at end: unmatched
                ELSE IF s[p + 2] = "RB" THEN Field(name, conv, <<>>, p + 3)
                ELSE IF s[p + 2] # "COLON" THEN Fail("expected ':' after conversion specifier")
                ELSE ParseSpecFrom(s, name, conv, p + 3)

\* one step of the iterator from position i: [ok, lit, field (or none), next]
Step(s, i) ==
   LET b == BraceFrom(s, i) IN
   IF b > Len(s) THEN [ok |-> TRUE, lit |-> SubSeq(s, i, Len(s)), hasField |-> FALSE, next |-> Len(s) + 1]
   ELSE LET c == s[b]
            atEnd == b + 1 > Len(s)
        IN IF c = "RB" /\ (atEnd \/ s[b + 1] # "RB") THEN Fail("Single '}' encountered in format string")
           ELSE IF atEnd /\ c = "LB" THEN Fail("Single '{' encountered in format string")
           ELSE IF s[b + 1] = c
                THEN \* doubled brace: the literal includes one of them, no markup follows
                     [ok |-> TRUE, lit |-> SubSeq(s, i, b), hasField |-> FALSE, next |-> b + 2]
                ELSE LET f == ParseField(s, b + 1) IN
                     IF ~f.ok THEN f
                     ELSE [ok |-> TRUE, lit |-> SubSeq(s, i, b - 1), hasField |-> TRUE, field |-> f, next |-> f.next]

Lit(t) == [k |-> "lit", t |-> t]
Fld(f) == [k |-> "field", name |-> f.name, conv |-> f.conv, spec |-> f.spec]
\* normal form used for comparison: empty literals dropped, adjacent literals concatenated
AddLit(ps, t) == IF t = <<>> THEN ps
                 ELSE IF Len(ps) > 0 /\ ps[Len(ps)].k = "lit" THEN [ps EXCEPT ![Len(ps)] = Lit(@.t \o t)]
                 ELSE Append(ps, Lit(t))

MarkupNext ==
   /\ Mode \in {"template", "field"} /\ ~done
   /\ IF pos > Len(inp) THEN done' = TRUE /\ UNCHANGED <<pos, parts, err>>
      ELSE LET r == Step(inp, pos) IN
           IF ~r.ok THEN err' = r.why /\ done' = TRUE /\ UNCHANGED <<pos, parts>>
           ELSE /\ parts' = (IF r.hasField THEN Append(AddLit(parts, r.lit), Fld(r.field)) ELSE AddLit(parts, r.lit))
                /\ pos' = r.next /\ UNCHANGED <<err, done>>
   /\ UNCHANGED inp

\* ---------- field_name_split + FieldNameIterator --------------------------------
IsDigit(c) == c \in {"0", "d2"}          \* Py_UNICODE_TODECIMAL accepts any Unicode decimal digit
AllDigits(t) == t # <<>> /\ \A i \in 1..Len(t) : IsDigit(t[i])
RECURSIVE HeadEnd(_, _)
HeadEnd(s, i) == IF i > Len(s) THEN i ELSE IF s[i] \in {"LK", "DOT"} THEN i ELSE HeadEnd(s, i + 1)

NameFirst ==
   /\ Mode = "name" /\ ~done /\ pos = 1 /\ parts = <<>>
   /\ LET e == HeadEnd(inp, 1)
          first == SubSeq(inp, 1, e - 1) IN
      /\ parts' = << [k |-> IF first = <<>> THEN "auto" ELSE IF AllDigits(first) THEN "index" ELSE "keyword", t |-> first] >>
      /\ pos' = e
      /\ done' = (e > Len(inp))
   /\ UNCHANGED <<inp, err>>

NameNext ==
   /\ Mode = "name" /\ ~done /\ parts # <<>>
   /\ LET c == inp[pos] IN
      IF c = "DOT"
      THEN LET e == HeadEnd(inp, pos + 1)
               nm == SubSeq(inp, pos + 1, e - 1) IN
           IF nm = <<>> THEN err' = "Empty attribute in format string" /\ done' = TRUE /\ UNCHANGED <<pos, parts>>
           ELSE parts' = Append(parts, [k |-> "attr", t |-> nm]) /\ pos' = e /\ done' = (e > Len(inp)) /\ UNCHANGED err
      ELSE IF c = "LK"
      THEN LET S == {j \in (pos + 1)..Len(inp) : inp[j] = "RK"} IN
           IF S = {} THEN err' = "Missing ']' in format string" /\ done' = TRUE /\ UNCHANGED <<pos, parts>>
           ELSE LET e == CHOOSE j \in S : \A m \in S : j <= m
                    nm == SubSeq(inp, pos + 1, e - 1) IN
                IF nm = <<>> THEN err' = "Empty attribute in format string" /\ done' = TRUE /\ UNCHANGED <<pos, parts>>
                ELSE /\ parts' = Append(parts, [k |-> IF AllDigits(nm) THEN "item_index" ELSE "item_key", t |-> nm])
                     /\ pos' = e + 1 /\ done' = (e + 1 > Len(inp)) /\ UNCHANGED err
      ELSE err' = "Only '.' or '[' may follow ']' in format field specifier" /\ done' = TRUE /\ UNCHANGED <<pos, parts>>
   /\ UNCHANGED inp

Next == MarkupNext \/ NameFirst \/ NameNext
Spec == Init /\ [][Next]_vars

-----------------------------------------------------------------------
\* M: normal-form laws of the template parser.
RECURSIVE ParseAll(_, _, _)
ParseAll(s, i, ps) == IF i > Len(s) THEN [ok |-> TRUE, parts |-> ps]
                      ELSE LET r == Step(s, i) IN
                           IF ~r.ok THEN [ok |-> FALSE, why |-> r.why]
                           ELSE ParseAll(s, r.next, IF r.hasField THEN Append(AddLit(ps, r.lit), Fld(r.field)) ELSE AddLit(ps, r.lit))
RECURSIVE Dbl(_)
Dbl(t) == IF t = <<>> THEN <<>> ELSE (IF IsBrace(t[1]) THEN <<t[1], t[1]>> ELSE <<t[1]>>) \o Dbl(Tail(t))
RenderPart(p) == IF p.k = "lit" THEN Dbl(p.t)
                 ELSE <<"LB">> \o p.name \o (IF p.conv = "" THEN <<>> ELSE <<"BANG", p.conv>>)
                      \o (IF p.spec = <<>> THEN <<>> ELSE <<"COLON">> \o p.spec) \o <<"RB">>
RECURSIVE Render(_)
Render(ps) == IF ps = <<>> THEN <<>> ELSE RenderPart(ps[1]) \o Render(Tail(ps))
\* re-parsing the rendering of an accepted template gives the same parts (the parts determine the template's meaning)
NormalFormOK == (done /\ err = "" /\ Mode # "name") =>
                   LET r == ParseAll(Render(parts), 1, <<>>) IN r.ok /\ r.parts = parts
\* progress: the cursor only moves forward and stays inside the input
CursorOK == pos >= 1 /\ pos <= Len(inp) + 1
\* a field name contains none of { } : ! outside a [...] section (inside brackets anything but ] may occur)
RECURSIVE Outside(_, _, _)
Outside(t, i, inb) == IF i > Len(t) THEN <<>>
                      ELSE IF inb THEN Outside(t, i + 1, t[i] # "RK")
                      ELSE IF t[i] = "LK" THEN Outside(t, i + 1, TRUE)
                      ELSE <<t[i]>> \o Outside(t, i + 1, FALSE)
PartsOK == \A i \in 1..Len(parts) :
              parts[i].k = "field" =>
                 LET o == Outside(parts[i].name, 1, FALSE) IN \A j \in 1..Len(o) : o[j] \notin {"LB", "RB", "COLON", "BANG"}

\* labels of the specification branches a behaviour went through (used to key known findings narrowly)
Has(t, c) == \E i \in 1..Len(t) : t[i] = c
PlusDigits(t) == Len(t) > 1 /\ t[1] = "PLUS" /\ \A i \in 2..Len(t) : t[i] = "0"
PartTags(p) ==
   IF p.k = "field"
   THEN (IF Has(p.name, "LK") THEN {"name.bracket"} ELSE {})
        \cup (IF Has(p.name, "LB") \/ Has(p.name, "RB") THEN {"name.brace_in_brackets"} ELSE {})
        \cup (IF p.conv \in {"LB", "RB", "COLON", "BANG", "LK", "RK"} THEN {"conv.special"} ELSE {})
        \cup (IF Has(p.spec, "LK") THEN {"spec.bracket"} ELSE {})
        \cup (IF Has(p.spec, "LB") THEN {"spec.nested"} ELSE {})
   ELSE IF p.k \in {"index", "item_index"} /\ Has(p.t, "d2") THEN {"digit.nonascii"}
   ELSE IF p.k \in {"keyword", "item_key"} /\ PlusDigits(p.t) THEN {"plus_digits"}
   ELSE {}
TagsOf(ok, why, ps) == IF ~ok THEN {"err:" \o why} ELSE UNION {PartTags(ps[i]) : i \in 1..Len(ps)}

SpecDepth == LET F == {i \in 1..Len(parts) : parts[i].k = "field"} IN
             IF F = {} THEN 0 ELSE LET D == {Depth(parts[i].spec, 1, 0, 0) : i \in F} IN CHOOSE d \in D : \A e \in D : d >= e
EmitOK == (Emit /\ done) =>
   PrintT("REPLAY" \o ToJson([fam |-> IF Mode = "name" THEN "field_name" ELSE "fmt_template",
                             inp |-> inp, ok |-> (err = ""), err |-> err, parts |-> parts, tags |-> TagsOf(err = "", err, parts),
                             depth |-> IF Mode = "name" THEN 0 ELSE SpecDepth]))
=======================================================================

------------------------- MODULE FormatString -------------------------
(* str.format templates.                                                      *)
(*  - Markup: CPython's MarkupIterator (Objects/stringlib/unicode_format.h)   *)
(*    as a machine: one action per iterator step (literal run, optional       *)
(*    field); this is the reference the property names.                       *)
(*  - FieldSplit: field_name_split + FieldNameIterator.                       *)
(* A template is a sequence of character classes:                             *)
(*   LB { RB } LK [ RK ] BANG ! COLON : DOT .  "0" ASCII digit  "a" letter    *)
(*   PLUS +   "e2" multi-byte letter   "d2" non-ASCII decimal digit           *)
(* M: Render/Parse normal-form laws; G: every template up to MaxLen.          *)
EXTENDS Naturals, Sequences, FiniteSets, TLC, Json
CONSTANTS MaxLen, Alphabet, Mode, Emit    \* Mode: "template" | "field" (template = LB s RB) | "name"

VARIABLES inp, pos, parts, err, done
vars == <<inp, pos, parts, err, done>>

Strings == UNION {[1..n -> Alphabet] : n \in 0..MaxLen}
Init == /\ inp \in (IF Mode = "field" THEN {<<"LB">> \o s \o <<"RB">> : s \in Strings} ELSE Strings)
        /\ pos = 1 /\ parts = <<>> /\ err = "" /\ done = FALSE

At(s, i) == IF i >= 1 /\ i <= Len(s) THEN s[i] ELSE "EOF"
IsBrace(c) == c \in {"LB", "RB"}

\* ---------- MarkupIterator_next ------------------------------------------------
\* first position >= i holding a brace, or Len+1
RECURSIVE BraceFrom(_, _)
BraceFrom(s, i) == IF i > Len(s) THEN Len(s) + 1 ELSE IF IsBrace(s[i]) THEN i ELSE BraceFrom(s, i + 1)

\* parse_field starting at position i (just after the opening brace):
\* returns [ok, name, conv, spec, next] or [ok |-> FALSE, why]
RECURSIVE NameEnd(_, _)
\* scan the field name: returns <<position of terminator, terminator class>>; "LB" is an error, "[" skips to "]"
NameEnd(s, i) ==
   IF i > Len(s) THEN <<i, "EOF">>
   ELSE LET c == s[i] IN
        IF c = "LB" THEN <<i, "LBERR">>
        ELSE IF c = "LK" THEN LET RECURSIVE ToRK(_)
                                  ToRK(j) == IF j > Len(s) THEN j ELSE IF s[j] = "RK" THEN j ELSE ToRK(j + 1)
                              IN NameEnd(s, ToRK(i + 1))    \* the ']' itself is then read as an ordinary character
        ELSE IF c \in {"RB", "COLON", "BANG"} THEN <<i, c>>
        ELSE NameEnd(s, i + 1)
RECURSIVE SpecEnd(_, _, _)
\* brace counting in the format spec: position of the closing brace, or 0 if unmatched
SpecEnd(s, i, count) ==
   IF i > Len(s) THEN 0
   ELSE IF s[i] = "LB" THEN SpecEnd(s, i + 1, count + 1)
   ELSE IF s[i] = "RB" THEN (IF count = 1 THEN i ELSE SpecEnd(s, i + 1, count - 1))
   ELSE SpecEnd(s, i + 1, count)
\* maximal brace nesting depth inside a spec text
RECURSIVE Depth(_, _, _, _)
Depth(s, i, cur, mx) == IF i > Len(s) THEN mx
                        ELSE IF s[i] = "LB" THEN Depth(s, i + 1, cur + 1, IF cur + 1 > mx THEN cur + 1 ELSE mx)
                        ELSE IF s[i] = "RB" THEN Depth(s, i + 1, IF cur > 0 THEN cur - 1 ELSE 0, mx)
                        ELSE Depth(s, i + 1, cur, mx)

Fail(why) == [ok |-> FALSE, why |-> why]
Field(name, conv, spec, next) == [ok |-> TRUE, name |-> name, conv |-> conv, spec |-> spec, next |-> next]
ParseSpecFrom(s, name, conv, i) ==
   LET e == SpecEnd(s, i, 1) IN
   IF e = 0 THEN Fail("unmatched '{' in format spec") ELSE Field(name, conv, SubSeq(s, i, e - 1), e + 1)
ParseField(s, i) ==
   LET ne == NameEnd(s, i)
       p == ne[1] c == ne[2]
       name == SubSeq(s, i, p - 1)
   IN IF c = "LBERR" THEN Fail("unexpected '{' in field name")
      ELSE IF c = "RB" THEN Field(name, "", <<>>, p + 1)
      ELSE IF c = "EOF" THEN Fail("expected '}' before end of string")
      ELSE IF c = "COLON" THEN ParseSpecFrom(s, name, "", p + 1)
      ELSE \* "!" : there must be another character
           IF p + 1 > Len(s) THEN Fail("end of string while looking for conversion specifier")
           ELSE LET conv == s[p + 1] IN
                IF p + 2 > Len(s) THEN ParseSpecFrom(s, name, conv, p + 2)   \* falls into the spec scan at end: unmatched
                ELSE IF s[p + 2] = "RB" THEN Field(name, conv, <<>>, p + 3)
                ELSE IF s[p + 2] # "COLON" THEN Fail("expected ':' after conversion specifier")
                ELSE ParseSpecFrom(s, name, conv, p + 3)

\* one step of the iterator from position i: [ok, lit, field (or none), next]
Step(s, i) ==
   LET b == BraceFrom(s, i) IN
   IF b > Len(s) THEN [ok |-> TRUE, lit |-> SubSeq(s, i, Len(s)), hasField |-> FALSE, next |-> Len(s) + 1]
   ELSE LET c == s[b]
            atEnd == b + 1 > Len(s)
        IN IF c = "RB" /\ (atEnd \/ s[b + 1] # "RB") THEN Fail("Single '}' encountered in format string")
           ELSE IF atEnd /\ c = "LB" THEN Fail("Single '{' encountered in format string")
           ELSE IF s[b + 1] = c
                THEN \* doubled brace: the literal includes one of them, no markup follows
                     [ok |-> TRUE, lit |-> SubSeq(s, i, b), hasField |-> FALSE, next |-> b + 2]
                ELSE LET f == ParseField(s, b + 1) IN
                     IF ~f.ok THEN f
                     ELSE [ok |-> TRUE, lit |-> SubSeq(s, i, b - 1), hasField |-> TRUE, field |-> f, next |-> f.next]

Lit(t) == [k |-> "lit", t |-> t]
Fld(f) == [k |-> "field", name |-> f.name, conv |-> f.conv, spec |-> f.spec]
\* normal form used for comparison: empty literals dropped, adjacent literals concatenated
AddLit(ps, t) == IF t = <<>> THEN ps
                 ELSE IF Len(ps) > 0 /\ ps[Len(ps)].k = "lit" THEN [ps EXCEPT ![Len(ps)] = Lit(@.t \o t)]
                 ELSE Append(ps, Lit(t))

MarkupNext ==
   /\ Mode \in {"template", "field"} /\ ~done
   /\ IF pos > Len(inp) THEN done' = TRUE /\ UNCHANGED <<pos, parts, err>>
      ELSE LET r == Step(inp, pos) IN
           IF ~r.ok THEN err' = r.why /\ done' = TRUE /\ UNCHANGED <<pos, parts>>
           ELSE /\ parts' = (IF r.hasField THEN Append(AddLit(parts, r.lit), Fld(r.field)) ELSE AddLit(parts, r.lit))
                /\ pos' = r.next /\ UNCHANGED <<err, done>>
   /\ UNCHANGED inp

\* ---------- field_name_split + FieldNameIterator --------------------------------
IsDigit(c) == c \in {"0", "d2"}          \* Py_UNICODE_TODECIMAL accepts any Unicode decimal digit
AllDigits(t) == t # <<>> /\ \A i \in 1..Len(t) : IsDigit(t[i])
RECURSIVE HeadEnd(_, _)
HeadEnd(s, i) == IF i > Len(s) THEN i ELSE IF s[i] \in {"LK", "DOT"} THEN i ELSE HeadEnd(s, i + 1)

NameFirst ==
   /\ Mode = "name" /\ ~done /\ pos = 1 /\ parts = <<>>
   /\ LET e == HeadEnd(inp, 1)
          first == SubSeq(inp, 1, e - 1) IN
      /\ parts' = << [k |-> IF first = <<>> THEN "auto" ELSE IF AllDigits(first) THEN "index" ELSE "keyword", t |-> first] >>
      /\ pos' = e
      /\ done' = (e > Len(inp))
   /\ UNCHANGED <<inp, err>>

NameNext ==
   /\ Mode = "name" /\ ~done /\ parts # <<>>
   /\ LET c == inp[pos] IN
      IF c = "DOT"
      THEN LET e == HeadEnd(inp, pos + 1)
               nm == SubSeq(inp, pos + 1, e - 1) IN
           IF nm = <<>> THEN err' = "Empty attribute in format string" /\ done' = TRUE /\ UNCHANGED <<pos, parts>>
           ELSE parts' = Append(parts, [k |-> "attr", t |-> nm]) /\ pos' = e /\ done' = (e > Len(inp)) /\ UNCHANGED err
      ELSE IF c = "LK"
      THEN LET S == {j \in (pos + 1)..Len(inp) : inp[j] = "RK"} IN
           IF S = {} THEN err' = "Missing ']' in format string" /\ done' = TRUE /\ UNCHANGED <<pos, parts>>
           ELSE LET e == CHOOSE j \in S : \A m \in S : j <= m
                    nm == SubSeq(inp, pos + 1, e - 1) IN
                IF nm = <<>> THEN err' = "Empty attribute in format string" /\ done' = TRUE /\ UNCHANGED <<pos, parts>>
                ELSE /\ parts' = Append(parts, [k |-> IF AllDigits(nm) THEN "item_index" ELSE "item_key", t |-> nm])
                     /\ pos' = e + 1 /\ done' = (e + 1 > Len(inp)) /\ UNCHANGED err
      ELSE err' = "Only '.' or '[' may follow ']' in format field specifier" /\ done' = TRUE /\ UNCHANGED <<pos, parts>>
   /\ UNCHANGED inp

Next == MarkupNext \/ NameFirst \/ NameNext
Spec == Init /\ [][Next]_vars

-----------------------------------------------------------------------
\* M: normal-form laws of the template parser.
RECURSIVE ParseAll(_, _, _)
ParseAll(s, i, ps) == IF i > Len(s) THEN [ok |-> TRUE, parts |-> ps]
                      ELSE LET r == Step(s, i) IN
                           IF ~r.ok THEN [ok |-> FALSE, why |-> r.why]
                           ELSE ParseAll(s, r.next, IF r.hasField THEN Append(AddLit(ps, r.lit), Fld(r.field)) ELSE AddLit(ps, r.lit))
RECURSIVE Dbl(_)
Dbl(t) == IF t = <<>> THEN <<>> ELSE (IF IsBrace(t[1]) THEN <<t[1], t[1]>> ELSE <<t[1]>>) \o Dbl(Tail(t))
RenderPart(p) == IF p.k = "lit" THEN Dbl(p.t)
                 ELSE <<"LB">> \o p.name \o (IF p.conv = "" THEN <<>> ELSE <<"BANG", p.conv>>)
                      \o (IF p.spec = <<>> THEN <<>> ELSE <<"COLON">> \o p.spec) \o <<"RB">>
RECURSIVE Render(_)
Render(ps) == IF ps = <<>> THEN <<>> ELSE RenderPart(ps[1]) \o Render(Tail(ps))
\* re-parsing the rendering of an accepted template gives the same parts (the parts determine the template's meaning)
NormalFormOK == (done /\ err = "" /\ Mode # "name") =>
                   LET r == ParseAll(Render(parts), 1, <<>>) IN r.ok /\ r.parts = parts
\* progress: the cursor only moves forward and stays inside the input
CursorOK == pos >= 1 /\ pos <= Len(inp) + 1
\* a field name contains none of { } : ! outside a [...] section (inside brackets anything but ] may occur)
RECURSIVE Outside(_, _, _)
Outside(t, i, inb) == IF i > Len(t) THEN <<>>
                      ELSE IF inb THEN Outside(t, i + 1, t[i] # "RK")
                      ELSE IF t[i] = "LK" THEN Outside(t, i + 1, TRUE)
                      ELSE <<t[i]>> \o Outside(t, i + 1, FALSE)
PartsOK == \A i \in 1..Len(parts) :
              parts[i].k = "field" =>
                 LET o == Outside(parts[i].name, 1, FALSE) IN \A j \in 1..Len(o) : o[j] \notin {"LB", "RB", "COLON", "BANG"}

\* labels of the specification branches a behaviour went through (used to key known findings narrowly)
Has(t, c) == \E i \in 1..Len(t) : t[i] = c
PlusDigits(t) == Len(t) > 1 /\ t[1] = "PLUS" /\ \A i \in 2..Len(t) : t[i] = "0"
PartTags(p) ==
   IF p.k = "field"
   THEN (IF Has(p.name, "LK") THEN {"name.bracket"} ELSE {})
        \cup (IF Has(p.name, "LB") \/ Has(p.name, "RB") THEN {"name.brace_in_brackets"} ELSE {})
        \cup (IF p.conv \in {"LB", "RB", "COLON", "BANG", "LK", "RK"} THEN {"conv.special"} ELSE {})
        \cup (IF Has(p.spec, "LK") THEN {"spec.bracket"} ELSE {})
        \cup (IF Has(p.spec, "LB") THEN {"spec.nested"} ELSE {})
   ELSE IF p.k \in {"index", "item_index"} /\ Has(p.t, "d2") THEN {"digit.nonascii"}
   ELSE IF p.k \in {"keyword", "item_key"} /\ PlusDigits(p.t) THEN {"plus_digits"}
   ELSE {}
\* features of a rejected input that the reference's bracket / brace rules react to
InTags(t) == (IF Has(t, "LK") THEN {"in.bracket"} ELSE {})
             \cup (IF \E k \in 1..(Len(t) - 1) : t[k] = "BANG" /\ t[k + 1] \in {"LB", "RB", "COLON", "BANG", "LK", "RK"} THEN {"in.conv_special"} ELSE {})
             \cup (IF \E k \in 1..(Len(t) - 1), m \in 2..Len(t) : k < m /\ t[k] = "LB" /\ t[m] = "LB" /\ t[k + 1] # "LB"
                                                                /\ \A j \in (k + 1)..(m - 1) : t[j] \notin {"RB", "COLON"} THEN {"in.nested_lb"} ELSE {})
TagsOfIn(ok, why, ps, t) == IF ~ok THEN {"err:" \o why} \cup InTags(t) ELSE UNION {PartTags(ps[i]) : i \in 1..Len(ps)}
TagsOf(ok, why, ps) == IF ~ok THEN {"err:" \o why} ELSE UNION {PartTags(ps[i]) : i \in 1..Len(ps)}

\* ---------- the pinned implementation (format/src/format.rs at the pinned snapshot) as a second definition ----------
\* Used only to recognise the recorded findings exactly: a result that differs from the reference is the known deviation
\* iff it equals what this mirror predicts; anything else is a new violation.
RECURSIVE RLit(_, _, _)
\* parse_literal from i: <<literal text, next position>>; stops before a brace that is not doubled
RLit(t, k, acc) == IF k > Len(t) THEN <<acc, k>>
                   ELSE IF IsBrace(t[k]) THEN (IF k + 1 <= Len(t) /\ t[k + 1] = t[k] THEN RLit(t, k + 2, Append(acc, t[k])) ELSE <<acc, k>>)
                   ELSE RLit(t, k + 1, Append(acc, t[k]))
RECURSIVE RSpecEnd(_, _, _, _)
\* parse_spec: scan from k (after the opening brace): <<status, left text, position of the closing brace>>
RSpecEnd(t, k, nested, left) ==
   IF k > Len(t) THEN <<"unmatched", left, 0>>
   ELSE IF t[k] = "LB" THEN (IF nested THEN <<"invalid", left, 0>> ELSE RSpecEnd(t, k + 1, TRUE, Append(left, "LB")))
   ELSE IF t[k] = "RB" THEN (IF nested THEN RSpecEnd(t, k + 1, FALSE, Append(left, "RB")) ELSE <<"ok", left, k>>)
   ELSE RSpecEnd(t, k + 1, nested, Append(left, t[k]))
RECURSIVE RBrackets(_, _, _, _, _, _)
\* parse_part_in_brackets: state (k, left, right, split); inb marks the inner loop after '['
RBrackets(t, k, l, r, split, inb) ==
   IF k > Len(t) THEN [ok |-> TRUE, l |-> l, r |-> r, split |-> split]
   ELSE LET c == t[k]
            push(x) == IF split THEN [l |-> l, r |-> Append(r, x)] ELSE [l |-> Append(l, x), r |-> r] IN
        IF inb
        THEN LET q == push(c) IN
             IF c = "RK" THEN RBrackets(t, k + 1, q.l, q.r, split, FALSE)
             ELSE IF k = Len(t) THEN [ok |-> FALSE]                       \* MissingRightBracket
             ELSE RBrackets(t, k + 1, q.l, q.r, split, TRUE)
        ELSE IF c = "LK" THEN LET q == push(c) IN RBrackets(t, k + 1, q.l, q.r, split, TRUE)
        ELSE IF c = "COLON" /\ ~split THEN RBrackets(t, k + 1, l, r, TRUE, FALSE)
        ELSE LET q == push(c) IN RBrackets(t, k + 1, q.l, q.r, split, FALSE)
RField(txt) ==
   LET b == RBrackets(txt, 1, <<>>, <<>>, FALSE, FALSE) IN
   IF ~b.ok THEN [ok |-> FALSE]
   ELSE LET bangs == {k \in 1..Len(b.l) : b.l[k] = "BANG"}
            bp == IF bangs = {} THEN 0 ELSE CHOOSE k \in bangs : \A m \in bangs : k <= m
            name == IF bp = 0 THEN b.l ELSE SubSeq(b.l, 1, bp - 1)
            convtxt == IF bp = 0 THEN <<>> ELSE SubSeq(b.l, bp + 1, Len(b.l))
        IN IF bp # 0 /\ Len(convtxt) # 1 THEN [ok |-> FALSE]
           ELSE [ok |-> TRUE, f |-> [k |-> "field", name |-> name, conv |-> IF bp = 0 THEN "" ELSE convtxt[1], spec |-> IF b.split THEN b.r ELSE <<>>]]
RECURSIVE RParse(_, _, _)
RParse(t, k, ps) ==
   IF k > Len(t) THEN [ok |-> TRUE, parts |-> ps]
   ELSE LET lit == RLit(t, k, <<>>) IN
        IF lit[1] # <<>> THEN RParse(t, lit[2], Append(ps, Lit(lit[1])))
        ELSE IF t[k] # "LB" THEN [ok |-> FALSE]
        ELSE LET e == RSpecEnd(t, k + 1, FALSE, <<>>) IN
             IF e[1] # "ok" THEN [ok |-> FALSE]
             ELSE LET f == RField(e[2]) IN
                  IF ~f.ok THEN [ok |-> FALSE] ELSE RParse(t, e[3] + 1, Append(ps, f.f))
Pinned(t) == RParse(t, 1, <<>>)

SpecDepth == LET F == {i \in 1..Len(parts) : parts[i].k = "field"} IN
             IF F = {} THEN 0 ELSE LET D == {Depth(parts[i].spec, 1, 0, 0) : i \in F} IN CHOOSE d \in D : \A e \in D : d >= e
EmitOK == (Emit /\ done) =>
   PrintT("REPLAY" \o ToJson([fam |-> IF Mode = "name" THEN "field_name" ELSE "fmt_template",
                             inp |-> inp, ok |-> (err = ""), err |-> err, parts |-> parts,
                             pinned |-> IF Mode = "name" THEN [ok |-> FALSE] ELSE (LET q == Pinned(inp) IN IF q.ok THEN q ELSE [ok |-> FALSE, parts |-> <<>>]),
                             tags |-> TagsOfIn(err = "", err, parts, inp),
                             depth |-> IF Mode = "name" THEN 0 ELSE SpecDepth]))
=======================================================================

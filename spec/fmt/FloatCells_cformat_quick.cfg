CONSTANTS
  Mode = "cformat"
  Emit = TRUE
  Quick = TRUE
SPECIFICATION Spec
INVARIANTS FixedLaw ExpLaw ReprLaw EmitOK
CHECK_DEADLOCK FALSE

CONSTANTS
  Mode = "raw"
  Emit = TRUE
  MaxLen = 4
  RawAlphabet = {"<", "+", "#", "0", "7", ",", "_", ".", "d", "s", "q"}
  Widths = {""}
  Precs = {""}
  Quick = TRUE
SPECIFICATION Spec
INVARIANTS WidthLaw EmitOK
CHECK_DEADLOCK FALSE

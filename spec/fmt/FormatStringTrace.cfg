CONSTANTS
  MaxLen = 0
  Alphabet = {"a"}
  Mode = "template"
  Emit = FALSE
SPECIFICATION TSpec
INVARIANTS Report
POSTCONDITION TraceAccepted
CHECK_DEADLOCK FALSE

CONSTANTS
  MaxLen = 4
  Alphabet = {"LB", "RB", "LK", "RK", "BANG", "COLON", "DOT", "0", "a", "PLUS", "e2", "d2"}
  Mode = "field"
  Emit = TRUE
SPECIFICATION Spec
INVARIANTS NormalFormOK CursorOK PartsOK EmitOK
CHECK_DEADLOCK FALSE

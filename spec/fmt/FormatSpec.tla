--------------------------- MODULE FormatSpec ---------------------------
(* Python's format(value, spec) for integers, text and booleans               *)
(* (Python/formatter_unicode.c) on real strings:                              *)
(*   Parse     parse_internal_render_format_spec as a field-by-field scanner  *)
(*   FmtInt    format_long_internal  (sign, '#' prefix, grouping every 3/4    *)
(*             with width-driven zero padding, fill/align incl. '=' and '0')  *)
(*   FmtStr    format_string_internal (precision truncates by characters)     *)
(* Two generators: "fields" = product of field choices, "raw" = every string  *)
(* over a small alphabet (malformed specifications included).                 *)
EXTENDS FormatCore, Json
CONSTANTS Mode, Emit, MaxLen, RawAlphabet, Widths, Precs, Quick

VARIABLES spec, kind, val, sval, out, done
vars == <<spec, kind, val, sval, out, done>>

\* integers (value v, |v| < 2^31); "ERR:<why>" for the specifications Python rejects
FmtInt(s, v) ==
   LET f == Parse(s, ">", "d") IN
   IF ~f.ok THEN "ERR:" \o f.why
   ELSE IF f.ty \in {"e", "E", "f", "F", "g", "G", "%"} THEN "FLOAT"          \* converted to float: see the float cells
   ELSE IF f.ty \notin {"b", "c", "d", "o", "x", "X", "n"} THEN "ERR:Unknown format code"
   ELSE IF f.prec >= 0 THEN "ERR:Precision not allowed in integer format specifier"
   ELSE IF f.ty = "c" THEN
        (IF f.sign # "" THEN "ERR:Sign not allowed with integer format specifier 'c'"
         ELSE IF f.alt THEN "ERR:Alternate form (#) not allowed with integer format specifier 'c'"
         ELSE IF v < 0 THEN "ERR:%c arg not in range(0x110000)"
         ELSE IF v \notin {65, 97} THEN "SKIP"      \* only 'A' and 'a' are modelled as characters
         ELSE Render(f, "", "", IF v = 65 THEN "A" ELSE "a", 3))
   ELSE LET base == CASE f.ty = "b" -> 2 [] f.ty = "o" -> 8 [] f.ty \in {"x", "X"} -> 16 [] OTHER -> 10
            m0 == ToBase(IF v < 0 THEN -v ELSE v, base)
            mag == IF f.ty = "X" THEN Upper(m0) ELSE m0
            prefix == IF f.alt THEN (CASE f.ty = "b" -> "0b" [] f.ty = "o" -> "0o" [] f.ty = "x" -> "0x" [] f.ty = "X" -> "0X" [] OTHER -> "") ELSE ""
        IN Render(f, SignOf(f, v < 0) \o prefix, mag, "", IF base = 10 THEN 3 ELSE 4)
\* a huge integer given by its decimal digits (decimal presentation only)
FmtBig(s, neg, digits) ==
   LET f == Parse(s, ">", "d") IN
   IF ~f.ok THEN "ERR:" \o f.why
   ELSE IF f.ty \notin {"d", "n"} THEN "SKIP"
   ELSE IF f.prec >= 0 THEN "ERR:Precision not allowed in integer format specifier"
   ELSE Render(f, SignOf(f, neg), digits, "", 3)
\* text: v is a string of one-byte characters; wide = TRUE renders every character as a 2-byte one (harness maps)
FmtStr(s, v) ==
   LET f == Parse(s, "<", "s") IN
   IF ~f.ok THEN "ERR:" \o f.why
   ELSE IF f.ty # "s" THEN "ERR:Unknown format code"
   ELSE IF f.sign # "" THEN "ERR:Sign not allowed in string format specifier"
   ELSE IF f.alt THEN "ERR:Alternate form (#) not allowed in string format specifier"
   ELSE IF f.align = "=" THEN "ERR:'=' alignment not allowed in string format specifier"
   ELSE LET t == IF f.prec >= 0 /\ Len(v) > f.prec THEN SubSeq(v, 1, f.prec) ELSE v IN
        Render([f EXCEPT !.group = ""], "", "", t, 3)
\* booleans: an empty specification gives the name, anything else formats the integer 0/1
FmtBool(s, b) == IF s = "" THEN (IF b THEN "True" ELSE "False") ELSE FmtInt(s, IF b THEN 1 ELSE 0)

-----------------------------------------------------------------------
Fills == IF Quick THEN {"", "x", "0"} ELSE {"", "x", "0", "<"}
Aligns == {"", "<", ">", "=", "^"}
Signs == IF Quick THEN {"", "+", " "} ELSE {"", "+", "-", " "}
Groups == {"", ",", "_"}
Types == {"", "d", "b", "o", "x", "X", "n", "c", "s", "e", "%", "q"}
IntVals == IF Quick THEN {0, -5, 1234, -1234567, 65} ELSE {0, 5, -5, 1234, -1234567, 255, 65, 2147483647}
BigVals == IF Quick THEN {"123456789012345678901234567890"} ELSE {"123456789012345678901234567890", "1000000000000000000000"}
StrVals == IF Quick THEN {"", "abc", "abcdefg"} ELSE {"", "a", "abc", "abcdefg"}
NumText(n) == IF n < 0 THEN "" ELSE ToBase(n, 10)
SpecText(f, a, sg, alt, z, w, g, p, t) ==
  (IF a = "" THEN "" ELSE f \o a) \o sg \o (IF alt THEN "#" ELSE "") \o (IF z THEN "0" ELSE "") \o w \o g \o p \o t

RawStrings == UNION {[1..n -> RawAlphabet] : n \in 0..MaxLen}
RECURSIVE Join(_)
Join(t) == IF t = <<>> THEN "" ELSE t[1] \o Join(Tail(t))

Init == spec = "" /\ kind = "none" /\ val = 0 /\ sval = "" /\ out = "" /\ done = FALSE

Values(s) ==
   \/ \E v \in IntVals : kind' = "int" /\ val' = v /\ sval' = "" /\ out' = FmtInt(s, v)
   \/ \E d \in BigVals, neg \in BOOLEAN : kind' = "big" /\ val' = (IF neg THEN 1 ELSE 0) /\ sval' = d /\ out' = FmtBig(s, neg, d)
   \/ \E v \in StrVals : kind' = "str" /\ val' = 0 /\ sval' = v /\ out' = FmtStr(s, v)
   \/ \E b \in BOOLEAN : kind' = "bool" /\ val' = (IF b THEN 1 ELSE 0) /\ sval' = "" /\ out' = FmtBool(s, b)

Fields == /\ Mode = "fields" /\ ~done
          /\ \E f \in Fills, a \in Aligns, sg \in Signs, alt \in BOOLEAN, z \in BOOLEAN, w \in Widths, g \in Groups, p \in Precs, t \in Types :
               /\ (f # "" => a # "")
               /\ spec' = SpecText(f, a, sg, alt, z, w, g, p, t)
               /\ Values(spec')
          /\ done' = TRUE
Raw == /\ Mode = "raw" /\ ~done
       /\ \E r \in RawStrings :
            /\ Cardinality({i \in 1..Len(r) : IsDigitCh(r[i])}) <= 2      \* keeps widths/precisions small (<= 77)
            /\ spec' = Join(r) /\ Values(spec')
       /\ done' = TRUE
Next == Fields \/ Raw
Spec == Init /\ [][Next]_vars

-----------------------------------------------------------------------
\* M: laws of the definition itself
IsErr == Len(out) >= 4 /\ SubSeq(out, 1, 4) = "ERR:"
Special == out \in {"SKIP", "FLOAT"} \/ IsErr
\* the result is at least as wide as the requested width
WidthLaw == (done /\ ~Special) =>
              LET f == Parse(spec, IF kind = "str" THEN "<" ELSE ">", IF kind = "str" THEN "s" ELSE "d") IN
              f.ok => Len(out) >= f.width
EmitOK == (Emit /\ done) => PrintT("REPLAY" \o ToJson([fam |-> "fmt_cell", spec |-> spec, kind |-> kind, val |-> val, sval |-> sval, out |-> out]))
=======================================================================

--------------------------- MODULE FormatSpec ---------------------------
(* Python's format(value, spec) for integers, text and booleans               *)
(* (Python/formatter_unicode.c) on real strings:                              *)
(*   Parse     parse_internal_render_format_spec as a field-by-field scanner  *)
(*   FmtInt    format_long_internal  (sign, '#' prefix, grouping every 3/4    *)
(*             with width-driven zero padding, fill/align incl. '=' and '0')  *)
(*   FmtStr    format_string_internal (precision truncates by characters)     *)
(* Two generators: "fields" = product of field choices, "raw" = every string  *)
(* over a small alphabet (malformed specifications included).                 *)
EXTENDS Integers, Sequences, FiniteSets, TLC, Json
CONSTANTS Mode, Emit, MaxLen, RawAlphabet, Widths, Precs, Quick

VARIABLES spec, kind, val, sval, out, done
vars == <<spec, kind, val, sval, out, done>>

Ch(s, i) == IF i >= 1 /\ i <= Len(s) THEN SubSeq(s, i, i) ELSE ""
IsAlign(c) == c \in {"<", ">", "=", "^"}
IsDigitCh(c) == c \in {"0", "1", "2", "3", "4", "5", "6", "7", "8", "9"}
DigitVal(c) == CASE c = "0" -> 0 [] c = "1" -> 1 [] c = "2" -> 2 [] c = "3" -> 3 [] c = "4" -> 4 [] c = "5" -> 5
                 [] c = "6" -> 6 [] c = "7" -> 7 [] c = "8" -> 8 [] c = "9" -> 9 [] OTHER -> 0
RECURSIVE DigitsEnd(_, _)
DigitsEnd(s, i) == IF IsDigitCh(Ch(s, i)) THEN DigitsEnd(s, i + 1) ELSE i
RECURSIVE NumVal(_, _, _, _)
NumVal(s, i, e, acc) == IF i >= e THEN acc ELSE NumVal(s, i + 1, e, acc * 10 + DigitVal(Ch(s, i)))

Err(why) == [ok |-> FALSE, why |-> why]
\* parse_internal_render_format_spec; dalign/dtype are the defaults of the value's type
Parse(s, dalign, dtype) ==
   LET n == Len(s)
       fillGiven == n >= 2 /\ IsAlign(Ch(s, 2))
       alignOnly == ~fillGiven /\ n >= 1 /\ IsAlign(Ch(s, 1))
       fill0 == IF fillGiven THEN Ch(s, 1) ELSE " "
       align0 == IF fillGiven THEN Ch(s, 2) ELSE IF alignOnly THEN Ch(s, 1) ELSE dalign
       alignSpecified == fillGiven \/ alignOnly
       p1 == IF fillGiven THEN 3 ELSE IF alignOnly THEN 2 ELSE 1
       hasSign == Ch(s, p1) \in {"+", "-", " "}
       sign == IF hasSign THEN Ch(s, p1) ELSE ""
       p2 == IF hasSign THEN p1 + 1 ELSE p1
       alt == Ch(s, p2) = "#"
       p3 == IF alt THEN p2 + 1 ELSE p2
       zero == ~fillGiven /\ Ch(s, p3) = "0"
       fill == IF zero THEN "0" ELSE fill0
       align == IF zero /\ ~alignSpecified /\ dalign = ">" THEN "=" ELSE align0
       p4 == IF zero THEN p3 + 1 ELSE p3
       p5 == DigitsEnd(s, p4)
       width == IF p5 = p4 THEN -1 ELSE NumVal(s, p4, p5, 0)
       comma == Ch(s, p5) = ","
       p6 == IF comma THEN p5 + 1 ELSE p5
       under == Ch(s, p6) = "_"
       p7 == IF under THEN p6 + 1 ELSE p6
       comma2 == Ch(s, p7) = ","
       hasDot == Ch(s, p7) = "."
       p8 == IF hasDot THEN DigitsEnd(s, p7 + 1) ELSE p7
       prec == IF hasDot /\ p8 > p7 + 1 THEN NumVal(s, p7 + 1, p8, 0) ELSE -1
       rest == n - p8 + 1
       ty == IF rest = 1 THEN Ch(s, p8) ELSE dtype
       group == IF comma THEN "," ELSE IF under THEN "_" ELSE ""
   IN IF (comma /\ under) \/ (under /\ comma2) THEN Err("Cannot specify both ',' and '_'.")
      ELSE IF hasDot /\ p8 = p7 + 1 THEN Err("Format specifier missing precision")
      ELSE IF rest > 1 THEN Err("Invalid format specifier")
      ELSE IF group # "" /\ ~(ty \in {"d", "e", "f", "g", "E", "G", "%", "F", ""} \/ (group = "_" /\ ty \in {"b", "o", "x", "X"}))
           THEN Err("Cannot specify '" \o group \o "' with '" \o ty \o "'.")
      ELSE [ok |-> TRUE, fill |-> fill, align |-> align, sign |-> sign, alt |-> alt, width |-> width,
            group |-> group, prec |-> prec, ty |-> ty]

Rep(c, n) == LET RECURSIVE R(_) R(k) == IF k <= 0 THEN "" ELSE c \o R(k - 1) IN R(n)
DigitCh(d) == SubSeq("0123456789abcdef", d + 1, d + 1)
RECURSIVE ToBase(_, _)
ToBase(n, b) == IF n < b THEN DigitCh(n) ELSE ToBase(n \div b, b) \o DigitCh(n % b)
UpCh(c) == CASE c = "a" -> "A" [] c = "b" -> "B" [] c = "c" -> "C" [] c = "d" -> "D" [] c = "e" -> "E" [] c = "f" -> "F" [] OTHER -> c
Upper(s) == LET RECURSIVE U(_) U(k) == IF k > Len(s) THEN "" ELSE UpCh(SubSeq(s, k, k)) \o U(k + 1) IN U(1)
RECURSIVE Group(_, _, _)
Group(s, g, sep) == IF Len(s) <= g THEN s ELSE Group(SubSeq(s, 1, Len(s) - g), g, sep) \o sep \o SubSeq(s, Len(s) - g + 1, Len(s))

\* fill_number / calc_number_widths: lead = sign and prefix, digits = the digit string, tail = text copied after the
\* digits (nothing for integers; '.', fraction, exponent, '%' for floats).  Grouping applies to digits only and, with
\* fill '0' and align '=', the zero padding is grouped too.
Render(f, lead, digits, tail, gsz) ==
   LET width == IF f.width < 0 THEN 0 ELSE f.width
       zeroGroup == f.group # "" /\ f.fill = "0" /\ f.align = "="
       minw == width - Len(lead) - Len(tail)
       RECURSIVE PadGrouped(_)
       PadGrouped(m) == LET gm == Group(m, gsz, f.group) IN
                        IF Len(gm) >= minw THEN (IF SubSeq(gm, 1, 1) = f.group THEN "0" \o gm ELSE gm) ELSE PadGrouped("0" \o m)
       body == (IF f.group = "" \/ digits = "" THEN digits ELSE IF zeroGroup THEN PadGrouped(digits) ELSE Group(digits, gsz, f.group)) \o tail
       n == Len(lead) + Len(body)
       npad == IF width > n THEN width - n ELSE 0
   IN CASE f.align = "<" -> lead \o body \o Rep(f.fill, npad)
        [] f.align = ">" -> Rep(f.fill, npad) \o lead \o body
        [] f.align = "=" -> lead \o Rep(f.fill, npad) \o body
        [] OTHER -> Rep(f.fill, npad \div 2) \o lead \o body \o Rep(f.fill, npad - npad \div 2)

SignOf(f, neg) == IF neg THEN "-" ELSE IF f.sign = "+" THEN "+" ELSE IF f.sign = " " THEN " " ELSE ""
\* integers (value v, |v| < 2^31); "ERR:<why>" for the specifications Python rejects
FmtInt(s, v) ==
   LET f == Parse(s, ">", "d") IN
   IF ~f.ok THEN "ERR:" \o f.why
   ELSE IF f.ty \in {"e", "E", "f", "F", "g", "G", "%"} THEN "FLOAT"          \* converted to float: see the float cells
   ELSE IF f.ty \notin {"b", "c", "d", "o", "x", "X", "n"} THEN "ERR:Unknown format code"
   ELSE IF f.prec >= 0 THEN "ERR:Precision not allowed in integer format specifier"
   ELSE IF f.ty = "c" THEN
        (IF f.sign # "" THEN "ERR:Sign not allowed with integer format specifier 'c'"
         ELSE IF f.alt THEN "ERR:Alternate form (#) not allowed with integer format specifier 'c'"
         ELSE IF v < 0 THEN "ERR:%c arg not in range(0x110000)"
         ELSE IF v \notin {65, 97} THEN "SKIP"      \* only 'A' and 'a' are modelled as characters
         ELSE Render(f, "", "", IF v = 65 THEN "A" ELSE "a", 3))
   ELSE LET base == CASE f.ty = "b" -> 2 [] f.ty = "o" -> 8 [] f.ty \in {"x", "X"} -> 16 [] OTHER -> 10
            m0 == ToBase(IF v < 0 THEN -v ELSE v, base)
            mag == IF f.ty = "X" THEN Upper(m0) ELSE m0
            prefix == IF f.alt THEN (CASE f.ty = "b" -> "0b" [] f.ty = "o" -> "0o" [] f.ty = "x" -> "0x" [] f.ty = "X" -> "0X" [] OTHER -> "") ELSE ""
        IN Render(f, SignOf(f, v < 0) \o prefix, mag, "", IF base = 10 THEN 3 ELSE 4)
\* a huge integer given by its decimal digits (decimal presentation only)
FmtBig(s, neg, digits) ==
   LET f == Parse(s, ">", "d") IN
   IF ~f.ok THEN "ERR:" \o f.why
   ELSE IF f.ty \notin {"d", "n"} THEN "SKIP"
   ELSE IF f.prec >= 0 THEN "ERR:Precision not allowed in integer format specifier"
   ELSE Render(f, SignOf(f, neg), digits, "", 3)
\* text: v is a string of one-byte characters; wide = TRUE renders every character as a 2-byte one (harness maps)
FmtStr(s, v) ==
   LET f == Parse(s, "<", "s") IN
   IF ~f.ok THEN "ERR:" \o f.why
   ELSE IF f.ty # "s" THEN "ERR:Unknown format code"
   ELSE IF f.sign # "" THEN "ERR:Sign not allowed in string format specifier"
   ELSE IF f.alt THEN "ERR:Alternate form (#) not allowed in string format specifier"
   ELSE IF f.align = "=" THEN "ERR:'=' alignment not allowed in string format specifier"
   ELSE LET t == IF f.prec >= 0 /\ Len(v) > f.prec THEN SubSeq(v, 1, f.prec) ELSE v IN
        Render([f EXCEPT !.group = ""], "", "", t, 3)
\* booleans: an empty specification gives the name, anything else formats the integer 0/1
FmtBool(s, b) == IF s = "" THEN (IF b THEN "True" ELSE "False") ELSE FmtInt(s, IF b THEN 1 ELSE 0)

-----------------------------------------------------------------------
Fills == IF Quick THEN {"", "x", "0"} ELSE {"", "x", "0", "<"}
Aligns == {"", "<", ">", "=", "^"}
Signs == IF Quick THEN {"", "+", " "} ELSE {"", "+", "-", " "}
Groups == {"", ",", "_"}
Types == {"", "d", "b", "o", "x", "X", "n", "c", "s", "e", "%", "q"}
IntVals == IF Quick THEN {0, -5, 1234, -1234567, 65} ELSE {0, 5, -5, 1234, -1234567, 255, 65, 2147483647}
BigVals == IF Quick THEN {"123456789012345678901234567890"} ELSE {"123456789012345678901234567890", "1000000000000000000000"}
StrVals == IF Quick THEN {"", "abc", "abcdefg"} ELSE {"", "a", "abc", "abcdefg"}
NumText(n) == IF n < 0 THEN "" ELSE ToBase(n, 10)
SpecText(f, a, sg, alt, z, w, g, p, t) ==
  (IF a = "" THEN "" ELSE f \o a) \o sg \o (IF alt THEN "#" ELSE "") \o (IF z THEN "0" ELSE "") \o w \o g \o p \o t

RawStrings == UNION {[1..n -> RawAlphabet] : n \in 0..MaxLen}
RECURSIVE Join(_)
Join(t) == IF t = <<>> THEN "" ELSE t[1] \o Join(Tail(t))

Init == spec = "" /\ kind = "none" /\ val = 0 /\ sval = "" /\ out = "" /\ done = FALSE

Values(s) ==
   \/ \E v \in IntVals : kind' = "int" /\ val' = v /\ sval' = "" /\ out' = FmtInt(s, v)
   \/ \E d \in BigVals, neg \in BOOLEAN : kind' = "big" /\ val' = (IF neg THEN 1 ELSE 0) /\ sval' = d /\ out' = FmtBig(s, neg, d)
   \/ \E v \in StrVals : kind' = "str" /\ val' = 0 /\ sval' = v /\ out' = FmtStr(s, v)
   \/ \E b \in BOOLEAN : kind' = "bool" /\ val' = (IF b THEN 1 ELSE 0) /\ sval' = "" /\ out' = FmtBool(s, b)

Fields == /\ Mode = "fields" /\ ~done
          /\ \E f \in Fills, a \in Aligns, sg \in Signs, alt \in BOOLEAN, z \in BOOLEAN, w \in Widths, g \in Groups, p \in Precs, t \in Types :
               /\ (f # "" => a # "")
               /\ spec' = SpecText(f, a, sg, alt, z, w, g, p, t)
               /\ Values(spec')
          /\ done' = TRUE
Raw == /\ Mode = "raw" /\ ~done
       /\ \E r \in RawStrings :
            /\ Cardinality({i \in 1..Len(r) : IsDigitCh(r[i])}) <= 2      \* keeps widths/precisions small (<= 77)
            /\ spec' = Join(r) /\ Values(spec')
       /\ done' = TRUE
Next == Fields \/ Raw
Spec == Init /\ [][Next]_vars

-----------------------------------------------------------------------
\* M: laws of the definition itself
IsErr == Len(out) >= 4 /\ SubSeq(out, 1, 4) = "ERR:"
Special == out \in {"SKIP", "FLOAT"} \/ IsErr
\* the result is at least as wide as the requested width
WidthLaw == (done /\ ~Special) =>
              LET f == Parse(spec, IF kind = "str" THEN "<" ELSE ">", IF kind = "str" THEN "s" ELSE "d") IN
              f.ok => Len(out) >= f.width
EmitOK == (Emit /\ done) => PrintT("REPLAY" \o ToJson([fam |-> "fmt_cell", spec |-> spec, kind |-> kind, val |-> val, sval |-> sval, out |-> out]))
=======================================================================

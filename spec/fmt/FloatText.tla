--------------------------- MODULE FloatText ---------------------------
(* Decimal text of floating-point values, on digit strings.                   *)
(* A finite non-negative value is given EXACTLY as a decimal                  *)
(*     [i |-> integer digits, f |-> fraction digits]     e.g. 1234.5, 0.125   *)
(* (the generators only use values that are exactly representable doubles,    *)
(* so "correctly rounded" = rounding this exact expansion, ties to even).     *)
(* Operators: ShortDigits (the digits/decimal-point pairs David Gay's dtoa    *)
(* returns in modes 0, 2, 3), PyFloatStr = PyOS_double_to_string for the      *)
(* codes e f g r, with alternate form and the add-dot-0 rule, and the repr    *)
(* shape.  No IEEE arithmetic is done here.                                   *)
EXTENDS Integers, Sequences, TLC

Chr(s, k) == SubSeq(s, k, k)
Rep0(n) == LET RECURSIVE R(_) R(k) == IF k <= 0 THEN "" ELSE "0" \o R(k - 1) IN R(n)
DVal(c) == CASE c = "0" -> 0 [] c = "1" -> 1 [] c = "2" -> 2 [] c = "3" -> 3 [] c = "4" -> 4 [] c = "5" -> 5
             [] c = "6" -> 6 [] c = "7" -> 7 [] c = "8" -> 8 [] c = "9" -> 9
DChr(d) == SubSeq("0123456789", d + 1, d + 1)
RECURSIVE AllZero(_)
AllZero(s) == s = "" \/ (Chr(s, 1) = "0" /\ AllZero(SubSeq(s, 2, Len(s))))
RECURSIVE StripLead(_)
StripLead(s) == IF Len(s) > 0 /\ Chr(s, 1) = "0" THEN StripLead(SubSeq(s, 2, Len(s))) ELSE s
RECURSIVE StripTrail(_)
StripTrail(s) == IF Len(s) > 0 /\ Chr(s, Len(s)) = "0" THEN StripTrail(SubSeq(s, 1, Len(s) - 1)) ELSE s
RECURSIVE LeadZeros(_)
LeadZeros(s) == IF Len(s) > 0 /\ Chr(s, 1) = "0" THEN 1 + LeadZeros(SubSeq(s, 2, Len(s))) ELSE 0
\* s + 1 on a digit string (may grow by one digit)
RECURSIVE Inc(_)
Inc(s) == IF s = "" THEN "1"
          ELSE LET d == DVal(Chr(s, Len(s))) IN
               IF d < 9 THEN SubSeq(s, 1, Len(s) - 1) \o DChr(d + 1) ELSE Inc(SubSeq(s, 1, Len(s) - 1)) \o "0"
\* round the digit string `all` to its first k digits (k >= 0), ties to even; result has k or k+1 digits
RoundAt(all, k) ==
   LET padded == IF Len(all) < k THEN all \o Rep0(k - Len(all)) ELSE all
       head == SubSeq(padded, 1, k)
       rest == SubSeq(padded, k + 1, Len(padded))
       half == rest # "" /\ Chr(rest, 1) = "5" /\ AllZero(SubSeq(rest, 2, Len(rest)))
       above == rest # "" /\ (DVal(Chr(rest, 1)) > 5 \/ (Chr(rest, 1) = "5" /\ ~AllZero(SubSeq(rest, 2, Len(rest)))))
       lastOdd == k > 0 /\ DVal(Chr(head, k)) % 2 = 1
   IN IF above \/ (half /\ lastOdd) THEN (IF k = 0 THEN "1" ELSE Inc(head)) ELSE head

IsZeroVal(x) == AllZero(x.i) /\ AllZero(x.f)
\* significant digits (from the first non-zero one) and decpt: value = 0.DIGITS x 10^decpt
Sig(x) == LET all == x.i \o x.f IN StripLead(all)
Decpt(x) == IF StripLead(x.i) # "" THEN Len(StripLead(x.i)) ELSE 0 - LeadZeros(x.f)

\* dtoa mode 3: ndigits after the decimal point.  Returns [d |-> digits without trailing zeros, p |-> decpt]
Mode3(x, n) ==
   LET ip == StripLead(x.i)
       all == ip \o x.f
       r == RoundAt(all, Len(ip) + n)                    \* Len(ip)+n or one more digit
       grew == Len(r) > Len(ip) + n
       d == StripTrail(r)
   IN IF AllZero(r) THEN [d |-> "", p |-> 0 - n]          \* rounds to zero: dtoa gives no digits, decpt = -ndigits
      ELSE [d |-> StripTrail(StripLead(r)), p |-> (IF grew THEN Len(ip) + 1 ELSE Len(ip)) - LeadZeros(r)]
\* dtoa mode 2: n significant digits (n >= 1)
Mode2(x, n) ==
   IF IsZeroVal(x) THEN [d |-> "0", p |-> 1]
   ELSE LET s == Sig(x)
            r == RoundAt(s, n)
            grew == Len(r) > n
        IN [d |-> StripTrail(r), p |-> Decpt(x) + (IF grew THEN 1 ELSE 0)]
\* dtoa mode 0 for the values used here: the exact expansion is the shortest (at most 15 significant digits)
Mode0(x) == IF IsZeroVal(x) THEN [d |-> "0", p |-> 1] ELSE [d |-> StripTrail(Sig(x)), p |-> Decpt(x)]

ExpText(e, upper) == (IF upper THEN "E" ELSE "e") \o (IF e < 0 THEN "-" ELSE "+")
                     \o (LET a == IF e < 0 THEN 0 - e ELSE e
                             RECURSIVE T(_)
                             T(n) == IF n < 10 THEN DChr(n) ELSE T(n \div 10) \o DChr(n % 10)
                         IN IF a < 10 THEN "0" \o DChr(a) ELSE T(a))

\* format_float_short: code in {"e","f","g","r"}; prec as passed by the callers; alt = '#'; adddot = add ".0" to integers
\* dg = [d, p] from dtoa.  vdigits = number of digits to show (padding with zeros) when alt or for e/f.
Assemble(dg, code, prec, alt, adddot, upper) ==
   LET digits0 == dg.d
       decpt == dg.p
       useExp == CASE code = "e" -> TRUE
                   [] code = "f" -> FALSE
                   [] code = "g" -> (decpt <= -4 \/ decpt > (IF adddot THEN prec - 1 ELSE prec))
                   [] OTHER -> (decpt <= -4 \/ decpt > 16)
       \* number of digits that must be present
       vdig == CASE code = "e" -> prec + 1
                 [] code = "f" -> decpt + prec
                 [] code = "g" -> (IF alt THEN prec ELSE 0)
                 [] OTHER -> 0
       nd == Len(digits0)
       digits == IF vdig > nd THEN digits0 \o Rep0(vdig - nd) ELSE digits0
   IN IF useExp
      THEN LET first == IF digits = "" THEN "0" ELSE Chr(digits, 1)
               tail == IF Len(digits) > 1 THEN SubSeq(digits, 2, Len(digits)) ELSE ""
               dot == IF tail # "" \/ alt THEN "." ELSE ""
           IN first \o dot \o tail \o ExpText(decpt - 1, upper)
      ELSE LET ip == IF decpt <= 0 THEN "0"
                     ELSE IF Len(digits) >= decpt THEN SubSeq(digits, 1, decpt) ELSE digits \o Rep0(decpt - Len(digits))
               fp == IF decpt <= 0 THEN (IF digits = "" THEN "" ELSE Rep0(0 - decpt) \o digits)
                     ELSE IF Len(digits) > decpt THEN SubSeq(digits, decpt + 1, Len(digits)) ELSE ""
               fp2 == IF code = "f" /\ Len(fp) < prec THEN fp \o Rep0(prec - Len(fp)) ELSE fp
           IN IF fp2 # "" THEN ip \o "." \o fp2
              ELSE IF alt THEN ip \o "."
              ELSE IF adddot THEN ip \o ".0"
              ELSE ip

\* PyOS_double_to_string for a finite non-negative magnitude
PyFloatStr(x, code, prec, alt, adddot, upper) ==
   CASE code = "e" -> Assemble(Mode2(x, prec + 1), "e", prec, alt, FALSE, upper)
     [] code = "f" -> Assemble(Mode3(x, prec), "f", prec, alt, FALSE, upper)
     [] code = "g" -> LET p == IF prec = 0 THEN 1 ELSE prec IN Assemble(Mode2(x, p), "g", p, alt, adddot, upper)
     [] OTHER -> Assemble(Mode0(x), "r", 0, FALSE, TRUE, upper)

\* repr shape from the shortest digits D (no trailing zeros) and the scientific exponent E = decpt - 1
ReprFromDigits(D, E) == Assemble([d |-> D, p |-> E + 1], "r", 0, FALSE, TRUE, FALSE)

\* multiply by 100 (shift the decimal point): exact on the decimal expansion
Times100(x) == LET f2 == x.f \o "00" IN [i |-> x.i \o SubSeq(f2, 1, 2), f |-> SubSeq(x.f, 3, Len(x.f))]
=======================================================================

CONSTANTS
  Mode = "fields"
  Emit = TRUE
  MaxLen = 0
  RawAlphabet = {"q"}
  Widths = {"", "7"}
  Precs = {"", ".2"}
  Quick = TRUE
SPECIFICATION Spec
INVARIANTS WidthLaw EmitOK
CHECK_DEADLOCK FALSE

--------------------------- MODULE FloatParse ---------------------------
(* Python's float(text) grammar for ASCII input, as a character-by-character  *)
(* scanner (Scan) and, independently, as a declarative definition (Decl) on   *)
(* the text with underscores removed plus a placement rule for underscores.   *)
(* Classes: "d" digit  "_"  "."  "e" e/E  "s" sign  "w" ASCII whitespace      *)
(* "INF" "INFINITY" "NAN" the special names (any case)  "x" any other char.   *)
EXTENDS Naturals, Sequences, FiniteSets, TLC, Json
CONSTANTS MaxLen, Alphabet, Emit

VARIABLES inp, pos, st, ok, done
vars == <<inp, pos, st, ok, done>>
Strings == UNION {[1..n -> Alphabet] : n \in 0..MaxLen}
Init == inp \in Strings /\ pos = 1 /\ st = "lead" /\ ok = TRUE /\ done = FALSE

At(i) == IF i >= 1 /\ i <= Len(inp) THEN inp[i] ELSE "EOF"
IsSpecial(c) == c \in {"INF", "INFINITY", "NAN"}
\* states: lead (leading whitespace), sign, int, int_ (underscore after an integer digit), dot0 (a dot with no integer
\* digits), frac (after the dot, digits seen before or after), frac_ , e, esign, exp, exp_, special, trail, bad
Trans(s, c) ==
   CASE s = "lead" -> (CASE c = "w" -> "lead" [] c = "s" -> "sign" [] c = "d" -> "int" [] c = "." -> "dot0"
                         [] IsSpecial(c) -> "special" [] OTHER -> "bad")
     [] s = "sign" -> (CASE c = "d" -> "int" [] c = "." -> "dot0" [] IsSpecial(c) -> "special" [] OTHER -> "bad")
     [] s = "int" -> (CASE c = "d" -> "int" [] c = "_" -> "int_" [] c = "." -> "frac" [] c = "e" -> "e" [] c = "w" -> "trail" [] OTHER -> "bad")
     [] s = "int_" -> (CASE c = "d" -> "int" [] OTHER -> "bad")
     [] s = "dot0" -> (CASE c = "d" -> "fracd" [] OTHER -> "bad")
     [] s = "frac" -> (CASE c = "d" -> "fracd" [] c = "e" -> "e" [] c = "w" -> "trail" [] OTHER -> "bad")
     [] s = "fracd" -> (CASE c = "d" -> "fracd" [] c = "_" -> "frac_" [] c = "e" -> "e" [] c = "w" -> "trail" [] OTHER -> "bad")
     [] s = "frac_" -> (CASE c = "d" -> "fracd" [] OTHER -> "bad")
     [] s = "e" -> (CASE c = "s" -> "esign" [] c = "d" -> "exp" [] OTHER -> "bad")
     [] s = "esign" -> (CASE c = "d" -> "exp" [] OTHER -> "bad")
     [] s = "exp" -> (CASE c = "d" -> "exp" [] c = "_" -> "exp_" [] c = "w" -> "trail" [] OTHER -> "bad")
     [] s = "exp_" -> (CASE c = "d" -> "exp" [] OTHER -> "bad")
     [] s = "special" -> (CASE c = "w" -> "trail" [] OTHER -> "bad")
     [] s = "trail" -> (CASE c = "w" -> "trail" [] OTHER -> "bad")
     [] OTHER -> "bad"
Accepting(s) == s \in {"int", "frac", "fracd", "exp", "special", "trail"}

Step == /\ ~done /\ pos <= Len(inp)
        /\ st' = Trans(st, inp[pos]) /\ pos' = pos + 1 /\ UNCHANGED <<inp, ok, done>>
Finish == /\ ~done /\ pos > Len(inp) /\ ok' = Accepting(st) /\ done' = TRUE /\ UNCHANGED <<inp, pos, st>>
Next == Step \/ Finish
Spec == Init /\ [][Next]_vars

\* ------------- declarative definition ---------------------------------------------------
Strip(t) == SelectSeq(t, LAMBDA c : c # "_")
\* every underscore stands between two digits
UnderscoresOK(t) == \A k \in 1..Len(t) : t[k] = "_" => (k > 1 /\ k < Len(t) /\ t[k-1] = "d" /\ t[k+1] = "d")
AllIn(t, S) == \A k \in 1..Len(t) : t[k] \in S
\* t (no underscores, no surrounding whitespace) is sign? (digits . digits? | . digits | digits) exponent?  or  sign? special
IsNumber(t) ==
   \E a \in 0..1, b \in 0..Len(t), c \in 0..Len(t), e \in 0..Len(t) :
      \* a = sign present; mantissa occupies (a, b]; exponent part (b, Len]
      /\ (a = 1 => Len(t) >= 1 /\ t[1] = "s")
      /\ a <= b /\ b <= Len(t)
      /\ LET m == SubSeq(t, a + 1, b)
             x == SubSeq(t, b + 1, Len(t))
             dots == {k \in 1..Len(m) : m[k] = "."}
         IN /\ AllIn(m, {"d", "."}) /\ Cardinality(dots) <= 1 /\ (\E k \in 1..Len(m) : m[k] = "d")
            /\ (x = <<>> \/ (/\ x[1] = "e"
                             /\ LET y == IF Len(x) >= 2 /\ x[2] = "s" THEN SubSeq(x, 3, Len(x)) ELSE SubSeq(x, 2, Len(x)) IN
                                y # <<>> /\ AllIn(y, {"d"})))
      /\ c = 0 /\ e = 0
IsSpecialText(t) == (Len(t) = 1 /\ IsSpecial(t[1])) \/ (Len(t) = 2 /\ t[1] = "s" /\ IsSpecial(t[2]))
RECURSIVE TrimL(_)
TrimL(t) == IF t # <<>> /\ t[1] = "w" THEN TrimL(Tail(t)) ELSE t
RECURSIVE TrimR(_)
TrimR(t) == IF t # <<>> /\ t[Len(t)] = "w" THEN TrimR(SubSeq(t, 1, Len(t) - 1)) ELSE t
Decl(t) == LET core == TrimR(TrimL(t)) IN
           /\ UnderscoresOK(core)
           /\ (IsNumber(Strip(core)) \/ (IsSpecialText(core)))

\* M: the scanner accepts exactly the declared language
AgreeOK == done => (ok <=> Decl(inp))
EmitOK == (Emit /\ done) => PrintT("REPLAY" \o ToJson([fam |-> "float_parse", inp |-> inp, ok |-> Decl(inp)]))
=======================================================================

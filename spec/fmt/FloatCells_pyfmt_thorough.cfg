CONSTANTS
  Mode = "pyfmt"
  Emit = TRUE
  Quick = FALSE
SPECIFICATION Spec
INVARIANTS FixedLaw ExpLaw ReprLaw EmitOK
CHECK_DEADLOCK FALSE

CONSTANTS
  MaxLen = 0
  Alphabet = {"PCT"}
  Bytes = FALSE
  Mode = "format"
  Emit = TRUE
SPECIFICATION Spec
INVARIANTS WidthLaw LeftLaw EmitOK
CHECK_DEADLOCK FALSE

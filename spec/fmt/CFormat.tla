---------------------------- MODULE CFormat ----------------------------
(* printf-style (%) templates.                                                *)
(* Part 1 -- the splitter: CPython's PyUnicode_Format / _PyBytes_FormatEx     *)
(*   argument parser as a machine over character classes; one action per      *)
(*   template part (literal run or conversion specifier).                     *)
(*   Classes: PCT % LP ( RP ) HASH # ZERO 0 MINUS - PLUS + SP ' ' ONE 1-9     *)
(*   STAR * DOT . LEN h/l/L  TD a conversion letter valid for text and bytes  *)
(*   TB b (bytes only)  OTHER any other character.                            *)
(* Part 2 -- the conversions on real strings: integers (d i u o x X), text     *)
(*   (s r a), characters (c) and byte strings (b) with flags, width and       *)
(*   precision, as Python's % operator produces them.                         *)
EXTENDS Integers, Sequences, FiniteSets, TLC, Json
CONSTANTS MaxLen, Alphabet, Bytes, Mode, Emit   \* Mode: "split" | "format"

VARIABLES inp, pos, parts, err, done, cell
vars == <<inp, pos, parts, err, done, cell>>

-----------------------------------------------------------------------
\* Part 1: splitter
At(s, i) == IF i >= 1 /\ i <= Len(s) THEN s[i] ELSE "EOF"
IsFlag(c) == c \in {"HASH", "ZERO", "MINUS", "PLUS", "SP"}
IsDigit(c) == c \in {"ZERO", "ONE"}
IsType(c) == c = "TD" \/ (c = "TB" /\ Bytes)

RECURSIVE KeyEnd(_, _, _)
\* position of the parenthesis that closes the mapping key (count = open parentheses), 0 if none
KeyEnd(s, i, count) == IF i > Len(s) THEN 0
                       ELSE IF s[i] = "RP" THEN (IF count = 1 THEN i ELSE KeyEnd(s, i + 1, count - 1))
                       ELSE IF s[i] = "LP" THEN KeyEnd(s, i + 1, count + 1)
                       ELSE KeyEnd(s, i + 1, count)
RECURSIVE FlagEnd(_, _)
FlagEnd(s, i) == IF i <= Len(s) /\ IsFlag(s[i]) THEN FlagEnd(s, i + 1) ELSE i
RECURSIVE DigitEnd(_, _)
DigitEnd(s, i) == IF i <= Len(s) /\ IsDigit(s[i]) THEN DigitEnd(s, i + 1) ELSE i

Fail(kind, at) == [ok |-> FALSE, kind |-> kind, at |-> at]
\* parse one specifier; i is the position just after '%'; positions are 1-based, reported indexes 0-based
ParseSpec(s, i) ==
   LET hasKey == At(s, i) = "LP"
       ke == IF hasKey THEN KeyEnd(s, i + 1, 1) ELSE 0
   IN IF hasKey /\ ke = 0 THEN Fail("incomplete format key", i - 1)
      ELSE
      LET a == IF hasKey THEN ke + 1 ELSE i                \* after the key
          b == FlagEnd(s, a)                                 \* after the flags
          w == IF At(s, b) = "STAR" THEN b + 1 ELSE DigitEnd(s, b)   \* after the width
          hasDot == At(s, w) = "DOT"
          p == IF ~hasDot THEN w ELSE IF At(s, w + 1) = "STAR" THEN w + 2 ELSE DigitEnd(s, w + 1)
          t == IF At(s, p) = "LEN" THEN p + 1 ELSE p         \* after the ignored length modifier
          c == At(s, t)
      IN IF c = "EOF" THEN Fail("incomplete format", Len(s))
         ELSE IF c = "PCT" /\ t = i THEN \* "%%": a literal percent sign (only when nothing stands between)
              [ok |-> TRUE, pct |-> TRUE, next |-> t + 1]
         ELSE IF ~IsType(c) THEN Fail("unsupported format character", t - 1)
         ELSE [ok |-> TRUE, pct |-> FALSE, next |-> t + 1,
               spec |-> [k |-> "spec",
                         key |-> IF hasKey THEN <<"key">> \o SubSeq(s, i + 1, ke - 1) ELSE <<>>,
                         flags |-> [f \in {"HASH", "ZERO", "MINUS", "PLUS", "SP"} |-> \E j \in a..(b - 1) : s[j] = f],
                         width |-> SubSeq(s, b, w - 1),
                         prec |-> IF hasDot THEN <<"DOT">> \o SubSeq(s, w + 1, p - 1) ELSE <<>>,
                         ty |-> c]]

Lit(t) == [k |-> "lit", t |-> t]
AddLit(ps, t) == IF t = <<>> THEN ps
                 ELSE IF Len(ps) > 0 /\ ps[Len(ps)].k = "lit" THEN [ps EXCEPT ![Len(ps)] = Lit(@.t \o t)]
                 ELSE Append(ps, Lit(t))
RECURSIVE PctFrom(_, _)
PctFrom(s, i) == IF i > Len(s) THEN Len(s) + 1 ELSE IF s[i] = "PCT" THEN i ELSE PctFrom(s, i + 1)

SplitNext ==
   /\ Mode = "split" /\ ~done
   /\ IF pos > Len(inp) THEN done' = TRUE /\ UNCHANGED <<pos, parts, err>>
      ELSE LET q == PctFrom(inp, pos)
               ps1 == AddLit(parts, SubSeq(inp, pos, q - 1)) IN
           IF q > Len(inp) THEN parts' = ps1 /\ pos' = q /\ UNCHANGED <<err, done>>
           ELSE LET r == ParseSpec(inp, q + 1) IN
                IF ~r.ok THEN err' = r /\ done' = TRUE /\ UNCHANGED <<pos, parts>>
                ELSE /\ parts' = (IF r.pct THEN AddLit(ps1, <<"PCT">>) ELSE Append(ps1, r.spec))
                     /\ pos' = r.next /\ UNCHANGED <<err, done>>
   /\ UNCHANGED <<inp, cell>>

-----------------------------------------------------------------------
\* Part 2: conversions on strings
Rep(c, n) == LET RECURSIVE R(_) R(k) == IF k <= 0 THEN "" ELSE c \o R(k - 1) IN R(n)
DigitCh(d) == SubSeq("0123456789abcdef", d + 1, d + 1)
RECURSIVE ToBase(_, _)
ToBase(n, b) == IF n < b THEN DigitCh(n) ELSE ToBase(n \div b, b) \o DigitCh(n % b)
UpCh(c) == CASE c = "a" -> "A" [] c = "b" -> "B" [] c = "c" -> "C" [] c = "d" -> "D" [] c = "e" -> "E" [] c = "f" -> "F"
             [] c = "x" -> "X" [] OTHER -> c
Upper(s) == LET RECURSIVE U(_) U(k) == IF k > Len(s) THEN "" ELSE UpCh(SubSeq(s, k, k)) \o U(k + 1) IN U(1)

\* flags: subset of {"#","0","-"," ","+"}; width, prec: -1 = absent
Pad(body, lead, flags, width, zeroOK) ==
   \* lead = sign and prefix (zero padding goes between lead and body)
   LET n == Len(lead) + Len(body) IN
   IF width <= n THEN lead \o body
   ELSE IF "-" \in flags THEN lead \o body \o Rep(" ", width - n)
   ELSE IF zeroOK /\ "0" \in flags THEN lead \o Rep("0", width - n) \o body
   ELSE Rep(" ", width - n) \o lead \o body

FmtInt(flags, width, prec, ty, v) ==
   LET base == CASE ty = "o" -> 8 [] ty \in {"x", "X"} -> 16 [] OTHER -> 10
       m0 == ToBase(IF v < 0 THEN -v ELSE v, base)
       m1 == IF ty = "X" THEN Upper(m0) ELSE m0
       m == IF prec > Len(m1) THEN Rep("0", prec - Len(m1)) \o m1 ELSE m1
       prefix == IF "#" \in flags THEN (CASE ty = "o" -> "0o" [] ty = "x" -> "0x" [] ty = "X" -> "0X" [] OTHER -> "") ELSE ""
       sign == IF v < 0 THEN "-" ELSE IF "+" \in flags THEN "+" ELSE IF " " \in flags THEN " " ELSE ""
   IN Pad(m, sign \o prefix, flags, width, TRUE)
\* text: precision truncates (by characters), width pads with spaces; the 0 flag does not apply
FmtStr(flags, width, prec, s) ==
   LET t == IF prec >= 0 /\ Len(s) > prec THEN SubSeq(s, 1, prec) ELSE s IN Pad(t, "", flags, width, FALSE)
\* a character: never truncated
FmtChr(flags, width, prec, c) == Pad(c, "", flags, width, FALSE)

Flagsets == {{}, {"-"}, {"0"}, {"0", "-"}, {"+"}, {" "}, {"#"}, {"#", "0"}, {"+", "0"}, {" ", "-"}, {"+", " "}, {"#", "0", "-", "+"}}
Widths == {-1, 0, 1, 2, 5, 9}
Precs == {-1, 0, 1, 3, 7}       \* 0 is written "." or ".0"
IntTypes == {"d", "i", "u", "o", "x", "X"}
IntVals == {0, 1, -1, 7, -8, 255, -256, 4095, 123456, -1000000}
StrVals == {"", "a", "ab", "abcde", "abcdefghij"}

FlagText(fs) == (IF "#" \in fs THEN "#" ELSE "") \o (IF "0" \in fs THEN "0" ELSE "") \o (IF "-" \in fs THEN "-" ELSE "")
                \o (IF " " \in fs THEN " " ELSE "") \o (IF "+" \in fs THEN "+" ELSE "")
NumText(n) == IF n < 0 THEN "" ELSE ToBase(n, 10)
SpecText(fs, w, p, dotOnly, ty) == "%" \o FlagText(fs) \o NumText(w) \o (IF p < 0 THEN "" ELSE IF p = 0 /\ dotOnly THEN "." ELSE "." \o NumText(p)) \o ty

FormatCell ==
   /\ Mode = "format" /\ ~done
   /\ \E fs \in Flagsets, w \in Widths, p \in Precs, dotOnly \in BOOLEAN :
        /\ (dotOnly => p = 0)
        /\ \/ \E ty \in IntTypes, v \in IntVals :
                cell' = [kind |-> "int", fs |-> fs, w |-> w, p |-> p, ty |-> ty, spec |-> SpecText(fs, w, p, dotOnly, ty), val |-> v, out |-> FmtInt(fs, w, p, ty, v)]
           \/ \E ty \in {"s", "r", "a"}, v \in StrVals :
                cell' = [kind |-> "str", fs |-> fs, w |-> w, p |-> p, ty |-> ty, spec |-> SpecText(fs, w, p, dotOnly, ty), sval |-> v, out |-> FmtStr(fs, w, p, v)]
           \/ \E v \in {"a", "Z"} :
                cell' = [kind |-> "chr", fs |-> fs, w |-> w, p |-> p, ty |-> "c", spec |-> SpecText(fs, w, p, dotOnly, "c"), sval |-> v, out |-> FmtChr(fs, w, p, v)]
           \/ \E v \in StrVals :
                cell' = [kind |-> "bytes", fs |-> fs, w |-> w, p |-> p, ty |-> "b", spec |-> SpecText(fs, w, p, dotOnly, "b"), sval |-> v, out |-> FmtStr(fs, w, p, v)]
   /\ done' = TRUE /\ UNCHANGED <<inp, pos, parts, err>>

-----------------------------------------------------------------------
Strings == UNION {[1..n -> Alphabet] : n \in 0..MaxLen}
Init == /\ inp \in (IF Mode = "split" THEN {<<"PCT">> \o s : s \in Strings} ELSE {<<>>})
        /\ pos = 1 /\ parts = <<>> /\ err = [ok |-> TRUE] /\ done = FALSE /\ cell = [kind |-> "none"]
Next == SplitNext \/ FormatCell
Spec == Init /\ [][Next]_vars

\* M: width law of the conversions: the result is never shorter than the width, and exactly as long as the
\* longer of width and the unpadded text
Natural == IF cell.kind = "int" THEN FmtInt(cell.fs, -1, cell.p, cell.ty, cell.val)
           ELSE IF cell.kind = "chr" THEN cell.sval
           ELSE FmtStr(cell.fs, -1, cell.p, cell.sval)
WidthLaw == (Mode = "format" /\ done) =>
               Len(cell.out) = (IF cell.w > Len(Natural) THEN cell.w ELSE Len(Natural))
\* left adjustment wins over zero padding; zero padding never separates a sign from... the digits' left end
LeftLaw == (Mode = "format" /\ done /\ "-" \in cell.fs) => SubSeq(cell.out, 1, Len(Natural)) = Natural
CursorOK == pos >= 1 /\ pos <= Len(inp) + 1
\* every accepted template is covered exactly by its parts: literals (with %% unescaped) and specifiers
PartsOK == \A i \in 1..Len(parts) : parts[i].k = "spec" => IsType(parts[i].ty)

EmitOK == (Emit /\ done) =>
   IF Mode = "split"
   THEN PrintT("REPLAY" \o ToJson([fam |-> "cfmt_split", inp |-> inp, bytes |-> Bytes, ok |-> err.ok,
                                   err |-> IF err.ok THEN [kind |-> "", at |-> 0] ELSE [kind |-> err.kind, at |-> err.at],
                                   parts |-> parts]))
   ELSE PrintT("REPLAY" \o ToJson([fam |-> "cfmt_cell", kind |-> cell.kind, spec |-> cell.spec, out |-> cell.out,
                                   val |-> IF cell.kind = "int" THEN cell.val ELSE 0,
                                   sval |-> IF cell.kind = "int" THEN "" ELSE cell.sval]))
=======================================================================

--------------------------- MODULE FloatCells ---------------------------
(* Float formatting cells for C17 / C18 / C19, computed on exact decimals:    *)
(*   "pyfmt"   literal::float::format_fixed / format_exponent / format_general *)
(*             = C printf %f %e %g as Python produces them                    *)
(*   "format"  Python format(float, spec)                                     *)
(*   "cformat" Python '%...' % float                                          *)
(*   "repr"    repr shape from shortest digits and decimal exponent           *)
EXTENDS FormatCore, FloatText, Json
CONSTANTS Mode, Emit, Quick

VARIABLES cell, done
vars == <<cell, done>>

\* exactly representable magnitudes (dyadic rationals), as exact decimals
Vals == IF Quick
        THEN {[i |-> "0", f |-> ""], [i |-> "0", f |-> "5"], [i |-> "2", f |-> "5"], [i |-> "0", f |-> "125"],
              [i |-> "1234", f |-> "5"], [i |-> "100000", f |-> ""], [i |-> "0", f |-> "0009765625"],
              [i |-> "999999", f |-> "5"], [i |-> "10000000000000000000000", f |-> ""]}
        ELSE {[i |-> "0", f |-> ""], [i |-> "0", f |-> "5"], [i |-> "1", f |-> "5"], [i |-> "2", f |-> "5"], [i |-> "0", f |-> "125"],
              [i |-> "0", f |-> "375"], [i |-> "1", f |-> ""], [i |-> "10", f |-> ""], [i |-> "99", f |-> "5"], [i |-> "9", f |-> "5"],
              [i |-> "1234", f |-> "5"], [i |-> "100000", f |-> ""], [i |-> "123456789", f |-> ""], [i |-> "0", f |-> "0009765625"],
              [i |-> "0", f |-> "00006103515625"], [i |-> "999999", f |-> "5"], [i |-> "1023", f |-> "75"],
              [i |-> "10000000000000000000000", f |-> ""], [i |-> "1180591620717411303424", f |-> ""],
              [i |-> "2251799813685248", f |-> "5"]}
Precisions == IF Quick THEN {0, 1, 2, 6, 17} ELSE {0, 1, 2, 3, 4, 6, 10, 15, 17, 20}
ValText(x) == x.i \o "." \o (IF x.f = "" THEN "0" ELSE x.f)

Init == cell = [k |-> "none"] /\ done = FALSE

\* ---------------- literal::float::format_* ----------------------------------------------
PyFmt == /\ Mode = "pyfmt" /\ ~done
         /\ \E x \in Vals, p \in Precisions, alt \in BOOLEAN, upper \in BOOLEAN, fn \in {"fixed", "exponent", "general", "general_repr"} :
              /\ (fn \in {"general", "general_repr"} => p >= 1)
              /\ cell' = [k |-> "pyfmt", fn |-> fn, prec |-> p, alt |-> alt, upper |-> upper, val |-> ValText(x),
                          out |-> CASE fn = "fixed" -> PyFloatStr(x, "f", p, alt, FALSE, upper)
                                    [] fn = "exponent" -> PyFloatStr(x, "e", p, alt, FALSE, upper)
                                    [] fn = "general" -> PyFloatStr(x, "g", p, alt, FALSE, upper)
                                    [] OTHER -> PyFloatStr(x, "g", p, alt, TRUE, upper)]
         /\ done' = TRUE

\* ---------------- Python format(float, spec) ----------------------------------------------
RECURSIVE DigitRun(_, _)
DigitRun(s, k) == IF k <= Len(s) /\ IsDigitCh(Ch(s, k)) THEN DigitRun(s, k + 1) ELSE k
\* special: "" (finite), "inf", "nan"
FmtFloat(s, neg, x, special) ==
   LET f == Parse(s, ">", "") IN
   IF ~f.ok THEN "ERR:" \o f.why
   ELSE IF f.ty \notin {"", "e", "E", "f", "F", "g", "G", "n", "%"} THEN "ERR:Unknown format code"
   ELSE LET upper == f.ty \in {"E", "F", "G"}
            code0 == CASE f.ty \in {"e", "E"} -> "e" [] f.ty \in {"f", "F", "%"} -> "f" [] f.ty \in {"g", "G", "n"} -> "g" [] OTHER -> "r"
            prec == IF f.prec < 0 THEN (IF code0 = "r" THEN 0 ELSE 6) ELSE f.prec
            code == IF code0 = "r" /\ f.prec >= 0 THEN "g" ELSE code0
            adddot == f.ty = ""
            body == IF special # "" THEN (IF upper THEN (IF special = "inf" THEN "INF" ELSE "NAN") ELSE special)
                    ELSE PyFloatStr(IF f.ty = "%" THEN Times100(x) ELSE x, code, prec, f.alt, adddot, upper)
            text == body \o (IF f.ty = "%" THEN "%" ELSE "")
            de == DigitRun(text, 1)
        IN Render(f, SignOf(f, neg), SubSeq(text, 1, de - 1), SubSeq(text, de, Len(text)), 3)

FFills == IF Quick THEN {"", "x"} ELSE {"", "x", "0"}
FAligns == {"", "<", ">", "=", "^"}
FSigns == IF Quick THEN {"", "+"} ELSE {"", "+", " "}
FWidths == IF Quick THEN {"", "12"} ELSE {"", "12", "30"}
FGroups == {"", ",", "_"}
FPrecs == IF Quick THEN {"", ".0", ".2"} ELSE {"", ".0", ".1", ".3", ".17"}
FTypes == {"", "e", "E", "f", "F", "g", "G", "n", "%", "d"}
FVals == IF Quick THEN {[i |-> "0", f |-> ""], [i |-> "2", f |-> "5"], [i |-> "1234", f |-> "5"], [i |-> "0", f |-> "0009765625"], [i |-> "123456789", f |-> ""]}
         ELSE {[i |-> "0", f |-> ""], [i |-> "1", f |-> ""], [i |-> "2", f |-> "5"], [i |-> "1234", f |-> "5"], [i |-> "0", f |-> "0009765625"],
               [i |-> "123456789", f |-> ""], [i |-> "999999", f |-> "5"], [i |-> "10000000000000000000000", f |-> ""]}
PyFormat == /\ Mode = "format" /\ ~done
            /\ \E fl \in FFills, a \in FAligns, sg \in FSigns, alt \in BOOLEAN, z \in BOOLEAN, w \in FWidths, g \in FGroups, p \in FPrecs, t \in FTypes :
                 /\ (fl # "" => a # "")
                 /\ LET s == (IF a = "" THEN "" ELSE fl \o a) \o sg \o (IF alt THEN "#" ELSE "") \o (IF z THEN "0" ELSE "") \o w \o g \o p \o t IN
                    \/ \E x \in FVals, neg \in BOOLEAN :
                         /\ ~(t = "%" /\ Len(x.i) > 15)      \* x * 100 is computed in double arithmetic: keep it exact
                         /\ cell' = [k |-> "format", spec |-> s, neg |-> neg, val |-> ValText(x), special |-> "", out |-> FmtFloat(s, neg, x, "")]
                    \/ \E sp \in {"inf", "nan"}, neg \in BOOLEAN :
                         /\ (sp = "nan" => ~neg)
                         /\ cell' = [k |-> "format", spec |-> s, neg |-> neg, val |-> "", special |-> sp, out |-> FmtFloat(s, neg, [i |-> "0", f |-> ""], sp)]
            /\ done' = TRUE

\* ---------------- Python '%<flags><width><.prec><code>' % float --------------------------------
CFlagsets == {{}, {"-"}, {"0"}, {"0", "-"}, {"+"}, {" "}, {"#"}, {"#", "0"}, {"+", "0"}}
CWidths == {"", "1", "12"}
CPrecs == IF Quick THEN {"", ".", ".2"} ELSE {"", ".", ".0", ".2", ".6", ".17"}
PadC(body, lead, flags, width) ==
   LET n == Len(lead) + Len(body) IN
   IF width <= n THEN lead \o body
   ELSE IF "-" \in flags THEN lead \o body \o Rep(" ", width - n)
   ELSE IF "0" \in flags THEN lead \o Rep("0", width - n) \o body
   ELSE Rep(" ", width - n) \o lead \o body
FlagText(fs) == (IF "#" \in fs THEN "#" ELSE "") \o (IF "0" \in fs THEN "0" ELSE "") \o (IF "-" \in fs THEN "-" ELSE "")
                \o (IF " " \in fs THEN " " ELSE "") \o (IF "+" \in fs THEN "+" ELSE "")
PrecVal(p) == IF p = "" THEN 6 ELSE IF p = "." THEN 0 ELSE NumVal(p, 2, Len(p) + 1, 0)
CFmt == /\ Mode = "cformat" /\ ~done
        /\ \E fs \in CFlagsets, w \in CWidths, p \in CPrecs, code \in {"e", "E", "f", "F", "g", "G"}, neg \in BOOLEAN :
             LET upper == code \in {"E", "F", "G"}
                 c == CASE code \in {"e", "E"} -> "e" [] code \in {"f", "F"} -> "f" [] OTHER -> "g"
                 sign == IF neg THEN "-" ELSE IF "+" \in fs THEN "+" ELSE IF " " \in fs THEN " " ELSE ""
                 wv == IF w = "" THEN 0 ELSE NumVal(w, 1, Len(w) + 1, 0)
                 spec == "%" \o FlagText(fs) \o w \o p \o code
             IN \/ \E x \in FVals :
                     cell' = [k |-> "cformat", spec |-> spec, neg |-> neg, val |-> ValText(x), special |-> "",
                              out |-> PadC(PyFloatStr(x, c, PrecVal(p), "#" \in fs, FALSE, upper), sign, fs, wv)]
                \/ \E sp \in {"inf", "nan"} :
                     /\ (sp = "nan" => ~neg)
                     /\ cell' = [k |-> "cformat", spec |-> spec, neg |-> neg, val |-> "", special |-> sp,
                                 out |-> PadC(IF upper THEN (IF sp = "inf" THEN "INF" ELSE "NAN") ELSE sp, sign, fs, wv)]
        /\ done' = TRUE

\* ---------------- repr shape ------------------------------------------------------------
\* (shortest digits without trailing zeros, scientific exponent): every exponent, several digit strings
ReprDigits == IF Quick THEN {"1", "15", "123456789012345"} ELSE {"1", "5", "15", "25", "125", "9", "99", "123456789012345", "999999999999999"}
\* normal doubles only (in the subnormal range fewer than 15 digits are significant; extremes are in Boundary)
Exps == IF Quick THEN {-307} \cup (-20..25) \cup {100, 308} ELSE (-307)..308
\* known boundary doubles given by their shortest digits (validated against CPython's repr)
Boundary == {<<"9999999999999999", -1>>, <<"10000000000000002", 0>>, <<"9999999999999998", 0>>, <<"10000000000000002", 16>>,
             <<"9999999999999998", 15>>, <<"1", 16>>, <<"1", -5>>, <<"1", -4>>, <<"12345678901234568", 17>>, <<"5", -324>>,
             <<"17976931348623157", 308>>, <<"22250738585072014", -308>>, <<"1", 22>>, <<"1", 23>>}
ReprCell == /\ Mode = "repr" /\ ~done
            /\ \/ \E D \in ReprDigits, E \in Exps :
                    /\ (E = 308 => D \in {"1", "15", "125"})
                    /\ cell' = [k |-> "repr", digits |-> D, exp |-> E, out |-> ReprFromDigits(D, E)]
               \/ \E b \in Boundary : cell' = [k |-> "repr", digits |-> b[1], exp |-> b[2], out |-> ReprFromDigits(b[1], b[2])]
            /\ done' = TRUE

\* ---------------- float.hex() / float.fromhex() -----------------------------------------
\* a double is named exactly by (neg, class, unbiased exponent e, 13 hexadecimal mantissa digits)
Mants == {"0000000000000", "0000000000001", "8000000000000", "fffffffffffff", "123456789abcd"}
HexExps == IF Quick THEN {-1022, -1021, -1, 0, 1, 52, 1023} ELSE (-1022)..1023
IntText(n) == LET a == IF n < 0 THEN 0 - n ELSE n
                  RECURSIVE T(_)
                  T(k) == IF k < 10 THEN DChr(k) ELSE T(k \div 10) \o DChr(k % 10)
              IN (IF n < 0 THEN "-" ELSE "+") \o T(a)
UpHexCh(c) == CASE c = "a" -> "A" [] c = "b" -> "B" [] c = "c" -> "C" [] c = "d" -> "D" [] c = "e" -> "E" [] c = "f" -> "F"
                [] c = "x" -> "X" [] c = "p" -> "P" [] c = "i" -> "I" [] c = "n" -> "N" [] OTHER -> c
UpHex(s) == LET RECURSIVE U(_) U(k) == IF k > Len(s) THEN "" ELSE UpHexCh(SubSeq(s, k, k)) \o U(k + 1) IN U(1)
HexText(neg, cls, e, m) ==
   (IF neg /\ cls # "nan" THEN "-" ELSE "") \o
   (CASE cls = "zero" -> "0x0.0p+0" [] cls = "inf" -> "inf" [] cls = "nan" -> "nan"
      [] cls = "sub" -> "0x0." \o m \o "p-1022"
      [] OTHER -> "0x1." \o m \o "p" \o IntText(e))
\* spellings float.fromhex must accept for the same value
HexVariants(neg, cls, e, m) ==
   LET t == HexText(FALSE, cls, e, m)
       sg == IF neg THEN "-" ELSE ""
       body == IF cls \in {"zero", "sub", "norm"} THEN SubSeq(t, 3, Len(t)) ELSE t      \* without 0x
   IN {sg \o t, sg \o UpHex(t), sg \o body, " " \o sg \o t \o " "}
      \cup (IF ~neg THEN {"+" \o t} ELSE {})
      \cup (IF cls = "inf" THEN {sg \o "infinity", sg \o "Infinity"} ELSE {})
      \cup (IF cls = "norm" /\ m = "0000000000000" THEN {sg \o "0x1p" \o IntText(e), sg \o "0x1.p" \o IntText(e), sg \o "1p" \o IntText(e)} ELSE {})
      \cup (IF cls = "norm" /\ e = 0 THEN {sg \o "0x1." \o m} ELSE {})
HexCell == /\ Mode = "hex" /\ ~done
           /\ \E neg \in BOOLEAN :
                \/ \E e \in HexExps, m \in Mants :
                     cell' = [k |-> "hex", neg |-> neg, cls |-> "norm", e |-> e, m |-> m, out |-> HexText(neg, "norm", e, m),
                              variants |-> HexVariants(neg, "norm", e, m)]
                \/ \E m \in Mants \ {"0000000000000"} :
                     cell' = [k |-> "hex", neg |-> neg, cls |-> "sub", e |-> -1022, m |-> m, out |-> HexText(neg, "sub", -1022, m),
                              variants |-> HexVariants(neg, "sub", -1022, m)]
                \/ \E c \in {"zero", "inf", "nan"} :
                     cell' = [k |-> "hex", neg |-> neg, cls |-> c, e |-> 0, m |-> "0000000000000", out |-> HexText(neg, c, 0, "0000000000000"),
                              variants |-> HexVariants(neg, c, 0, "0000000000000")]
           /\ done' = TRUE

Next == PyFmt \/ PyFormat \/ CFmt \/ ReprCell \/ HexCell
Spec == Init /\ [][Next]_vars

\* M: laws of the text definitions
IsErrOut == cell.k # "none" /\ Len(cell.out) >= 4 /\ SubSeq(cell.out, 1, 4) = "ERR:"
\* %f has exactly `prec` digits after the point; %e has one digit before it and a two-digit (or longer) exponent
FixedLaw == (done /\ cell.k = "pyfmt" /\ cell.fn = "fixed") =>
               LET de == DigitRun(cell.out, 1) IN
               IF cell.prec = 0 THEN (IF cell.alt THEN Len(cell.out) = de /\ Ch(cell.out, de) = "." ELSE de = Len(cell.out) + 1)
               ELSE Ch(cell.out, de) = "." /\ Len(cell.out) - de = cell.prec
ExpLaw == (done /\ cell.k = "pyfmt" /\ cell.fn = "exponent") =>
               /\ IsDigitCh(Ch(cell.out, 1)) /\ ~IsDigitCh(Ch(cell.out, 2))
               /\ IsDigitCh(Ch(cell.out, Len(cell.out))) /\ IsDigitCh(Ch(cell.out, Len(cell.out) - 1))
ReprLaw == (done /\ cell.k = "repr") =>
               LET usesExp == \E k \in 1..Len(cell.out) : Ch(cell.out, k) = "e" IN
               usesExp <=> (cell.exp < -4 \/ cell.exp >= 16)

EmitOK == (Emit /\ done) => PrintT("REPLAY" \o ToJson([fam |-> "float_cell"] @@ cell))
=======================================================================

CONSTANTS
  MaxLen = 5
  Alphabet = {"d", "_", ".", "e", "s", "w", "INF", "NAN", "x"}
  Emit = TRUE
SPECIFICATION Spec
INVARIANTS AgreeOK EmitOK
CHECK_DEADLOCK FALSE

CONSTANTS
  MaxLen = 6
  Alphabet = {"d", "_", ".", "e", "s", "w", "INF", "INFINITY", "NAN", "x"}
  Emit = TRUE
SPECIFICATION Spec
INVARIANTS AgreeOK EmitOK
CHECK_DEADLOCK FALSE

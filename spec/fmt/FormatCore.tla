---------------------------- MODULE FormatCore ----------------------------
(* Operator-only part of Python's format(): the specification-string parser    *)
(* (parse_internal_render_format_spec) and the number renderer (fill_number /  *)
(* calc_number_widths).  Used by FormatSpec.tla and FloatCells.tla.            *)
EXTENDS Integers, Sequences, FiniteSets, TLC

Ch(s, i) == IF i >= 1 /\ i <= Len(s) THEN SubSeq(s, i, i) ELSE ""
IsAlign(c) == c \in {"<", ">", "=", "^"}
IsDigitCh(c) == c \in {"0", "1", "2", "3", "4", "5", "6", "7", "8", "9"}
DigitVal(c) == CASE c = "0" -> 0 [] c = "1" -> 1 [] c = "2" -> 2 [] c = "3" -> 3 [] c = "4" -> 4 [] c = "5" -> 5
                 [] c = "6" -> 6 [] c = "7" -> 7 [] c = "8" -> 8 [] c = "9" -> 9 [] OTHER -> 0
RECURSIVE DigitsEnd(_, _)
DigitsEnd(s, i) == IF IsDigitCh(Ch(s, i)) THEN DigitsEnd(s, i + 1) ELSE i
RECURSIVE NumVal(_, _, _, _)
NumVal(s, i, e, acc) == IF i >= e THEN acc ELSE NumVal(s, i + 1, e, acc * 10 + DigitVal(Ch(s, i)))

Err(why) == [ok |-> FALSE, why |-> why]
\* parse_internal_render_format_spec; dalign/dtype are the defaults of the value's type
Parse(s, dalign, dtype) ==
   LET n == Len(s)
       fillGiven == n >= 2 /\ IsAlign(Ch(s, 2))
       alignOnly == ~fillGiven /\ n >= 1 /\ IsAlign(Ch(s, 1))
       fill0 == IF fillGiven THEN Ch(s, 1) ELSE " "
       align0 == IF fillGiven THEN Ch(s, 2) ELSE IF alignOnly THEN Ch(s, 1) ELSE dalign
       alignSpecified == fillGiven \/ alignOnly
       p1 == IF fillGiven THEN 3 ELSE IF alignOnly THEN 2 ELSE 1
       hasSign == Ch(s, p1) \in {"+", "-", " "}
       sign == IF hasSign THEN Ch(s, p1) ELSE ""
       p2 == IF hasSign THEN p1 + 1 ELSE p1
       alt == Ch(s, p2) = "#"
       p3 == IF alt THEN p2 + 1 ELSE p2
       zero == ~fillGiven /\ Ch(s, p3) = "0"
       fill == IF zero THEN "0" ELSE fill0
       align == IF zero /\ ~alignSpecified /\ dalign = ">" THEN "=" ELSE align0
       p4 == IF zero THEN p3 + 1 ELSE p3
       p5 == DigitsEnd(s, p4)
       width == IF p5 = p4 THEN -1 ELSE NumVal(s, p4, p5, 0)
       comma == Ch(s, p5) = ","
       p6 == IF comma THEN p5 + 1 ELSE p5
       under == Ch(s, p6) = "_"
       p7 == IF under THEN p6 + 1 ELSE p6
       comma2 == Ch(s, p7) = ","
       hasDot == Ch(s, p7) = "."
       p8 == IF hasDot THEN DigitsEnd(s, p7 + 1) ELSE p7
       prec == IF hasDot /\ p8 > p7 + 1 THEN NumVal(s, p7 + 1, p8, 0) ELSE -1
       rest == n - p8 + 1
       ty == IF rest = 1 THEN Ch(s, p8) ELSE dtype
       group == IF comma THEN "," ELSE IF under THEN "_" ELSE ""
   IN IF (comma /\ under) \/ (under /\ comma2) THEN Err("Cannot specify both ',' and '_'.")
      ELSE IF hasDot /\ p8 = p7 + 1 THEN Err("Format specifier missing precision")
      ELSE IF rest > 1 THEN Err("Invalid format specifier")
      ELSE IF group # "" /\ ~(ty \in {"d", "e", "f", "g", "E", "G", "%", "F", ""} \/ (group = "_" /\ ty \in {"b", "o", "x", "X"}))
           THEN Err("Cannot specify '" \o group \o "' with '" \o ty \o "'.")
      ELSE [ok |-> TRUE, fill |-> fill, align |-> align, sign |-> sign, alt |-> alt, width |-> width,
            group |-> group, prec |-> prec, ty |-> ty]

Rep(c, n) == LET RECURSIVE R(_) R(k) == IF k <= 0 THEN "" ELSE c \o R(k - 1) IN R(n)
DigitCh(d) == SubSeq("0123456789abcdef", d + 1, d + 1)
RECURSIVE ToBase(_, _)
ToBase(n, b) == IF n < b THEN DigitCh(n) ELSE ToBase(n \div b, b) \o DigitCh(n % b)
UpCh(c) == CASE c = "a" -> "A" [] c = "b" -> "B" [] c = "c" -> "C" [] c = "d" -> "D" [] c = "e" -> "E" [] c = "f" -> "F" [] OTHER -> c
Upper(s) == LET RECURSIVE U(_) U(k) == IF k > Len(s) THEN "" ELSE UpCh(SubSeq(s, k, k)) \o U(k + 1) IN U(1)
RECURSIVE Group(_, _, _)
Group(s, g, sep) == IF Len(s) <= g THEN s ELSE Group(SubSeq(s, 1, Len(s) - g), g, sep) \o sep \o SubSeq(s, Len(s) - g + 1, Len(s))

\* fill_number / calc_number_widths: lead = sign and prefix, digits = the digit string, tail = text copied after the
\* digits (nothing for integers; '.', fraction, exponent, '%' for floats).  Grouping applies to digits only and, with
\* fill '0' and align '=', the zero padding is grouped too.
Render(f, lead, digits, tail, gsz) ==
   LET width == IF f.width < 0 THEN 0 ELSE f.width
       zeroGroup == f.group # "" /\ f.fill = "0" /\ f.align = "="
       minw == width - Len(lead) - Len(tail)
       RECURSIVE PadGrouped(_)
       PadGrouped(m) == LET gm == Group(m, gsz, f.group) IN
                        IF Len(gm) >= minw THEN (IF SubSeq(gm, 1, 1) = f.group THEN "0" \o gm ELSE gm) ELSE PadGrouped("0" \o m)
       body == (IF f.group = "" \/ digits = "" THEN digits ELSE IF zeroGroup THEN PadGrouped(digits) ELSE Group(digits, gsz, f.group)) \o tail
       n == Len(lead) + Len(body)
       npad == IF width > n THEN width - n ELSE 0
   IN CASE f.align = "<" -> lead \o body \o Rep(f.fill, npad)
        [] f.align = ">" -> Rep(f.fill, npad) \o lead \o body
        [] f.align = "=" -> lead \o Rep(f.fill, npad) \o body
        [] OTHER -> Rep(f.fill, npad \div 2) \o lead \o body \o Rep(f.fill, npad - npad \div 2)

SignOf(f, neg) == IF neg THEN "-" ELSE IF f.sign = "+" THEN "+" ELSE IF f.sign = " " THEN " " ELSE ""
=======================================================================

------------------------- MODULE LocatorTrace -------------------------
(* Trace validation for the locators.  Events recorded from the real code:    *)
(*   init{text}                      a new source text (character classes)    *)
(*   locate{only,o,cursor}           entry of LinearLocator::locate[_only]    *)
(*   located{row,col}                its return                               *)
(*   rand{o,row,col}                 one answer of RandomLocator              *)
(* Each locate must be an enabled step of Locator.tla (same cursor, forward   *)
(* precondition) and every answer must be the declarative row/column.         *)
(* Deviations are collected in `bad` (so that the rest of the trace is still  *)
(* checked) and printed by the post-condition; only a malformed trace is      *)
(* rejected outright.                                                         *)
EXTENDS Locator, IOUtils, Sequences
Log == ndJsonDeserialize(IOEnv.TRACE)
VARIABLES l, bad, dead
tvars == <<vars, l, bad, dead>>

Load(t) == LET s == InitState(t) IN
           /\ text0' = t /\ ls' = s.ls /\ le' = s.le /\ ln' = s.ln /\ cur' = s.cur /\ asc' = s.asc
           /\ calls' = <<>> /\ err' = "none"

TInit == /\ Log[1].ev = "init" /\ l = 2 /\ bad = <<>> /\ dead = FALSE
         /\ text0 = Log[1].text
         /\ LET s == InitState(Log[1].text) IN ls = s.ls /\ le = s.le /\ ln = s.ln /\ cur = s.cur /\ asc = s.asc
         /\ calls = <<>> /\ err = "none"

IsEvent(e) == l <= Len(Log) /\ Log[l].ev = e /\ l' = l + 1
IsBoundary(o) == \E p \in 1..(Len(text0)+1) : ByteOff(text0, p) = o
Note(why) == bad' = Append(bad, [at |-> l, why |-> why])

TReset == IsEvent("init") /\ Load(Log[l].text) /\ dead' = FALSE /\ UNCHANGED bad

\* entry of locate / locate_only
TLocate ==
   /\ IsEvent("locate") /\ ~dead
   /\ LET o == Log[l].o IN
      IF ~IsBoundary(o) THEN Note("offset not on a character boundary") /\ dead' = TRUE /\ UNCHANGED vars
      ELSE LET p == PosOfByte(o) IN
           IF ByteOff(text0, cur) # Log[l].cursor
           THEN Note("cursor differs from the specification's cursor") /\ dead' = TRUE /\ UNCHANGED vars
           ELSE IF cur > p
           THEN Note("backward") /\ dead' = TRUE /\ UNCHANGED vars
           ELSE /\ (IF Log[l].only THEN LocateOnly(p) ELSE Locate(p))
                /\ UNCHANGED <<bad, dead>>

\* return of locate / locate_only: the logged answer must be the specification's and the declarative one
TLocated ==
   /\ IsEvent("located") /\ ~dead /\ Len(calls) > 0
   /\ LET c == calls[Len(calls)]
          p == PosOfByte(c.o) IN
      /\ IF err # "none" THEN Note("arithmetic error in the mirror: " \o err)
         ELSE IF <<Log[l].row, Log[l].col>> # <<RowOf(text0, p), ColOf(text0, p)>> THEN Note("linear answer is not the declarative row/column")
         ELSE IF <<Log[l].row, Log[l].col>> # <<c.row, c.col>> THEN Note("linear answer differs from the mirror machine")
         ELSE UNCHANGED bad
      /\ dead' = (err # "none")
      /\ UNCHANGED vars

\* events of a run that was abandoned (after a noted deviation) are skipped up to the next init
TSkip == /\ dead /\ l <= Len(Log) /\ Log[l].ev \in {"locate", "located"} /\ l' = l + 1
         /\ UNCHANGED <<vars, bad, dead>>

TRand ==
   /\ IsEvent("rand")
   /\ LET o == Log[l].o IN
      IF ~IsBoundary(o) THEN Note("rand: offset not on a character boundary")
      ELSE LET p == PosOfByte(o) IN
           IF <<Log[l].row, Log[l].col>> # <<RowOf(text0, p), ColOf(text0, p)>>
           THEN Note("indexed answer is not the declarative row/column") ELSE UNCHANGED bad
   /\ UNCHANGED <<vars, dead>>

TNext == TReset \/ TLocate \/ TLocated \/ TSkip \/ TRand
TSpec == TInit /\ [][TNext]_tvars

\* the trace is consumed completely; deviations are reported
Finished == l = Len(Log) + 1
Report == Finished => PrintT("BAD" \o ToJson(bad))
TraceAccepted ==
   LET d == TLCGet("stats").diameter IN
   IF d = Len(Log) THEN TRUE
   ELSE /\ PrintT("UNMATCHED at " \o ToString(d + 1))
        /\ FALSE
=======================================================================

CONSTANTS
  MaxLen = 7
  Alphabet = {"a", "e3", "LF", "CR", "BOM"}
  BomFirst = TRUE
  Emit = TRUE
SPECIFICATION Spec
INVARIANTS CountOK LinesOK PartitionOK LocOK EmitOK
CHECK_DEADLOCK FALSE

---------------------------- MODULE Ranges ----------------------------
(* TextRange / TextSize algebra (vendored/src/text_size) against the reading   *)
(* of a range as the set of offsets it spans.                                  *)
(* Offsets are abstract values 0..MAXV: 0..3 are "low", MAXV-3..MAXV are       *)
(* "high" and stand for 2^32-4 .. 2^32-1 (the harness maps v >= 8 to           *)
(* 2^32-1-(MAXV-v)).  ASSUME-checked lemma below: on exactly these operand     *)
(* shapes +, -, <=, min, max and overflow/underflow detection commute with     *)
(* that map, so TLC's 32-bit integers suffice.                                 *)
EXTENDS Integers, Sequences, FiniteSets, TLC, Json
CONSTANTS Emit
MAXV == 15
Low == 0..3
High == (MAXV-3)..MAXV
V == Low \cup High

VARIABLES a, b, x, phase
vars == <<a, b, x, phase>>

Ranges == {r \in V \X V : r[1] <= r[2]}
Init == a \in Ranges /\ b \in Ranges /\ x \in V /\ phase = "chosen"
Next == phase = "chosen" /\ phase' = "done" /\ UNCHANGED <<a, b, x>>
Spec == Init /\ [][Next]_vars

Min2(p, q) == IF p <= q THEN p ELSE q
Max2(p, q) == IF p >= q THEN p ELSE q

\* ---- the operations as the code computes them (mirror of range.rs) ----------
None == <<"none">>
Some(r) == <<"some", r[1], r[2]>>
MContains(r, o) == r[1] <= o /\ o < r[2]
MContainsIncl(r, o) == r[1] <= o /\ o <= r[2]
MContainsRange(r, q) == r[1] <= q[1] /\ q[2] <= r[2]
MIntersect(r, q) == LET s == Max2(r[1], q[1]) e == Min2(r[2], q[2]) IN IF e < s THEN None ELSE Some(<<s, e>>)
MCover(r, q) == <<Min2(r[1], q[1]), Max2(r[2], q[2])>>
MCheckedAdd(r, o) == IF r[1] + o > MAXV \/ r[2] + o > MAXV THEN None ELSE Some(<<r[1] + o, r[2] + o>>)
MCheckedSub(r, o) == IF r[1] - o < 0 \/ r[2] - o < 0 THEN None ELSE Some(<<r[1] - o, r[2] - o>>)
MOrdering(r, q) == IF r[2] <= q[1] THEN -1 ELSE IF q[2] <= r[1] THEN 1 ELSE 0

\* ---- reading a range as a set of offsets -------------------------------------
Set(r) == {o \in 0..MAXV : r[1] <= o /\ o < r[2]}          \* the offsets it spans
Pts(r) == r[1]..r[2]                                        \* its end points and everything between (never empty)
SetMin(S) == CHOOSE m \in S : \A y \in S : m <= y
SetMax(S) == CHOOSE m \in S : \A y \in S : m >= y

DLen(r) == Cardinality(Set(r))
DContains(r, o) == o \in Set(r)
DContainsIncl(r, o) == o \in Pts(r)
DContainsRange(r, q) == Pts(q) \subseteq Pts(r)
DIntersect(r, q) == LET I == Pts(r) \cap Pts(q) IN IF I = {} THEN None ELSE Some(<<SetMin(I), SetMax(I)>>)
DCover(r, q) == LET U == Pts(r) \cup Pts(q) IN <<SetMin(U), SetMax(U)>>
DShiftUp(r, o) == IF \E p \in Pts(r) : p + o > MAXV THEN None
                  ELSE LET S == {p + o : p \in Pts(r)} IN Some(<<SetMin(S), SetMax(S)>>)
DShiftDown(r, o) == IF \E p \in Pts(r) : p - o < 0 THEN None
                    ELSE LET S == {p - o : p \in Pts(r)} IN Some(<<SetMin(S), SetMax(S)>>)
DOrdering(r, q) == IF \A p \in Pts(r), s \in Pts(q) : p <= s THEN -1
                   ELSE IF \A p \in Pts(r), s \in Pts(q) : p >= s THEN 1 ELSE 0

\* ---- M: mirror = set reading, plus algebraic laws -----------------------------
AgreeOK ==
   /\ (a[2] - a[1]) = DLen(a)
   /\ (a[1] = a[2]) = (Set(a) = {})
   /\ MContains(a, x) = DContains(a, x)
   /\ MContainsIncl(a, x) = DContainsIncl(a, x)
   /\ MContainsRange(a, b) = DContainsRange(a, b)
   /\ MIntersect(a, b) = DIntersect(a, b)
   /\ MCover(a, b) = DCover(a, b)
   /\ MCheckedAdd(a, x) = DShiftUp(a, x)
   /\ MCheckedSub(a, x) = DShiftDown(a, x)
   /\ MOrdering(a, b) = DOrdering(a, b)
LawsOK ==
   /\ MIntersect(a, b) = MIntersect(b, a)
   /\ MCover(a, b) = MCover(b, a)
   /\ MContainsRange(MCover(a, b), a) /\ MContainsRange(MCover(a, b), b)
   /\ (MIntersect(a, b) # None) => LET r == MIntersect(a, b) IN MContainsRange(a, <<r[2], r[3]>>) /\ MContainsRange(b, <<r[2], r[3]>>)
   /\ (MOrdering(a, b) = -1 /\ Set(a) # {} /\ Set(b) # {}) => MOrdering(b, a) = 1
   /\ (MCheckedAdd(a, x) # None) => LET r == MCheckedAdd(a, x) IN MCheckedSub(<<r[2], r[3]>>, x) = Some(a)
   /\ Set(a) \cap Set(b) # {} => MIntersect(a, b) # None

\* ---- the abstraction lemma (checked by TLC when the module is loaded) ----------
\* Conc(v) is the concrete value; all concrete arithmetic is done on the pair <<isHigh, distance>> without
\* ever forming 2^32.  For operands in V: v+w overflows MAXV iff Conc(v)+Conc(w) overflows 2^32-1, etc.
IsHigh(v) == v >= 8
ASSUME \A v, w \in V :
   \* addition: low+low stays low and exact; anything with a high operand overflows iff the abstract sum exceeds MAXV
   /\ (~IsHigh(v) /\ ~IsHigh(w)) => (v + w <= 6)
   /\ (IsHigh(v) /\ ~IsHigh(w)) => ((v + w > MAXV) <=> (w > MAXV - v))
   /\ (IsHigh(v) /\ IsHigh(w)) => (v + w > MAXV)
   \* subtraction: high-high is low and exact, high-low stays high, low-high underflows
   /\ (IsHigh(v) /\ IsHigh(w) /\ v >= w) => (v - w <= 3)
   /\ (IsHigh(v) /\ ~IsHigh(w)) => IsHigh(v - w)
   /\ (~IsHigh(v) /\ IsHigh(w)) => (v - w < 0)
   \* order is preserved by construction (low < high)
   /\ (~IsHigh(v) /\ IsHigh(w)) => v < w

\* ---- G: one REPLAY line per cell -------------------------------------------------
Opt(r) == IF r = None THEN <<>> ELSE <<r[2], r[3]>>
EmitOK == (Emit /\ phase = "done") =>
   PrintT("REPLAY" \o ToJson([fam |-> "range_ops", a |-> a, b |-> b, x |-> x,
        len |-> DLen(a), is_empty |-> (Set(a) = {}),
        contains |-> DContains(a, x), contains_inclusive |-> DContainsIncl(a, x),
        contains_range |-> DContainsRange(a, b),
        intersect |-> Opt(DIntersect(a, b)), cover |-> DCover(a, b),
        cover_offset |-> DCover(a, <<x, x>>),
        checked_add |-> Opt(DShiftUp(a, x)), checked_sub |-> Opt(DShiftDown(a, x)),
        ordering |-> DOrdering(a, b),
        size_add |-> IF a[1] + x > MAXV THEN <<>> ELSE <<a[1] + x>>,
        size_sub |-> IF a[1] - x < 0 THEN <<>> ELSE <<a[1] - x>>]))
=======================================================================

------------------------- MODULE NewlineIter -------------------------
(* UniversalNewlineIterator (vendored/src/source_location/newlines.rs) as a   *)
(* double-ended machine over a remaining slice, in every interleaving of      *)
(* next()/next_back(), checked against the declarative Lines(text).           *)
(* Also NewlineWithTrailingNewline (forward only, one extra empty line).      *)
EXTENDS Lines, TLC, Json
CONSTANTS MaxLen, Alphabet, Bases, Emit

VARIABLES text0,   \* the whole text (sequence of character classes)
          base,    \* the offset given to with_offset
          mode,    \* "iter" (double ended) or "trailing" (NewlineWithTrailingNewline)
          lo, hi,  \* remaining slice [lo, hi) in character positions
          offF, offB, \* the iterator's own byte offsets (self.offset / self.offset_back)
          hist,    \* yielded lines in call order: [side, s, e, nl] with byte offsets s,e and nl bytes
          trail    \* trailing mode: the pending extra line (TRUE until taken)
vars == <<text0, base, mode, lo, hi, offF, offB, hist, trail>>

Texts == UNION {[1..n -> Alphabet] : n \in 0..MaxLen}

Init == /\ text0 \in Texts
        /\ base \in Bases
        /\ mode \in {"iter", "trailing"}
        /\ lo = 1 /\ hi = Len(text0) + 1
        /\ offF = base /\ offB = base + ByteLen(text0)
        /\ hist = <<>>
        /\ trail = (mode = "trailing" /\ Len(text0) > 0 /\ IsNL(text0[Len(text0)]))

Empty == lo >= hi
SliceBytes(a, b) == ByteOff(text0, b) - ByteOff(text0, a)

\* find_newline on the remaining slice: first LF/CR and the length of the ending
FirstNL == LET S == {i \in lo..(hi-1) : IsNL(text0[i])} IN IF S = {} THEN 0 ELSE Min(S)
EndingLen(i) == IF text0[i] = "CR" /\ i + 1 < hi /\ text0[i+1] = "LF" THEN 2 ELSE 1

\* Line::as_str: strip one trailing line break from the yielded slice [a, b)
NlOf(a, b) == IF b - 1 >= a /\ text0[b-1] = "LF" THEN (IF b - 2 >= a /\ text0[b-2] = "CR" THEN 2 ELSE 1)
              ELSE IF b - 1 >= a /\ text0[b-1] = "CR" THEN 1 ELSE 0

Rec(side, off, a, b) == [side |-> side, s |-> off, e |-> off + SliceBytes(a, b), nl |-> NlOf(a, b), a |-> a, b |-> b]

NextF == /\ ~Empty
         /\ LET p == FirstNL IN
            IF p # 0 THEN LET e == p + EndingLen(p) IN
                 /\ hist' = Append(hist, Rec("F", offF, lo, e))
                 /\ lo' = e /\ offF' = offF + SliceBytes(lo, e)
            ELSE /\ hist' = Append(hist, Rec("F", offF, lo, hi))
                 /\ lo' = hi /\ offF' = offF
         /\ UNCHANGED <<text0, base, mode, hi, offB, trail>>

NextB == /\ ~Empty /\ mode = "iter"
         /\ LET len == hi - lo
                last == text0[hi-1]
                hend == IF last = "LF" /\ len > 1 /\ text0[hi-2] = "CR" THEN hi - 2
                        ELSE IF IsNL(last) THEN hi - 1 ELSE hi
                S == {i \in lo..(hend-1) : IsNL(text0[i])}
            IN IF S # {} THEN LET p == Max(S) IN
                    /\ offB' = offB - SliceBytes(p+1, hi)
                    /\ hist' = Append(hist, Rec("B", offB - SliceBytes(p+1, hi), p+1, hi))
                    /\ hi' = p + 1
               ELSE /\ hist' = Append(hist, Rec("B", offB - SliceBytes(lo, hi), lo, hi))
                    /\ hi' = lo /\ offB' = offB
         /\ UNCHANGED <<text0, base, mode, lo, offF, trail>>

\* NewlineWithTrailingNewline: after the underlying iterator is exhausted, the extra empty line
TrailF == /\ Empty /\ trail
          /\ hist' = Append(hist, [side |-> "F", s |-> base + ByteLen(text0), e |-> base + ByteLen(text0), nl |-> 0,
                                   a |-> Len(text0)+1, b |-> Len(text0)+1])
          /\ trail' = FALSE
          /\ UNCHANGED <<text0, base, mode, lo, hi, offF, offB>>

Next == NextF \/ NextB \/ TrailF
Spec == Init /\ [][Next]_vars

-----------------------------------------------------------------------
\* Properties (M): the machine agrees with the declarative definition.
Rev(s) == [i \in 1..Len(s) |-> s[Len(s)+1-i]]
Fronts == SelectSeq(hist, LAMBDA r : r.side = "F" /\ r.a <= Len(text0))
Backs == SelectSeq(hist, LAMBDA r : r.side = "B")
AsPairs(s) == [i \in 1..Len(s) |-> <<s[i].a, s[i].b>>]
Remaining == LinesFrom([i \in 1..(hi-1) |-> text0[i]], lo)

\* at every point: lines taken from the front ++ lines of the remaining slice ++ reversed back lines = Lines(text)
Consistent == AsPairs(Fronts) \o Remaining \o Rev(AsPairs(Backs)) = Lines(text0)
\* every yielded record carries the byte offsets of its slice (relative to base) and the right line-break length
OffsetsOK == \A i \in 1..Len(hist) :
                /\ hist[i].s = base + ByteOff(text0, hist[i].a)
                /\ hist[i].e = base + ByteOff(text0, hist[i].b)
                /\ hist[i].a <= Len(text0) => hist[i].nl = NlChars(text0, <<hist[i].a, hist[i].b>>)
\* iterator's own cursors stay ordered and inside the text
CursorsOK == base <= offF /\ offF <= offB /\ offB <= base + ByteLen(text0)
Done == Empty /\ ~trail
\* exhausted: the yielded slices tile the text exactly
TilesOK == Done => LET all == AsPairs(Fronts) \o Rev(AsPairs(Backs)) IN
                   /\ all = Lines(text0)
                   /\ (mode = "trailing" /\ Len(text0) > 0 /\ IsNL(text0[Len(text0)]))
                        => hist[Len(hist)].a = Len(text0) + 1

\* Generation (G): one REPLAY line per exhausted behaviour.
EmitOK == (Emit /\ Done) =>
   PrintT("REPLAY" \o ToJson([fam |-> "nl_iter", text |-> text0, base |-> base, mode |-> mode,
            calls |-> [i \in 1..Len(hist) |-> [side |-> hist[i].side, s |-> hist[i].s, e |-> hist[i].e, nl |-> hist[i].nl]]]))
=======================================================================

---------------------------- MODULE Lines ----------------------------
(* Declarative definition of the lines, rows and columns of a text.           *)
(* A text is a sequence of character classes:                                 *)
(*   "a"  one-byte character, "e2"/"e3"/"e4" multi-byte characters,           *)
(*   "LF", "CR" line break characters, "BOM" U+FEFF (three bytes).            *)
(* Nothing here looks like the implementation: lines are defined by the set   *)
(* of positions after which a line ends.                                      *)
EXTENDS Naturals, Sequences, FiniteSets

Bytes(c) == CASE c = "e2" -> 2 [] c = "e3" -> 3 [] c = "BOM" -> 3 [] c = "e4" -> 4 [] OTHER -> 1
IsNL(c) == c \in {"LF", "CR"}

\* TRUE iff a line ends right after character position i of t
LineEndAt(t, i) ==
   \/ t[i] = "LF"
   \/ t[i] = "CR" /\ ~(i < Len(t) /\ t[i+1] = "LF")
Ends(t) == {i \in 1..Len(t) : LineEndAt(t, i)}

Min(S) == CHOOSE x \in S : \A y \in S : x <= y
Max(S) == CHOOSE x \in S : \A y \in S : x >= y

\* Lines of t as <<start, endExclusive>> character positions; a text that ends in a
\* line break has no further (empty) line here -- that is the iterator's view.
RECURSIVE LinesFrom(_, _)
LinesFrom(t, s) ==
   IF s > Len(t) THEN <<>>
   ELSE LET later == {i \in Ends(t) : i >= s} IN
        IF later = {} THEN << <<s, Len(t)+1>> >>
        ELSE LET e == Min(later) IN << <<s, e+1>> >> \o LinesFrom(t, e+1)
Lines(t) == LinesFrom(t, 1)

\* The line-index view: one more (possibly empty) line after every line break.
IndexLines(t) ==
   LET L == Lines(t) IN
   IF t = <<>> THEN << <<1, 1>> >>
   ELSE IF LineEndAt(t, Len(t)) THEN Append(L, <<Len(t)+1, Len(t)+1>>) ELSE L

\* byte offset of character position i (1-based); ByteOff(t, Len(t)+1) is the byte length
RECURSIVE ByteOff(_, _)
ByteOff(t, i) == IF i <= 1 THEN 0 ELSE ByteOff(t, i-1) + Bytes(t[i-1])
ByteLen(t) == ByteOff(t, Len(t)+1)

\* number of characters of the line break that terminates line <<s,e>> (0, 1 or 2)
NlChars(t, ln) ==
   LET s == ln[1] e == ln[2] IN
   IF e - 1 >= s /\ t[e-1] = "LF" THEN (IF e - 2 >= s /\ t[e-2] = "CR" THEN 2 ELSE 1)
   ELSE IF e - 1 >= s /\ t[e-1] = "CR" THEN 1 ELSE 0

\* Row (1-based) of character position i (i in 1..Len+1): 1 + number of line ends before i
RowOf(t, i) == 1 + Cardinality({j \in Ends(t) : j < i})
\* first character position of the row containing position i
RowStart(t, i) == LET S == {j \in Ends(t) : j < i} IN IF S = {} THEN 1 ELSE Max(S) + 1
\* Column (1-based, in characters) of position i; a BOM at the very start is not counted
ColOf(t, i) ==
   LET rs == RowStart(t, i)
       bom == IF rs = 1 /\ Len(t) >= 1 /\ t[1] = "BOM" /\ i > 1 THEN 1 ELSE 0
   IN (i - rs) - bom + 1
=======================================================================

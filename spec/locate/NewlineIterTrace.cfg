CONSTANTS
  MaxLen = 0
  Alphabet = {"a"}
  Bases = {0}
  Emit = FALSE
SPECIFICATION TSpec
INVARIANTS Consistent OffsetsOK CursorsOK
POSTCONDITION TraceAccepted
CHECK_DEADLOCK FALSE

----------------------- MODULE NewlineIterTrace -----------------------
(* Trace validation (implementation -> specification) for the newline        *)
(* iterator: every recorded call of the real iterator must be an enabled     *)
(* step of NewlineIter with exactly the recorded result.                     *)
EXTENDS NewlineIter, IOUtils
Log == ndJsonDeserialize(IOEnv.TRACE)
VARIABLE l
tvars == <<vars, l>>

Load(ev) == /\ text0' = ev.text /\ base' = ev.base /\ mode' = "iter"
            /\ lo' = 1 /\ hi' = Len(ev.text) + 1
            /\ offF' = ev.base /\ offB' = ev.base + ByteLen(ev.text)
            /\ hist' = <<>> /\ trail' = FALSE

TInit == /\ Log[1].ev = "init" /\ l = 2
         /\ text0 = Log[1].text /\ base = Log[1].base /\ mode = "iter"
         /\ lo = 1 /\ hi = Len(Log[1].text) + 1
         /\ offF = Log[1].base /\ offB = Log[1].base + ByteLen(Log[1].text)
         /\ hist = <<>> /\ trail = FALSE

IsEvent(e) == l <= Len(Log) /\ Log[l].ev = e /\ l' = l + 1
Matches(r, ev) == r.side = ev.side /\ r.s = ev.s /\ r.e = ev.e /\ r.nl = ev.nl

TReset == IsEvent("init") /\ Load(Log[l])
TLineF == IsEvent("line") /\ Log[l].side = "F" /\ NextF /\ Matches(hist'[Len(hist')], Log[l])
TLineB == IsEvent("line") /\ Log[l].side = "B" /\ NextB /\ Matches(hist'[Len(hist')], Log[l])
TNone == IsEvent("none") /\ Empty /\ UNCHANGED vars

TNext == TReset \/ TLineF \/ TLineB \/ TNone
TSpec == TInit /\ [][TNext]_tvars

TraceAccepted ==
   LET d == TLCGet("stats").diameter IN
   IF d = Len(Log) THEN TRUE
   ELSE /\ PrintT("UNMATCHED at " \o ToString(d + 1))
        /\ FALSE
=======================================================================

CONSTANTS
  MaxLen = 0
  Alphabet = {"a"}
  MaxCalls = 1000000
  Emit = FALSE
  Forward = TRUE
SPECIFICATION TSpec
INVARIANTS Report
POSTCONDITION TraceAccepted
CHECK_DEADLOCK FALSE

CONSTANTS
  MaxLen = 5
  Alphabet = {"a", "e2", "LF", "CR", "BOM"}
  BomFirst = TRUE
  Emit = TRUE
SPECIFICATION Spec
INVARIANTS CountOK LinesOK PartitionOK LocOK EmitOK
CHECK_DEADLOCK FALSE

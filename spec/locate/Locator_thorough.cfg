CONSTANTS
  MaxLen = 5
  Alphabet = {"a", "e3", "LF", "CR", "BOM"}
  MaxCalls = 3
  Emit = TRUE
  Forward = TRUE
SPECIFICATION Spec
INVARIANTS AnswersOK NoArithmeticError StateOK EmitOK
CHECK_DEADLOCK FALSE

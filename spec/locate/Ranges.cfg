CONSTANTS
  Emit = TRUE
SPECIFICATION Spec
INVARIANTS AgreeOK LawsOK EmitOK
CHECK_DEADLOCK FALSE

-------------------------- MODULE LineIndex --------------------------
(* LineIndex::from_source_text as a scanning machine (one step per character) *)
(* and the queries of LineIndex / SourceCode as operators on the table it     *)
(* builds, checked against the declarative rows/columns of Lines.tla.         *)
EXTENDS Lines, TLC, Json
CONSTANTS MaxLen, Alphabet, Emit, BomFirst

VARIABLES text0, i, starts, utf8
vars == <<text0, i, starts, utf8>>

\* BOM may only be the first character (anywhere else it is an ordinary 3-byte character = "e3")
Texts == LET Plain == Alphabet \ {"BOM"} IN
         UNION {[1..n -> Plain] : n \in 0..MaxLen}
         \cup (IF BomFirst THEN UNION { {<<"BOM">> \o t : t \in [1..n -> Plain]} : n \in 0..(MaxLen-1) } ELSE {})

Init == text0 \in Texts /\ i = 1 /\ starts = <<0>> /\ utf8 = FALSE

\* one iteration of the byte loop, taken per character (continuation bytes only set utf8)
Scan == /\ i <= Len(text0)
        /\ LET c == text0[i] IN
           /\ utf8' = (utf8 \/ Bytes(c) > 1)
           /\ starts' = IF c = "CR" /\ i < Len(text0) /\ text0[i+1] = "LF" THEN starts
                        ELSE IF IsNL(c) THEN Append(starts, ByteOff(text0, i) + 1)
                        ELSE starts
        /\ i' = i + 1
        /\ UNCHANGED text0
Next == Scan
Spec == Init /\ [][Next]_vars
Built == i > Len(text0)

-----------------------------------------------------------------------
\* Queries as the code computes them from `starts` (mirror).
\* binary_search: <<"Ok", idx0>> when offset is in the table, else <<"Err", insertion idx0>>
BinSearch(o) == LET eq == {k \in 1..Len(starts) : starts[k] = o} IN
                IF eq # {} THEN <<"Ok", Min(eq) - 1>>
                ELSE <<"Err", Cardinality({k \in 1..Len(starts) : starts[k] < o})>>
MLineIndex(o) == LET r == BinSearch(o) IN IF r[1] = "Ok" THEN r[2] + 1 ELSE r[2]   \* one-indexed
\* character position of a byte offset that is a character boundary
PosOf(o) == CHOOSE p \in 1..(Len(text0)+1) : ByteOff(text0, p) = o
MLoc(o) == LET r == BinSearch(o) IN
           IF r[1] = "Ok" THEN <<r[2] + 1, 1>>
           ELSE LET row0 == r[2] - 1
                    ls0 == starts[row0 + 1]
                    ls == IF ~utf8 THEN ls0
                          ELSE IF ls0 = 0 /\ Len(text0) >= 1 /\ text0[1] = "BOM" THEN 3 ELSE ls0
                    col0 == IF ~utf8 THEN o - ls0 ELSE PosOf(o) - PosOf(ls)
                IN <<row0 + 1, col0 + 1>>
MLineStart(l) == IF l - 1 = Len(starts) THEN ByteLen(text0) ELSE starts[l]
MLineEnd(l) == IF l >= Len(starts) THEN ByteLen(text0) ELSE starts[l + 1]
MLineRange(l) == IF Len(starts) = l - 1 THEN <<ByteLen(text0), ByteLen(text0)>>
                 ELSE <<MLineStart(l), MLineStart(l + 1)>>

\* Declarative side
DLines == IndexLines(text0)
DStart(l) == ByteOff(text0, DLines[l][1])
DEnd(l) == ByteOff(text0, DLines[l][2])
Boundaries == {ByteOff(text0, p) : p \in 1..(Len(text0)+1)}

\* M: the table and every query agree with the declarative definition
CountOK == Built => /\ Len(starts) = Len(DLines)
                    /\ Len(starts) = Cardinality(Ends(text0)) + 1
LinesOK == Built => \A l \in 1..Len(DLines) :
                      /\ MLineStart(l) = DStart(l) /\ MLineEnd(l) = DEnd(l)
                      /\ MLineRange(l) = <<DStart(l), DEnd(l)>>
PartitionOK == Built => /\ DStart(1) = 0 /\ DEnd(Len(DLines)) = ByteLen(text0)
                        /\ \A l \in 1..(Len(DLines)-1) : DEnd(l) = DStart(l+1)
LocOK == Built => \A p \in 1..(Len(text0)+1) :
                    LET o == ByteOff(text0, p) IN
                    /\ MLineIndex(o) = RowOf(text0, p)
                    /\ MLoc(o) = <<RowOf(text0, p), ColOf(text0, p)>>
                    \* the reported line's span contains the offset
                    /\ DStart(RowOf(text0, p)) <= o /\ o <= DEnd(RowOf(text0, p))

EmitOK == (Emit /\ Built) =>
   PrintT("REPLAY" \o ToJson([fam |-> "line_index", text |-> text0,
             lines |-> [l \in 1..Len(DLines) |-> <<DStart(l), DEnd(l)>>],
             locs |-> [p \in 1..(Len(text0)+1) |-> <<ByteOff(text0, p), RowOf(text0, p), ColOf(text0, p)>>]]))
=======================================================================

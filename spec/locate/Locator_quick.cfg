CONSTANTS
  MaxLen = 4
  Alphabet = {"a", "e2", "LF", "CR", "BOM"}
  MaxCalls = 3
  Emit = TRUE
  Forward = TRUE
SPECIFICATION Spec
INVARIANTS AnswersOK NoArithmeticError StateOK EmitOK
CHECK_DEADLOCK FALSE

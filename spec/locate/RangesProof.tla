--------------------------- MODULE RangesProof ---------------------------
(* C15 (range algebra clause), unbounded: the laws that Ranges.tla model-checks on the abstract offset set
   {0..3} u {high four} are proved here for all natural-number offsets with TLAPS (SMT back end).
   A range is a pair <<s, e>> with s <= e; the operations are the ones of vendored/src/text_size/range.rs
   (contains, contains_inclusive, contains_range, intersect, cover, ordering, checked add / sub without the 2^32
   bound, which Ranges.tla handles on the boundary values). *)
EXTENDS Naturals, TLAPS

Min2(p, q) == IF p <= q THEN p ELSE q
Max2(p, q) == IF p >= q THEN p ELSE q

IsRange(s, e) == s \in Nat /\ e \in Nat /\ s <= e
Contains(s, e, o) == s <= o /\ o < e
ContainsIncl(s, e, o) == s <= o /\ o <= e
ContainsRange(s, e, s2, e2) == s <= s2 /\ e2 <= e
\* intersect: Some(<<IS, IE>>) when HasIntersect
IS(s, e, s2, e2) == Max2(s, s2)
IE(s, e, s2, e2) == Min2(e, e2)
HasIntersect(s, e, s2, e2) == ~(IE(s, e, s2, e2) < IS(s, e, s2, e2))
CS(s, e, s2, e2) == Min2(s, s2)
CE(s, e, s2, e2) == Max2(e, e2)
Before(s, e, s2, e2) == e <= s2          \* Ordering::Less

THEOREM IntersectCommutes ==
  \A s, e, s2, e2 \in Nat :
     /\ IS(s, e, s2, e2) = IS(s2, e2, s, e)
     /\ IE(s, e, s2, e2) = IE(s2, e2, s, e)
     /\ HasIntersect(s, e, s2, e2) <=> HasIntersect(s2, e2, s, e)
  BY DEF IS, IE, HasIntersect, Min2, Max2

THEOREM CoverCommutes ==
  \A s, e, s2, e2 \in Nat : CS(s, e, s2, e2) = CS(s2, e2, s, e) /\ CE(s, e, s2, e2) = CE(s2, e2, s, e)
  BY DEF CS, CE, Min2, Max2

\* cover is a range, contains both operands, and is the smallest such range
THEOREM CoverIsLeastUpperBound ==
  \A s, e, s2, e2 \in Nat : IsRange(s, e) /\ IsRange(s2, e2) =>
     /\ IsRange(CS(s, e, s2, e2), CE(s, e, s2, e2))
     /\ ContainsRange(CS(s, e, s2, e2), CE(s, e, s2, e2), s, e)
     /\ ContainsRange(CS(s, e, s2, e2), CE(s, e, s2, e2), s2, e2)
     /\ \A cs, ce \in Nat : (ContainsRange(cs, ce, s, e) /\ ContainsRange(cs, ce, s2, e2)) => ContainsRange(cs, ce, CS(s, e, s2, e2), CE(s, e, s2, e2))
  BY DEF IsRange, ContainsRange, CS, CE, Min2, Max2

\* intersect, when it exists, is a range inside both operands and the largest such range
THEOREM IntersectIsGreatestLowerBound ==
  \A s, e, s2, e2 \in Nat : IsRange(s, e) /\ IsRange(s2, e2) /\ HasIntersect(s, e, s2, e2) =>
     /\ IsRange(IS(s, e, s2, e2), IE(s, e, s2, e2))
     /\ ContainsRange(s, e, IS(s, e, s2, e2), IE(s, e, s2, e2))
     /\ ContainsRange(s2, e2, IS(s, e, s2, e2), IE(s, e, s2, e2))
     /\ \A cs, ce \in Nat : (IsRange(cs, ce) /\ ContainsRange(s, e, cs, ce) /\ ContainsRange(s2, e2, cs, ce)) => ContainsRange(IS(s, e, s2, e2), IE(s, e, s2, e2), cs, ce)
  BY DEF IsRange, ContainsRange, IS, IE, HasIntersect, Min2, Max2

\* the set reading: an offset is in the intersection exactly when it is in both; shared offsets imply an intersection
THEOREM IntersectIsSetIntersection ==
  \A s, e, s2, e2, o \in Nat : IsRange(s, e) /\ IsRange(s2, e2) =>
     /\ (Contains(s, e, o) /\ Contains(s2, e2, o)) => HasIntersect(s, e, s2, e2)
     /\ HasIntersect(s, e, s2, e2) => (Contains(IS(s, e, s2, e2), IE(s, e, s2, e2), o) <=> (Contains(s, e, o) /\ Contains(s2, e2, o)))
     /\ ~HasIntersect(s, e, s2, e2) => ~(ContainsIncl(s, e, o) /\ ContainsIncl(s2, e2, o))
  BY DEF IsRange, Contains, ContainsIncl, IS, IE, HasIntersect, Min2, Max2

\* contains_range is containment of the spanned offsets (for non-empty inner ranges it is equivalent)
THEOREM ContainsRangeIsSubset ==
  \A s, e, s2, e2 \in Nat : IsRange(s, e) /\ IsRange(s2, e2) =>
     /\ ContainsRange(s, e, s2, e2) => \A o \in Nat : Contains(s2, e2, o) => Contains(s, e, o)
     /\ (s2 < e2 /\ \A o \in Nat : Contains(s2, e2, o) => Contains(s, e, o)) => ContainsRange(s, e, s2, e2)
PROOF
  <1> SUFFICES ASSUME NEW s \in Nat, NEW e \in Nat, NEW s2 \in Nat, NEW e2 \in Nat, IsRange(s, e), IsRange(s2, e2)
               PROVE /\ ContainsRange(s, e, s2, e2) => \A o \in Nat : Contains(s2, e2, o) => Contains(s, e, o)
                     /\ (s2 < e2 /\ \A o \in Nat : Contains(s2, e2, o) => Contains(s, e, o)) => ContainsRange(s, e, s2, e2)
    OBVIOUS
  <1>1. ContainsRange(s, e, s2, e2) => \A o \in Nat : Contains(s2, e2, o) => Contains(s, e, o)
    BY DEF IsRange, ContainsRange, Contains
  <1>2. (s2 < e2 /\ \A o \in Nat : Contains(s2, e2, o) => Contains(s, e, o)) => ContainsRange(s, e, s2, e2)
    <2> SUFFICES ASSUME s2 < e2, \A o \in Nat : Contains(s2, e2, o) => Contains(s, e, o) PROVE ContainsRange(s, e, s2, e2)
      OBVIOUS
    <2>1. Contains(s2, e2, s2) /\ Contains(s2, e2, e2 - 1)
      BY DEF IsRange, Contains
    <2>2. e2 - 1 \in Nat
      BY DEF IsRange
    <2>3. Contains(s, e, s2) /\ Contains(s, e, e2 - 1)
      BY <2>1, <2>2
    <2> QED BY <2>3 DEF IsRange, ContainsRange, Contains
  <1> QED BY <1>1, <1>2

\* ordering: strictly-before is asymmetric on non-empty ranges, and disjointness is what it means
THEOREM OrderingLaws ==
  \A s, e, s2, e2 \in Nat : IsRange(s, e) /\ IsRange(s2, e2) =>
     /\ (Before(s, e, s2, e2) /\ s < e /\ s2 < e2) => ~Before(s2, e2, s, e)
     /\ Before(s, e, s2, e2) => \A o \in Nat : ~(Contains(s, e, o) /\ Contains(s2, e2, o))
     /\ (s < e /\ s2 < e2 /\ ~Before(s, e, s2, e2) /\ ~Before(s2, e2, s, e)) => \E o \in Nat : Contains(s, e, o) /\ Contains(s2, e2, o)
PROOF
  <1> SUFFICES ASSUME NEW s \in Nat, NEW e \in Nat, NEW s2 \in Nat, NEW e2 \in Nat, IsRange(s, e), IsRange(s2, e2)
               PROVE /\ (Before(s, e, s2, e2) /\ s < e /\ s2 < e2) => ~Before(s2, e2, s, e)
                     /\ Before(s, e, s2, e2) => \A o \in Nat : ~(Contains(s, e, o) /\ Contains(s2, e2, o))
                     /\ (s < e /\ s2 < e2 /\ ~Before(s, e, s2, e2) /\ ~Before(s2, e2, s, e)) => \E o \in Nat : Contains(s, e, o) /\ Contains(s2, e2, o)
    OBVIOUS
  <1>1. (Before(s, e, s2, e2) /\ s < e /\ s2 < e2) => ~Before(s2, e2, s, e)
    BY DEF IsRange, Before
  <1>2. Before(s, e, s2, e2) => \A o \in Nat : ~(Contains(s, e, o) /\ Contains(s2, e2, o))
    BY DEF IsRange, Before, Contains
  <1>3. (s < e /\ s2 < e2 /\ ~Before(s, e, s2, e2) /\ ~Before(s2, e2, s, e)) => \E o \in Nat : Contains(s, e, o) /\ Contains(s2, e2, o)
    <2> SUFFICES ASSUME s < e, s2 < e2, ~Before(s, e, s2, e2), ~Before(s2, e2, s, e) PROVE \E o \in Nat : Contains(s, e, o) /\ Contains(s2, e2, o)
      OBVIOUS
    <2>1. Max2(s, s2) \in Nat /\ Contains(s, e, Max2(s, s2)) /\ Contains(s2, e2, Max2(s, s2))
      BY DEF IsRange, Before, Contains, Max2
    <2> QED BY <2>1
  <1> QED BY <1>1, <1>2, <1>3

\* shifting: adding an offset and subtracting it again gives the range back; shifting preserves the length
THEOREM ShiftLaws ==
  \A s, e, o \in Nat : IsRange(s, e) =>
     /\ IsRange(s + o, e + o)
     /\ (s + o) - o = s /\ (e + o) - o = e
     /\ (e + o) - (s + o) = e - s
     /\ o <= s => (IsRange(s - o, e - o) /\ (s - o) + o = s /\ (e - o) + o = e)
  BY DEF IsRange
=============================================================================

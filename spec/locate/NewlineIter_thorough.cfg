CONSTANTS
  MaxLen = 7
  Alphabet = {"a", "e3", "LF", "CR"}
  Bases = {0, 7}
  Emit = TRUE
SPECIFICATION Spec
INVARIANTS Consistent OffsetsOK CursorsOK TilesOK EmitOK
CHECK_DEADLOCK FALSE

--------------------------- MODULE Locator ---------------------------
(* LinearLocator (core/src/source_code.rs) as a machine: state                *)
(* {line_start, line_end, line_number, cursor, is_ascii}; actions locate(o)   *)
(* (advances) and locate_only(o) (look-ahead).  Checked against the           *)
(* declarative row/column of Lines.tla, which is also what RandomLocator      *)
(* (LineIndex) must return.  Offsets are character positions p (1-based);     *)
(* byte arithmetic is kept where the code does byte arithmetic.               *)
EXTENDS Lines, Integers, TLC, Json
CONSTANTS MaxLen, Alphabet, MaxCalls, Emit, Forward   \* Forward: enforce the cursor <= offset precondition

VARIABLES text0, ls, le, ln, cur, asc, calls, err
vars == <<text0, ls, le, ln, cur, asc, calls, err>>
\* ls, le, cur are character positions (le = 0 encodes None); ln the line number; asc the is_ascii flag

Plain == Alphabet \ {"BOM"}
Texts == UNION {[1..n -> Plain] : n \in 0..MaxLen}
         \cup (IF "BOM" \in Alphabet THEN UNION { {<<"BOM">> \o t : t \in [1..n -> Plain]} : n \in 0..(MaxLen-1) } ELSE {})

AllAscii(t, a, b) == \A k \in a..(b-1) : Bytes(t[k]) = 1      \* positions [a, b)
\* find_newline(source[from..]): <<position of first LF/CR or 0, position after the line ending>>
FindNL(t, from) == LET S == {k \in from..Len(t) : IsNL(t[k])} IN
                   IF S = {} THEN <<0, 0>>
                   ELSE LET p == Min(S) IN <<p, IF t[p] = "CR" /\ p < Len(t) /\ t[p+1] = "LF" THEN p + 2 ELSE p + 1>>

InitState(t) ==
   LET start == IF Len(t) >= 1 /\ t[1] = "BOM" THEN 2 ELSE 1
       f == FindNL(t, 1)
   IN [ls |-> start, le |-> f[2], ln |-> 1, cur |-> start,
       asc |-> IF f[1] # 0 THEN AllAscii(t, 1, f[1]) ELSE AllAscii(t, 1, Len(t) + 1)]

Init == /\ text0 \in Texts
        /\ LET s == InitState(text0) IN ls = s.ls /\ le = s.le /\ ln = s.ln /\ cur = s.cur /\ asc = s.asc
        /\ calls = <<>> /\ err = "none"

\* a position that is a legitimate node/error offset: a character boundary that does not split CR LF
Legit(p) == p \in 1..(Len(text0)+1) /\ ~(p > 1 /\ p <= Len(text0) /\ text0[p-1] = "CR" /\ text0[p] = "LF")

\* locate_inner(offset at position p): [col (0-based), same, st (state after a locate), e (arithmetic error)]
Inner(p) ==
   LET t == text0 IN
   IF le # 0 /\ le <= p
   THEN \* not fit in current line
        LET S == {k \in le..(p-1) : IsNL(t[k])}
            found == S # {}
            lastNL == IF found THEN Max(S) ELSE 0
            lines == IF found THEN (IF cur <= lastNL THEN Len(Lines(SubSeq(t, cur, lastNL))) ELSE -1000) ELSE 1
            nls == IF found THEN lastNL + 1 ELSE le
            colB == ByteOff(t, p) - ByteOff(t, nls)
            f == FindNL(t, nls)
            nasc == IF f[1] # 0 THEN AllAscii(t, nls, f[1]) ELSE AllAscii(t, nls, Len(t) + 1)
            st == [ls |-> nls, le |-> f[2], ln |-> ln + lines, cur |-> p, asc |-> nasc]
            col == IF nasc THEN colB ELSE p - nls
        IN [col |-> col, same |-> FALSE, st |-> st, e |-> IF lines < 0 THEN "slice" ELSE "none"]
   ELSE LET colB == ByteOff(t, p) - ByteOff(t, ls)
            col == IF asc THEN colB ELSE p - ls
        IN [col |-> col, same |-> TRUE, st |-> [ls |-> ls, le |-> le, ln |-> ln, cur |-> p, asc |-> asc],
            e |-> IF colB < 0 THEN "underflow" ELSE "none"]

Result(p, r) == [o |-> ByteOff(text0, p), row |-> r.st.ln, col |-> r.col + 1]

Can == err = "none" /\ Len(calls) < MaxCalls

Locate(p) ==
   /\ Can /\ Legit(p) /\ (Forward => cur <= p)
   /\ LET r == Inner(p) IN
      /\ err' = r.e
      /\ calls' = Append(calls, [only |-> FALSE] @@ Result(p, r))
      /\ ls' = r.st.ls /\ le' = r.st.le /\ ln' = r.st.ln /\ cur' = p /\ asc' = r.st.asc
   /\ UNCHANGED text0

LocateOnly(p) ==
   /\ Can /\ Legit(p) /\ (Forward => cur <= p)
   /\ LET r == Inner(p) IN
      /\ err' = r.e
      /\ calls' = Append(calls, [only |-> TRUE] @@ Result(p, r))
   /\ UNCHANGED <<text0, ls, le, ln, cur, asc>>

Next == \E p \in 1..(MaxLen+1) : Locate(p) \/ LocateOnly(p)
Spec == Init /\ [][Next]_vars

-----------------------------------------------------------------------
PosOfByte(o) == CHOOSE p \in 1..(Len(text0)+1) : ByteOff(text0, p) = o
\* M: every answer of the linear locator is the declarative row/column (= what the indexed locator must give)
AnswersOK == \A k \in 1..Len(calls) :
                LET p == PosOfByte(calls[k].o) IN
                calls[k].row = RowOf(text0, p) /\ calls[k].col = ColOf(text0, p)
NoArithmeticError == err = "none"
\* the state invariant that makes the forward-only scheme work: the cursor's line is the state's line
StateOK == err = "none" =>
             /\ ls <= cur
             /\ ln = RowOf(text0, cur)
             /\ (le = 0 \/ cur <= le)

Done == Len(calls) = MaxCalls \/ err # "none"
EmitOK == (Emit /\ Done) =>
   PrintT("REPLAY" \o ToJson([fam |-> "locate", text |-> text0, err |-> err,
        calls |-> [k \in 1..Len(calls) |->
                     [only |-> calls[k].only, o |-> calls[k].o,
                      row |-> RowOf(text0, PosOfByte(calls[k].o)), col |-> ColOf(text0, PosOfByte(calls[k].o))]]]))
=======================================================================

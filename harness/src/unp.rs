//! Unparse round trip (C11): parse an expression, render it, parse the rendering, render again.
use crate::canon::debug_to_json;
use crate::syn::err_json;
use rustpython_ast as ast;
use rustpython_parser::{lexer, Mode, Parse};
use serde_json::{json, Value};

fn tok_strings(src: &str) -> Value {
    let mut out = vec![];
    for r in lexer::lex(src, Mode::Expression) {
        match r {
            Ok((t, _)) => out.push(json!(format!("{:?}", t))),
            Err(e) => {
                out.push(json!(format!("ERR {:?}", e.error)));
                break;
            }
        }
    }
    Value::Array(out)
}

/// texts of the replacement-field expressions and of the literal pieces of every f-string in the tree
/// (used to label the known limitation of the f-string renderer, not to decide anything)
struct FParts {
    exprs: Vec<String>,
    lits: Vec<String>,
}
impl ast::Visitor for FParts {
    fn visit_expr_joined_str(&mut self, node: ast::ExprJoinedStr) {
        for v in &node.values {
            match v {
                ast::Expr::FormattedValue(fv) => self.exprs.push(format!("{}", fv.value)),
                ast::Expr::Constant(c) => {
                    if let ast::Constant::Str(s) = &c.value {
                        self.lits.push(s.clone())
                    }
                }
                _ => {}
            }
        }
        self.generic_visit_expr_joined_str(node)
    }
}

/// {src, expect?} -> {tree1, text1, toks1, (expect_toks), reparse: {ok: tree2} | {err}, text2} | {err}
pub fn unparse(req: &Value) -> Value {
    let src = req["src"].as_str().unwrap();
    let e1 = match ast::Expr::parse(src, "<v>") {
        Ok(e) => e,
        Err(e) => return json!({"err": err_json(&e)}),
    };
    let text1 = format!("{}", e1);
    let mut out = json!({"tree1": debug_to_json(&format!("{:?}", e1)), "text1": text1, "toks1": tok_strings(&text1)});
    if text1.contains("f'") || text1.contains("f\"") {
        use ast::Visitor;
        let mut fp = FParts { exprs: vec![], lits: vec![] };
        fp.visit_expr(e1.clone());
        out["fexprs"] = json!(fp.exprs);
        out["flits"] = json!(fp.lits);
    }
    if let Some(x) = req["expect"].as_str() {
        out["expect_toks"] = tok_strings(x);
    }
    match ast::Expr::parse(&text1, "<v>") {
        Ok(e2) => {
            out["reparse"] = json!({"ok": debug_to_json(&format!("{:?}", e2))});
            out["text2"] = json!(format!("{}", e2));
        }
        Err(e) => out["reparse"] = json!({"err": err_json(&e)}),
    }
    out
}

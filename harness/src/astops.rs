//! AST-level operations: parameter-list conversions (C14), fold/visitor/optimizer (C12), unparse (C11).
use crate::canon::debug_to_json;
use rustpython_ast as ast;
use serde_json::{json, Value};

/// {src: "def f(...): pass"} -> the Arguments of the first statement in both forms and back
pub fn args_conv(req: &Value) -> Value {
    let src = req["src"].as_str().unwrap();
    let m = match rustpython_parser::parse(src, rustpython_parser::Mode::Module, "<verif>") {
        Ok(ast::Mod::Module(m)) => m,
        Ok(_) => return json!({"tool_error": "not a module"}),
        Err(e) => return json!({"err": crate::syn::err_json(&e)}),
    };
    let args: ast::Arguments = match m.body.into_iter().next() {
        Some(ast::Stmt::FunctionDef(f)) => *f.args,
        Some(ast::Stmt::AsyncFunctionDef(f)) => *f.args,
        Some(ast::Stmt::Expr(e)) => match *e.value {
            ast::Expr::Lambda(l) => *l.args,
            _ => return json!({"tool_error": "no arguments"}),
        },
        _ => return json!({"tool_error": "no arguments"}),
    };
    let to_py = args.to_python_arguments();
    let into_py = args.clone().into_python_arguments();
    let from_py: ast::PythonArguments = ast::PythonArguments::from(args.clone());
    let back = to_py.clone().into_arguments();
    json!({
        "orig": debug_to_json(&format!("{:?}", args)),
        "to_py": debug_to_json(&format!("{:?}", to_py)),
        "into_py": debug_to_json(&format!("{:?}", into_py)),
        "from_py": debug_to_json(&format!("{:?}", from_py)),
        "back": debug_to_json(&format!("{:?}", back)),
        "back_eq_orig": back == args,
    })
}

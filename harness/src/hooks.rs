//! Access to the events recorded by the hooks in /repo (cfg rustpython_parser_verif).
//! Without the guard (fallback build) the functions are no-ops and return no events.
use serde_json::Value;

#[cfg(rustpython_parser_verif)]
pub fn start() {
    rustpython_parser_core::verif_trace::start();
}
#[cfg(rustpython_parser_verif)]
pub fn take() -> Vec<Value> {
    rustpython_parser_core::verif_trace::take()
        .into_iter()
        .map(|e| serde_json::from_str(&e).unwrap_or(Value::Null))
        .collect()
}
#[cfg(not(rustpython_parser_verif))]
pub fn start() {}
#[cfg(not(rustpython_parser_verif))]
pub fn take() -> Vec<Value> {
    vec![]
}

//! vharness: executes requests against the real RustPython/Parser public API.
//!
//! Protocol: one JSON object per stdin line `{"op": "...", ...}`; one JSON object per stdout line.
//! The harness never decides a property: it only *projects* what the real code returns.
//! A panic of the code under test is data: `{"panic": "<message>"}`.
use serde_json::{json, Value};
use std::io::{BufRead, Write};
use std::panic::{catch_unwind, AssertUnwindSafe};

mod astops;
mod canon;
mod entry;
mod unp;
mod trav;
mod fmtops;
mod hooks;
mod pos;
mod syn;

fn dispatch(req: &Value) -> Value {
    let op = req["op"].as_str().unwrap_or("");
    match op {
        "ping" => json!({"pong": true}),
        "nl_iter" => pos::nl_iter(req),
        "line_index" => pos::line_index(req),
        "range_ops" => pos::range_ops(req),
        "slice" => pos::slice(req),
        "parse" => syn::parse(req),
        "fmt_template" => fmtops::fmt_template(req),
        "field_name" => fmtops::field_name(req),
        "cfmt_split" => fmtops::cfmt_split(req),
        "cfmt_cell" => fmtops::cfmt_cell(req),
        "fmt_cell" => fmtops::fmt_cell(req),
        "repr" => fmtops::repr(req),
        "float_fmt" => fmtops::float_fmt(req),
        "float_repr" => fmtops::float_repr(req),
        "float_parse" => fmtops::float_parse(req),
        "const_parse" => fmtops::const_parse(req),
        "args_conv" => astops::args_conv(req),
        "lex" => syn::lex(req),
        "lex_raw" => syn::lex_raw(req),
        "parse_ok" => syn::parse_ok(req),
        "entrypoints" => entry::entrypoints(req),
        "unparse" => unp::unparse(req),
        "traverse" => trav::traverse(req),
        "locate_tree" => syn::locate_tree(req),
        "locate_calls" => syn::locate_calls(req),
        _ => json!({"tool_error": format!("unknown op {op}")}),
    }
}

fn main() {
    // silence the default panic printer; the message is captured below
    std::panic::set_hook(Box::new(|_| {}));
    let stdin = std::io::stdin();
    let stdout = std::io::stdout();
    let mut out = std::io::BufWriter::new(stdout.lock());
    for line in stdin.lock().lines() {
        let line = match line {
            Ok(l) => l,
            Err(_) => break,
        };
        if line.trim().is_empty() {
            continue;
        }
        let req: Value = match serde_json::from_str(&line) {
            Ok(v) => v,
            Err(e) => {
                writeln!(out, "{}", json!({"tool_error": format!("bad json: {e}")})).unwrap();
                continue;
            }
        };
        let res = catch_unwind(AssertUnwindSafe(|| dispatch(&req)));
        let v = match res {
            Ok(v) => v,
            Err(p) => {
                let msg = if let Some(s) = p.downcast_ref::<&str>() {
                    s.to_string()
                } else if let Some(s) = p.downcast_ref::<String>() {
                    s.clone()
                } else {
                    "panic".to_string()
                };
                json!({"panic": msg})
            }
        };
        writeln!(out, "{}", v).unwrap();
        out.flush().unwrap();
    }
    out.flush().unwrap();
}

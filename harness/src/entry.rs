//! Every public entry point on one text (C09): projections of results keyed by entry point name.
use crate::canon::debug_to_json;
use crate::syn::err_json;
use rustpython_ast as ast;
use rustpython_parser::text_size::TextSize;
use rustpython_parser::{lexer, Mode, Parse};
use serde_json::{json, Map, Value};
use std::panic::{catch_unwind, AssertUnwindSafe};

fn res<T: std::fmt::Debug>(r: Result<T, rustpython_parser::ParseError>) -> Value {
    match r {
        Ok(t) => json!({"ok": debug_to_json(&format!("{:?}", t))}),
        Err(e) => json!({"err": err_json(&e)}),
    }
}

fn guard<F: FnOnce() -> Value>(f: F) -> Value {
    match catch_unwind(AssertUnwindSafe(f)) {
        Ok(v) => v,
        Err(_) => json!({"panic": true}),
    }
}

macro_rules! kinds {
    ($m:ident, $src:ident, $k:ident, $($t:ident),*) => {
        $(
            $m.insert(format!("kind.{}", stringify!($t)), guard(|| res(ast::$t::parse($src, "<v>"))));
            $m.insert(format!("kind.{}@k", stringify!($t)), guard(|| res(ast::$t::parse_starts_at($src, "<v>", $k))));
        )*
    };
}

/// {src, k, kinds:bool} -> {entry point name: {"ok": projection} | {"err": ..} | {"panic": true}}
#[allow(deprecated)]
pub fn entrypoints(req: &Value) -> Value {
    let src = req["src"].as_str().unwrap();
    let k = TextSize::from(req["k"].as_u64().unwrap_or(0) as u32);
    let mut m = Map::new();
    for (name, mode) in [("Module", Mode::Module), ("Interactive", Mode::Interactive), ("Expression", Mode::Expression)] {
        m.insert(format!("parse.{name}"), guard(|| res(rustpython_parser::parse(src, mode, "<v>"))));
        m.insert(format!("parse_starts_at.{name}@k"), guard(|| res(rustpython_parser::parse_starts_at(src, mode, "<v>", k))));
        m.insert(format!("parse_tokens.{name}"), guard(|| res(rustpython_parser::parse_tokens(lexer::lex(src, mode), mode, "<v>"))));
        m.insert(format!("parse_tokens.{name}@k"), guard(|| res(rustpython_parser::parse_tokens(lexer::lex_starts_at(src, mode, k), mode, "<v>"))));
    }
    m.insert("ModModule".into(), guard(|| res(ast::ModModule::parse(src, "<v>"))));
    m.insert("ModModule@k".into(), guard(|| res(ast::ModModule::parse_starts_at(src, "<v>", k))));
    m.insert("ModInteractive".into(), guard(|| res(ast::ModInteractive::parse(src, "<v>"))));
    m.insert("ModInteractive@k".into(), guard(|| res(ast::ModInteractive::parse_starts_at(src, "<v>", k))));
    m.insert("ModExpression".into(), guard(|| res(ast::ModExpression::parse(src, "<v>"))));
    m.insert("ModExpression@k".into(), guard(|| res(ast::ModExpression::parse_starts_at(src, "<v>", k))));
    m.insert("Suite".into(), guard(|| res(ast::Suite::parse(src, "<v>"))));
    m.insert("Suite@k".into(), guard(|| res(ast::Suite::parse_starts_at(src, "<v>", k))));
    m.insert("Suite.without_path".into(), guard(|| res(ast::Suite::parse_without_path(src))));
    m.insert("Suite.parse_tokens".into(), guard(|| res(ast::Suite::parse_tokens(ast::Suite::lex_starts_at(src, TextSize::default()), "<v>"))));
    m.insert("Stmt.parse_tokens@k".into(), guard(|| res(ast::Stmt::parse_tokens(ast::Stmt::lex_starts_at(src, k), "<v>"))));
    m.insert("Expr.parse_tokens@k".into(), guard(|| res(ast::Expr::parse_tokens(ast::Expr::lex_starts_at(src, k), "<v>"))));
    m.insert("Suite.parse_tokens@k".into(), guard(|| res(ast::Suite::parse_tokens(ast::Suite::lex_starts_at(src, k), "<v>"))));
    m.insert("Stmt".into(), guard(|| res(ast::Stmt::parse(src, "<v>"))));
    m.insert("Stmt@k".into(), guard(|| res(ast::Stmt::parse_starts_at(src, "<v>", k))));
    m.insert("Expr".into(), guard(|| res(ast::Expr::parse(src, "<v>"))));
    m.insert("Expr@k".into(), guard(|| res(ast::Expr::parse_starts_at(src, "<v>", k))));
    m.insert("Identifier".into(), guard(|| res(ast::Identifier::parse(src, "<v>"))));
    m.insert("Identifier@k".into(), guard(|| res(ast::Identifier::parse_starts_at(src, "<v>", k))));
    m.insert("Constant".into(), guard(|| res(ast::Constant::parse(src, "<v>"))));
    m.insert("Constant@k".into(), guard(|| res(ast::Constant::parse_starts_at(src, "<v>", k))));
    m.insert("parse_program".into(), guard(|| res(rustpython_parser::parse_program(src, "<v>"))));
    m.insert("parse_expression".into(), guard(|| res(rustpython_parser::parse_expression(src, "<v>"))));
    m.insert("parse_expression_starts_at@k".into(), guard(|| res(rustpython_parser::parse_expression_starts_at(src, "<v>", k))));
    if req["kinds"].as_bool().unwrap_or(false) {
        kinds!(m, src, k, StmtFunctionDef, StmtAsyncFunctionDef, StmtClassDef, StmtReturn, StmtDelete, StmtAssign, StmtTypeAlias, StmtAugAssign,
               StmtAnnAssign, StmtFor, StmtAsyncFor, StmtWhile, StmtIf, StmtWith, StmtAsyncWith, StmtMatch, StmtRaise, StmtTry, StmtTryStar,
               StmtAssert, StmtImport, StmtImportFrom, StmtGlobal, StmtNonlocal, StmtExpr, StmtPass, StmtBreak, StmtContinue, ExprBoolOp,
               ExprNamedExpr, ExprBinOp, ExprUnaryOp, ExprLambda, ExprIfExp, ExprDict, ExprSet, ExprListComp, ExprSetComp, ExprDictComp,
               ExprGeneratorExp, ExprAwait, ExprYield, ExprYieldFrom, ExprCompare, ExprCall, ExprFormattedValue, ExprJoinedStr, ExprConstant,
               ExprAttribute, ExprSubscript, ExprStarred, ExprName, ExprList, ExprTuple, ExprSlice);
    }
    // lex / lex_starts_at token streams
    let toks = |start: TextSize| -> Value {
        let mut out = vec![];
        for r in lexer::lex_starts_at(src, Mode::Module, start) {
            match r {
                Ok((t, r)) => out.push(json!([format!("{:?}", t), u32::from(r.start()), u32::from(r.end())])),
                Err(e) => {
                    out.push(json!(["ERR", format!("{:?}", e.error), u32::from(e.location)]));
                    break;
                }
            }
        }
        json!({"toks": out})
    };
    m.insert("lex".into(), guard(|| toks(TextSize::default())));
    m.insert("lex@k".into(), guard(|| toks(k)));
    // mode names
    let mode_name = |s: &str| match s.parse::<Mode>() {
        Ok(Mode::Module) => "Module",
        Ok(Mode::Interactive) => "Interactive",
        Ok(Mode::Expression) => "Expression",
        Err(_) => "error",
    };
    m.insert("mode_names".into(), json!({"exec": mode_name("exec"), "eval": mode_name("eval"), "single": mode_name("single"), "": mode_name(""), "Exec": mode_name("Exec")}));
    // values of "@k" entries are moved back by k; equal values are stored once
    let kk = u64::from(u32::from(k));
    let mut vals: Vec<Value> = vec![];
    let mut keys: Vec<String> = vec![];
    let mut map = Map::new();
    for (name, v) in m {
        let v = if name.ends_with("@k") { unshift(v, kk) } else { v };
        let key = v.to_string();
        let idx = match keys.iter().position(|x| *x == key) {
            Some(i) => i,
            None => {
                keys.push(key);
                vals.push(v);
                vals.len() - 1
            }
        };
        map.insert(name, json!(idx));
    }
    json!({"vals": vals, "map": map})
}

/// subtract k from every range pair, error offset and token position; a position below k is kept and flagged
fn unshift(v: Value, k: u64) -> Value {
    fn sub(x: &Value, k: u64) -> Value {
        match x.as_u64() {
            Some(n) if n >= k => json!(n - k),
            _ => json!({"below_k": x.clone()}),
        }
    }
    match v {
        Value::Object(o) => {
            let mut out = Map::new();
            for (f, x) in o {
                let y = match (f.as_str(), &x) {
                    ("range", Value::Array(a)) if a.len() == 2 => json!([sub(&a[0], k), sub(&a[1], k)]),
                    ("offset", Value::Number(_)) => sub(&x, k),
                    ("toks", Value::Array(a)) => Value::Array(
                        a.iter()
                            .map(|t| {
                                let t = t.as_array().unwrap();
                                if t.len() == 3 && t[0] == "ERR" {
                                    json!([t[0], t[1], sub(&t[2], k)])
                                } else {
                                    json!([t[0], sub(&t[1], k), sub(&t[2], k)])
                                }
                            })
                            .collect(),
                    ),
                    _ => unshift(x, k),
                };
                out.insert(f, y);
            }
            Value::Object(out)
        }
        Value::Array(a) => Value::Array(a.into_iter().map(|x| unshift(x, k)).collect()),
        x => x,
    }
}

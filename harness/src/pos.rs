//! Position primitives (C15) and locators (C13): projection of the real API.
use rustpython_parser_vendored::source_location::newlines::{
    NewlineWithTrailingNewline, UniversalNewlineIterator,
};
use rustpython_parser_vendored::source_location::{LineIndex, OneIndexed, SourceCode};
use rustpython_parser_vendored::text_size::{TextRange, TextSize};
use serde_json::{json, Value};
use std::panic::{catch_unwind, AssertUnwindSafe};

fn guard<F: FnOnce() -> Value>(f: F) -> Value {
    match catch_unwind(AssertUnwindSafe(f)) {
        Ok(v) => v,
        Err(_) => json!("panic"),
    }
}

/// {text, sched:"FBBF..", offset:u32, trailing:bool}
pub fn nl_iter(req: &Value) -> Value {
    let text = req["text"].as_str().unwrap();
    let sched = req["sched"].as_str().unwrap_or("");
    let offset = TextSize::from(req["offset"].as_u64().unwrap_or(0) as u32);
    let mut items = vec![];
    let line_json = |side: &str, l: Option<rustpython_parser_vendored::source_location::newlines::Line>| match l {
        None => json!({"side": side, "none": true}),
        Some(l) => json!({
            "side": side,
            "start": u32::from(l.start()),
            "end": u32::from(l.end()),
            "full_end": u32::from(l.full_end()),
            "range": [u32::from(l.range().start()), u32::from(l.range().end())],
            "full_range": [u32::from(l.full_range().start()), u32::from(l.full_range().end())],
            "text": l.as_str(),
            "full": l.as_full_str(),
        }),
    };
    if req["trailing"].as_bool().unwrap_or(false) {
        let it = NewlineWithTrailingNewline::with_offset(text, offset);
        for l in it {
            items.push(line_json("F", Some(l)));
        }
        return json!({"items": items});
    }
    let mut it = UniversalNewlineIterator::with_offset(text, offset);
    for c in sched.chars() {
        match c {
            'F' => items.push(line_json("F", it.next())),
            'B' => items.push(line_json("B", it.next_back())),
            _ => {}
        }
    }
    json!({"items": items})
}

/// {text} -> all line queries and per-char-boundary locations
pub fn line_index(req: &Value) -> Value {
    let text = req["text"].as_str().unwrap();
    let index = LineIndex::from_source_text(text);
    let sc = SourceCode::new(text, &index);
    let n = sc.line_count();
    let mut lines = vec![];
    // one more than line_count: the "line after the last" that the API documents
    for i in 0..=n {
        let l = OneIndexed::from_zero_indexed(i as u32);
        lines.push(json!({
            "start": guard(|| json!(u32::from(sc.line_start(l)))),
            "end": guard(|| json!(u32::from(sc.line_end(l)))),
            "range": guard(|| { let r = sc.line_range(l); json!([u32::from(r.start()), u32::from(r.end())]) }),
            "text": guard(|| json!(sc.line_text(l))),
        }));
    }
    let mut offs = vec![];
    for o in 0..=text.len() {
        if !text.is_char_boundary(o) {
            continue;
        }
        let ts = TextSize::from(o as u32);
        offs.push(json!({
            "o": o,
            "line": guard(|| json!(sc.line_index(ts).get())),
            "loc": guard(|| { let l = sc.source_location(ts); json!([l.row.get(), l.column.get()]) }),
            "up_to": guard(|| json!(sc.up_to(ts).len())),
            "after": guard(|| json!(sc.after(ts).len())),
        }));
    }
    let starts: Vec<u32> = index.line_starts().iter().map(|t| u32::from(*t)).collect();
    json!({"line_count": n, "line_starts": starts, "lines": lines, "offsets": offs})
}

fn rj(r: TextRange) -> Value {
    json!([u32::from(r.start()), u32::from(r.end())])
}

/// {a:[s,e], b:[s,e], x:u32} -> every range operation (each guarded: contract panics are reported as "panic")
pub fn range_ops(req: &Value) -> Value {
    let g = |v: &Value, i: usize| TextSize::from(v[i].as_u64().unwrap() as u32);
    let (a0, a1) = (g(&req["a"], 0), g(&req["a"], 1));
    let (b0, b1) = (g(&req["b"], 0), g(&req["b"], 1));
    let x = TextSize::from(req["x"].as_u64().unwrap() as u32);
    // constructing a itself may panic (start > end): report and stop
    let a = match catch_unwind(|| TextRange::new(a0, a1)) {
        Ok(r) => r,
        Err(_) => return json!({"new_a": "panic"}),
    };
    let b = match catch_unwind(|| TextRange::new(b0, b1)) {
        Ok(r) => r,
        Err(_) => return json!({"new_b": "panic"}),
    };
    let opt = |o: Option<TextRange>| match o {
        Some(r) => rj(r),
        None => Value::Null,
    };
    json!({
        "new_a": rj(a),
        "new_b": rj(b),
        "at": guard(|| rj(TextRange::at(a0, x))),
        "empty": rj(TextRange::empty(x)),
        "up_to": rj(TextRange::up_to(x)),
        "len": u32::from(a.len()),
        "is_empty": a.is_empty(),
        "contains": a.contains(x),
        "contains_inclusive": a.contains_inclusive(x),
        "contains_range": a.contains_range(b),
        "intersect": opt(a.intersect(b)),
        "cover": rj(a.cover(b)),
        "cover_offset": rj(a.cover_offset(x)),
        "checked_add": opt(a.checked_add(x)),
        "checked_sub": opt(a.checked_sub(x)),
        "add": guard(|| rj(a + x)),
        "sub": guard(|| rj(a - x)),
        "ordering": match a.ordering(b) { std::cmp::Ordering::Less => -1, std::cmp::Ordering::Equal => 0, std::cmp::Ordering::Greater => 1 },
        "sub_start": guard(|| rj(a.sub_start(x))),
        "add_start": guard(|| rj(a.add_start(x))),
        "sub_end": guard(|| rj(a.sub_end(x))),
        "add_end": guard(|| rj(a.add_end(x))),
        "size_checked_add": match a0.checked_add(x) { Some(t) => json!(u32::from(t)), None => Value::Null },
        "size_checked_sub": match a0.checked_sub(x) { Some(t) => json!(u32::from(t)), None => Value::Null },
    })
}

/// {text, r:[s,e]} -> slicing a str by a TextRange
pub fn slice(req: &Value) -> Value {
    let text = req["text"].as_str().unwrap();
    let s = TextSize::from(req["r"][0].as_u64().unwrap() as u32);
    let e = TextSize::from(req["r"][1].as_u64().unwrap() as u32);
    guard(|| json!({"s": &text[TextRange::new(s, e)]}))
}

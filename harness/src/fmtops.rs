//! rustpython-format / rustpython-literal operations (C16-C20), projected to JSON.
use rustpython_format::{FieldName, FieldNamePart, FieldType, FormatPart, FormatString, FromTemplate};
use serde_json::{json, Value};

/// {s} -> {"ok":[parts]} | {"err": "..."}
pub fn fmt_template(req: &Value) -> Value {
    let s = req["s"].as_str().unwrap();
    match FormatString::from_str(s) {
        Ok(fs) => {
            let parts: Vec<Value> = fs
                .format_parts
                .iter()
                .map(|p| match p {
                    FormatPart::Literal(t) => json!({"k": "lit", "t": t}),
                    FormatPart::Field { field_name, conversion_spec, format_spec } => json!({
                        "k": "field", "name": field_name,
                        "conv": conversion_spec.map(|c| c.to_string()).unwrap_or_default(),
                        "spec": format_spec}),
                })
                .collect();
            json!({"ok": parts})
        }
        Err(e) => json!({"err": format!("{:?}", e)}),
    }
}

/// {s} -> {"ok":{"first":{k,..},"parts":[..]}} | {"err": "..."}
pub fn field_name(req: &Value) -> Value {
    let s = req["s"].as_str().unwrap();
    match FieldName::parse(s) {
        Ok(f) => {
            let first = match &f.field_type {
                FieldType::Auto => json!({"k": "auto"}),
                FieldType::Index(n) => json!({"k": "index", "n": n}),
                FieldType::Keyword(k) => json!({"k": "keyword", "t": k}),
            };
            let parts: Vec<Value> = f
                .parts
                .iter()
                .map(|p| match p {
                    FieldNamePart::Attribute(a) => json!({"k": "attr", "t": a}),
                    FieldNamePart::Index(n) => json!({"k": "item_index", "n": n}),
                    FieldNamePart::StringIndex(s) => json!({"k": "item_key", "t": s}),
                })
                .collect();
            json!({"ok": {"first": first, "parts": parts}})
        }
        Err(e) => json!({"err": format!("{:?}", e)}),
    }
}

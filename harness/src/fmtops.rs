//! rustpython-format / rustpython-literal operations (C16-C20), projected to JSON.
use rustpython_format::{FieldName, FieldNamePart, FieldType, FormatPart, FormatString, FromTemplate};
use serde_json::{json, Value};

/// {s} -> {"ok":[parts]} | {"err": "..."}
pub fn fmt_template(req: &Value) -> Value {
    let s = req["s"].as_str().unwrap();
    match FormatString::from_str(s) {
        Ok(fs) => {
            let parts: Vec<Value> = fs
                .format_parts
                .iter()
                .map(|p| match p {
                    FormatPart::Literal(t) => json!({"k": "lit", "t": t}),
                    FormatPart::Field { field_name, conversion_spec, format_spec } => json!({
                        "k": "field", "name": field_name,
                        "conv": conversion_spec.map(|c| c.to_string()).unwrap_or_default(),
                        "spec": format_spec}),
                })
                .collect();
            json!({"ok": parts})
        }
        Err(e) => json!({"err": format!("{:?}", e)}),
    }
}

/// {s} -> {"ok":{"first":{k,..},"parts":[..]}} | {"err": "..."}
pub fn field_name(req: &Value) -> Value {
    let s = req["s"].as_str().unwrap();
    match FieldName::parse(s) {
        Ok(f) => {
            let first = match &f.field_type {
                FieldType::Auto => json!({"k": "auto"}),
                FieldType::Index(n) => json!({"k": "index", "n": n}),
                FieldType::Keyword(k) => json!({"k": "keyword", "t": k}),
            };
            let parts: Vec<Value> = f
                .parts
                .iter()
                .map(|p| match p {
                    FieldNamePart::Attribute(a) => json!({"k": "attr", "t": a}),
                    FieldNamePart::Index(n) => json!({"k": "item_index", "n": n}),
                    FieldNamePart::StringIndex(s) => json!({"k": "item_key", "t": s}),
                })
                .collect();
            json!({"ok": {"first": first, "parts": parts}})
        }
        Err(e) => json!({"err": format!("{:?}", e)}),
    }
}

use rustpython_format::cformat::{
    CConversionFlags, CFormatBytes, CFormatPart, CFormatPrecision, CFormatQuantity, CFormatSpec, CFormatString,
};
use std::str::FromStr;

fn quantity_json(q: &Option<CFormatQuantity>) -> Value {
    match q {
        None => Value::Null,
        Some(CFormatQuantity::Amount(n)) => json!(n),
        Some(CFormatQuantity::FromValuesTuple) => json!("*"),
    }
}

fn cspec_json(s: &CFormatSpec) -> Value {
    json!({
        "k": "spec",
        "key": s.mapping_key,
        "flags": {
            "HASH": s.flags.contains(CConversionFlags::ALTERNATE_FORM),
            "ZERO": s.flags.contains(CConversionFlags::ZERO_PAD),
            "MINUS": s.flags.contains(CConversionFlags::LEFT_ADJUST),
            "SP": s.flags.contains(CConversionFlags::BLANK_SIGN),
            "PLUS": s.flags.contains(CConversionFlags::SIGN_CHAR),
        },
        "width": quantity_json(&s.min_field_width),
        "prec": match &s.precision {
            None => Value::Null,
            Some(CFormatPrecision::Dot) => json!("."),
            Some(CFormatPrecision::Quantity(CFormatQuantity::Amount(n))) => json!(n),
            Some(CFormatPrecision::Quantity(CFormatQuantity::FromValuesTuple)) => json!("*"),
        },
        "ty": s.format_char.to_string(),
    })
}

/// {s, bytes} -> {"ok":[parts]} | {"err":{"kind","index"}}
pub fn cfmt_split(req: &Value) -> Value {
    let s = req["s"].as_str().unwrap();
    if req["bytes"].as_bool().unwrap_or(false) {
        match CFormatBytes::parse_from_bytes(s.as_bytes()) {
            Ok(f) => json!({"ok": f.iter().map(|(i, p)| match p {
                CFormatPart::Literal(t) => json!({"k": "lit", "t": String::from_utf8_lossy(t), "i": i}),
                CFormatPart::Spec(sp) => { let mut v = cspec_json(sp); v["i"] = json!(i); v }
            }).collect::<Vec<_>>()}),
            Err(e) => json!({"err": {"kind": format!("{:?}", e.typ), "index": e.index, "msg": format!("{}", e)}}),
        }
    } else {
        match CFormatString::from_str(s) {
            Ok(f) => json!({"ok": f.iter().map(|(i, p)| match p {
                CFormatPart::Literal(t) => json!({"k": "lit", "t": t, "i": i}),
                CFormatPart::Spec(sp) => { let mut v = cspec_json(sp); v["i"] = json!(i); v }
            }).collect::<Vec<_>>()}),
            Err(e) => json!({"err": {"kind": format!("{:?}", e.typ), "index": e.index, "msg": format!("{}", e)}}),
        }
    }
}

/// {spec, kind: int|str|chr|bytes|float, val / sval / bits} -> {"out": text} | {"err":..}
pub fn cfmt_cell(req: &Value) -> Value {
    let spec = match CFormatSpec::from_str(req["spec"].as_str().unwrap()) {
        Ok(s) => s,
        Err(e) => return json!({"err": format!("{:?}", e)}),
    };
    match req["kind"].as_str().unwrap() {
        "int" => {
            let v: rustpython_ast::bigint::BigInt = req["val"].as_str().map(|s| s.parse().unwrap()).unwrap_or_else(|| req["val"].as_i64().unwrap().into());
            json!({"out": spec.format_number(&v)})
        }
        "str" => json!({"out": spec.format_string(req["sval"].as_str().unwrap().to_string())}),
        "chr" => json!({"out": spec.format_char(req["sval"].as_str().unwrap().chars().next().unwrap())}),
        "bytes" => json!({"out": String::from_utf8_lossy(&spec.format_bytes(req["sval"].as_str().unwrap().as_bytes()))}),
        "float" => {
            let f = f64::from_bits(req["bits"].as_str().unwrap().parse::<u64>().unwrap());
            json!({"out": spec.format_float(f)})
        }
        _ => json!({"tool_error": "kind"}),
    }
}

struct PyStr(String);
impl rustpython_format::CharLen for PyStr {
    fn char_len(&self) -> usize {
        self.0.chars().count()
    }
}
impl std::ops::Deref for PyStr {
    type Target = str;
    fn deref(&self) -> &str {
        &self.0
    }
}

/// {spec, kind: int|big|str|bool|float, val, sval, bits} -> {"out": text} | {"err": "..."}
pub fn fmt_cell(req: &Value) -> Value {
    use rustpython_format::FormatSpec;
    let spec = match FormatSpec::parse(req["spec"].as_str().unwrap()) {
        Ok(s) => s,
        Err(e) => return json!({"err": format!("parse:{:?}", e)}),
    };
    let r = match req["kind"].as_str().unwrap() {
        "int" => {
            let v: rustpython_ast::bigint::BigInt = req["val"].as_i64().unwrap().into();
            spec.format_int(&v)
        }
        "big" => {
            let mut v: rustpython_ast::bigint::BigInt = req["sval"].as_str().unwrap().parse().unwrap();
            if req["val"].as_i64().unwrap() == 1 {
                v = -v;
            }
            spec.format_int(&v)
        }
        "str" => spec.format_string(&PyStr(req["sval"].as_str().unwrap().to_string())),
        "bool" => spec.format_bool(req["val"].as_i64().unwrap() == 1),
        "float" => spec.format_float(f64::from_bits(req["bits"].as_str().unwrap().parse::<u64>().unwrap())),
        _ => return json!({"tool_error": "kind"}),
    };
    match r {
        Ok(s) => json!({"out": s}),
        Err(e) => json!({"err": format!("{:?}", e)}),
    }
}

/// {codes:[u32..], bytes:bool} -> repr text, announced layout length, changed flag, quote, parse-back
pub fn repr(req: &Value) -> Value {
    use rustpython_literal::escape::{AsciiEscape, Escape, Quote, UnicodeEscape};
    let codes: Vec<u32> = req["codes"].as_array().unwrap().iter().map(|v| v.as_u64().unwrap() as u32).collect();
    if req["bytes"].as_bool().unwrap_or(false) {
        let b: Vec<u8> = codes.iter().map(|c| *c as u8).collect();
        let esc = AsciiEscape::new_repr(&b);
        let text = esc.bytes_repr().to_string();
        let disp = format!("{}", esc.bytes_repr());
        json!({"text": text, "display": disp, "len": esc.layout().len, "changed": esc.changed(),
               "quote": if esc.layout().quote == Quote::Single { "SQ" } else { "DQ" }})
    } else {
        let s: String = codes.iter().map(|c| char::from_u32(*c).unwrap()).collect();
        let esc = UnicodeEscape::new_repr(&s);
        let text = esc.str_repr().to_string();
        let disp = format!("{}", esc.str_repr());
        json!({"text": text, "display": disp, "len": esc.layout().len, "changed": esc.changed(),
               "quote": if esc.layout().quote == Quote::Single { "SQ" } else { "DQ" }})
    }
}

/// {src} -> Constant::parse(src) projected: {"str": [codes]} | {"bytes":[..]} | {"other": debug} | {"err":..}
pub fn const_parse(req: &Value) -> Value {
    use rustpython_parser::Parse;
    let src = req["src"].as_str().unwrap();
    match rustpython_ast::Constant::parse(src, "<verif>") {
        Ok(rustpython_ast::Constant::Str(s)) => json!({"str": s.chars().map(|c| c as u32).collect::<Vec<_>>()}),
        Ok(rustpython_ast::Constant::Bytes(b)) => json!({"bytes": b}),
        Ok(c) => json!({"other": format!("{:?}", c)}),
        Err(e) => json!({"err": crate::syn::err_json(&e)}),
    }
}

fn bits_of(req: &Value) -> f64 {
    f64::from_bits(req["bits"].as_str().unwrap().parse::<u64>().unwrap())
}

/// {fn: fixed|exponent|general|general_repr, prec, bits, upper, alt} -> {"out": text}
pub fn float_fmt(req: &Value) -> Value {
    use rustpython_literal::float;
    use rustpython_literal::format::Case;
    let x = bits_of(req);
    let prec = req["prec"].as_u64().unwrap() as usize;
    let case = if req["upper"].as_bool().unwrap_or(false) { Case::Upper } else { Case::Lower };
    let alt = req["alt"].as_bool().unwrap_or(false);
    let out = match req["fn"].as_str().unwrap() {
        "fixed" => float::format_fixed(prec, x, case, alt),
        "exponent" => float::format_exponent(prec, x, case, alt),
        "general" => float::format_general(prec, x, case, alt, false),
        _ => float::format_general(prec, x, case, alt, true),
    };
    json!({"out": out})
}

/// {bits} -> repr text, its parse-back, hex text, its parse-back
pub fn float_repr(req: &Value) -> Value {
    use rustpython_literal::float;
    let x = bits_of(req);
    let s = float::to_string(x);
    let back = float::parse_str(&s).map(|v| v.to_bits().to_string());
    let hex = float::to_hex(x);
    let hback = float::from_hex(&hex).map(|v| v.to_bits().to_string());
    json!({"repr": s, "back": back, "hex": hex, "hex_back": hback})
}

/// {s, hex:bool, bytes:bool} -> {"bits": "..."} | {"bits": null}
pub fn float_parse(req: &Value) -> Value {
    use rustpython_literal::float;
    let s = req["s"].as_str().unwrap();
    let r = if req["hex"].as_bool().unwrap_or(false) {
        float::from_hex(s)
    } else if req["bytes"].as_bool().unwrap_or(false) {
        float::parse_bytes(s.as_bytes())
    } else {
        float::parse_str(s)
    };
    json!({"bits": r.map(|v| v.to_bits().to_string())})
}

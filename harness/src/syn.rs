//! Lexing / parsing / locating through the public API, projected with canon.rs.
use crate::canon::debug_to_json;
use rustpython_ast::source_code::{LinearLocator, RandomLocator};
use rustpython_ast::Fold;
use rustpython_parser::text_size::TextSize;
use rustpython_parser::{lexer, Mode, ParseError};
use serde_json::{json, Value};
use std::panic::{catch_unwind, AssertUnwindSafe};

pub fn mode_of(req: &Value) -> Mode {
    match req["mode"].as_str().unwrap_or("Module") {
        "Expression" => Mode::Expression,
        "Interactive" => Mode::Interactive,
        _ => Mode::Module,
    }
}

pub fn err_json(e: &ParseError) -> Value {
    json!({"kind": debug_to_json(&format!("{:?}", e.error)), "offset": u32::from(e.offset), "msg": format!("{}", e.error)})
}

/// {src, mode, start} -> {"ok": tree} | {"err": {...}}
pub fn parse(req: &Value) -> Value {
    let src = req["src"].as_str().unwrap();
    let start = TextSize::from(req["start"].as_u64().unwrap_or(0) as u32);
    match rustpython_parser::parse_starts_at(src, mode_of(req), "<verif>", start) {
        Ok(m) => json!({"ok": debug_to_json(&format!("{:?}", m))}),
        Err(e) => json!({"err": err_json(&e)}),
    }
}

/// {src, mode, start} -> {"toks": [[tok, s, e], ..], "err": null | {kind, at}}
pub fn lex(req: &Value) -> Value {
    let src = req["src"].as_str().unwrap();
    let start = TextSize::from(req["start"].as_u64().unwrap_or(0) as u32);
    let mut toks = vec![];
    let mut err = Value::Null;
    let limit = req["limit"].as_u64().unwrap_or(10_000_000) as usize;
    for r in lexer::lex_starts_at(src, mode_of(req), start) {
        match r {
            Ok((t, r)) => toks.push(json!([debug_to_json(&format!("{:?}", t)), u32::from(r.start()), u32::from(r.end())])),
            Err(e) => {
                err = json!({"kind": debug_to_json(&format!("{:?}", e.error)), "at": u32::from(e.location)});
                break;
            }
        }
        if toks.len() > limit {
            err = json!({"kind": "TOKEN_LIMIT"});
            break;
        }
    }
    json!({"toks": toks, "err": err})
}

/// {src} -> plain tree, tree located by LinearLocator (or panic), tree located by RandomLocator
pub fn locate_tree(req: &Value) -> Value {
    let src = req["src"].as_str().unwrap();
    let m = match rustpython_parser::parse(src, mode_of(req), "<verif>") {
        Ok(m) => m,
        Err(e) => return json!({"err": err_json(&e)}),
    };
    let plain = debug_to_json(&format!("{:?}", m));
    let m1 = m.clone();
    let lin = match catch_unwind(AssertUnwindSafe(|| {
        let mut loc = LinearLocator::new(src);
        crate::hooks::start();
        let r = loc.fold(m1);
        r.map(|t| format!("{:?}", t))
    })) {
        Ok(Ok(s)) => debug_to_json(&s),
        Ok(Err(_)) => json!("error"),
        Err(p) => {
            let msg = p.downcast_ref::<String>().cloned().or_else(|| p.downcast_ref::<&str>().map(|s| s.to_string())).unwrap_or_default();
            json!({"panic": msg.chars().take(300).collect::<String>()})
        }
    };
    let events = crate::hooks::take();
    let rnd = match catch_unwind(AssertUnwindSafe(|| {
        let mut loc = RandomLocator::new(src);
        loc.fold(m).map(|t| format!("{:?}", t))
    })) {
        Ok(Ok(s)) => debug_to_json(&s),
        Ok(Err(_)) => json!("error"),
        Err(_) => json!({"panic": true}),
    };
    json!({"plain": plain, "linear": lin, "random": rnd, "events": events})
}

/// {text, calls:[{only, o}]} -> linear results (each guarded) and random results
pub fn locate_calls(req: &Value) -> Value {
    let text = req["text"].as_str().unwrap();
    let calls = req["calls"].as_array().unwrap();
    let mut lin = vec![];
    let mut loc = LinearLocator::new(text);
    let mut dead = false;
    for c in calls {
        let o = TextSize::from(c["o"].as_u64().unwrap() as u32);
        let only = c["only"].as_bool().unwrap_or(false);
        if dead {
            lin.push(json!("skipped"));
            continue;
        }
        let r = catch_unwind(AssertUnwindSafe(|| if only { loc.locate_only(o) } else { loc.locate(o) }));
        match r {
            Ok(l) => lin.push(json!([l.row.get(), l.column.get()])),
            Err(_) => {
                lin.push(json!("panic"));
                dead = true;
            }
        }
    }
    let mut rnd = vec![];
    let mut rl = RandomLocator::new(text);
    for c in calls {
        let o = TextSize::from(c["o"].as_u64().unwrap() as u32);
        match catch_unwind(AssertUnwindSafe(|| rl.locate(o))) {
            Ok(l) => rnd.push(json!([l.row.get(), l.column.get()])),
            Err(_) => rnd.push(json!("panic")),
        }
    }
    json!({"linear": lin, "random": rnd})
}

/// {src, start, limit} -> tokens of the bare Lexer (no soft-keyword transformer) up to and including the first
/// error, plus the hook events (one per call of Lexer::next)
pub fn lex_raw(req: &Value) -> Value {
    let src = req["src"].as_str().unwrap();
    let start = TextSize::from(req["start"].as_u64().unwrap_or(0) as u32);
    let limit = req["limit"].as_u64().unwrap_or(10_000_000) as usize;
    crate::hooks::start();
    let mut toks = vec![];
    let mut err = Value::Null;
    for r in lexer::Lexer::new(src.chars(), start) {
        match r {
            Ok((t, r)) => toks.push(json!([debug_to_json(&format!("{:?}", t)), u32::from(r.start()), u32::from(r.end())])),
            Err(e) => {
                err = json!({"kind": debug_to_json(&format!("{:?}", e.error)), "at": u32::from(e.location)});
                break;
            }
        }
        if toks.len() > limit {
            err = json!({"kind": "TOKEN_LIMIT"});
            break;
        }
    }
    let events = if req["events"].as_bool().unwrap_or(false) { crate::hooks::take() } else { crate::hooks::take(); vec![] };
    json!({"toks": toks, "err": err, "events": events})
}

/// {src, mode, start} -> {"ok": true} | {"err": {...}}; no tree projection, run on a thread with an 8 MiB stack
/// (what a user's main thread has), so that only the library's own stack use is measured.  elapsed_us is reported.
pub fn parse_ok(req: &Value) -> Value {
    let src = req["src"].as_str().unwrap().to_string();
    let start = TextSize::from(req["start"].as_u64().unwrap_or(0) as u32);
    let mode = mode_of(req);
    let lex_only = req["lex_only"].as_bool().unwrap_or(false);
    let h = std::thread::Builder::new()
        .stack_size(8 * 1024 * 1024)
        .spawn(move || {
            let t = std::time::Instant::now();
            let r = if lex_only {
                let mut n = 0usize;
                let mut err = Value::Null;
                for r in lexer::lex_starts_at(&src, mode, start) {
                    match r {
                        Ok(_) => n += 1,
                        Err(e) => {
                            err = json!({"kind": debug_to_json(&format!("{:?}", e.error)), "offset": u32::from(e.location)});
                            break;
                        }
                    }
                }
                if err.is_null() { json!({"ok": true, "tokens": n}) } else { json!({"err": err, "tokens": n}) }
            } else {
                match rustpython_parser::parse_starts_at(&src, mode, "<verif>", start) {
                    Ok(m) => {
                        // dropping a deep tree is part of what a user does
                        drop(m);
                        json!({"ok": true})
                    }
                    Err(e) => json!({"err": err_json(&e)}),
                }
            };
            (r, t.elapsed().as_micros() as u64)
        })
        .unwrap();
    match h.join() {
        Ok((mut r, us)) => {
            r["elapsed_us"] = json!(us);
            r
        }
        Err(p) => {
            let msg = p.downcast_ref::<String>().cloned().or_else(|| p.downcast_ref::<&str>().map(|s| s.to_string())).unwrap_or_default();
            json!({"panic": msg.chars().take(300).collect::<String>()})
        }
    }
}

//! Fold / Visitor / ConstantOptimizer observations (C12).  The folder and the visitor only use the public traits.
use crate::canon::{debug_to_json, debug_to_json_ordered};
use crate::syn::{err_json, mode_of};
use rustpython_ast::{self as ast, fold::Fold, Ranged, Visitor};
use rustpython_parser::text_size::{TextRange, TextSize};
use serde_json::{json, Value};
use std::panic::{catch_unwind, AssertUnwindSafe};

/// records every will_map_user / map_user call; maps a range by adding `shift`
struct RecFolder {
    events: Vec<Value>,
    shift: u32,
    back: bool,
}
impl Fold<TextRange> for RecFolder {
    type TargetU = TextRange;
    type Error = std::convert::Infallible;
    type UserContext = u32;
    fn will_map_user(&mut self, user: &TextRange) -> u32 {
        self.events.push(json!(["enter", u32::from(user.start()), u32::from(user.end())]));
        u32::from(user.start())
    }
    fn map_user(&mut self, user: TextRange, context: u32) -> Result<TextRange, Self::Error> {
        // the context handed back must be the one produced for this very node
        self.events.push(json!([if context == u32::from(user.start()) { "exit" } else { "exit_wrong_context" }, u32::from(user.start()), u32::from(user.end())]));
        let d = TextSize::from(self.shift);
        Ok(if self.back { TextRange::new(user.start() - d, user.end() - d) } else { TextRange::new(user.start() + d, user.end() + d) })
    }
}

struct RecVisitor {
    events: Vec<Value>,
}
impl RecVisitor {
    fn log(&mut self, cat: &str, r: TextRange) {
        self.events.push(json!([cat, u32::from(r.start()), u32::from(r.end())]));
    }
}
impl Visitor for RecVisitor {
    fn visit_stmt(&mut self, node: ast::Stmt) {
        self.log("stmt", node.range());
        self.generic_visit_stmt(node)
    }
    fn visit_expr(&mut self, node: ast::Expr) {
        self.log("expr", node.range());
        self.generic_visit_expr(node)
    }
    fn visit_pattern(&mut self, node: ast::Pattern) {
        self.log("pattern", node.range());
        self.generic_visit_pattern(node)
    }
    fn visit_excepthandler(&mut self, node: ast::ExceptHandler) {
        self.log("handler", node.range());
        self.generic_visit_excepthandler(node)
    }
}

fn visit_mod(v: &mut RecVisitor, m: ast::Mod) {
    match m {
        ast::Mod::Module(x) => x.body.into_iter().for_each(|s| v.visit_stmt(s)),
        ast::Mod::Interactive(x) => x.body.into_iter().for_each(|s| v.visit_stmt(s)),
        ast::Mod::Expression(x) => v.visit_expr(*x.body),
        ast::Mod::FunctionType(_) => {}
    }
}

/// {src, mode} -> tree, fold events, identity / shift results, visitor events, optimiser results
pub fn traverse(req: &Value) -> Value {
    let src = req["src"].as_str().unwrap();
    let tree = match rustpython_parser::parse(src, mode_of(req), "<v>") {
        Ok(m) => m,
        Err(e) => return json!({"err": err_json(&e)}),
    };
    let mut out = json!({"tree": debug_to_json_ordered(&format!("{:?}", tree))});
    // identity fold with event log
    let t = tree.clone();
    match catch_unwind(AssertUnwindSafe(move || {
        let mut f = RecFolder { events: vec![], shift: 0, back: false };
        let r = f.fold_mod(t).unwrap();
        (f.events, r)
    })) {
        Ok((events, folded)) => {
            out["fold_events"] = Value::Array(events);
            out["fold_equal"] = json!(folded == tree);
            if folded != tree {
                out["fold_tree"] = debug_to_json(&format!("{:?}", folded));
            }
        }
        Err(_) => out["fold_panic"] = json!(true),
    }
    // every range moved by 1000 and back again
    let t = tree.clone();
    match catch_unwind(AssertUnwindSafe(move || {
        let mut f = RecFolder { events: vec![], shift: 1000, back: false };
        let moved = f.fold_mod(t).unwrap();
        let shown = format!("{:?}", moved);
        let mut g = RecFolder { events: vec![], shift: 1000, back: true };
        (shown, g.fold_mod(moved).unwrap())
    })) {
        Ok((shown, back)) => {
            out["shift_back_equal"] = json!(back == tree);
            if req["want_shifted"].as_bool().unwrap_or(false) {
                out["shifted_tree"] = debug_to_json(&shown);
            }
        }
        Err(_) => out["shift_panic"] = json!(true),
    }
    // default visitor
    let t = tree.clone();
    match catch_unwind(AssertUnwindSafe(move || {
        let mut v = RecVisitor { events: vec![] };
        visit_mod(&mut v, t);
        v.events
    })) {
        Ok(events) => out["visit_events"] = Value::Array(events),
        Err(_) => out["visit_panic"] = json!(true),
    }
    // constant optimiser, once and twice
    let t = tree.clone();
    match catch_unwind(AssertUnwindSafe(move || {
        let once = ast::ConstantOptimizer::new().fold_mod(t).unwrap();
        let twice = ast::ConstantOptimizer::new().fold_mod(once.clone()).unwrap();
        (once, twice)
    })) {
        Ok((once, twice)) => {
            out["opt_changed"] = json!(once != tree);
            if once != tree {
                out["opt_tree"] = debug_to_json(&format!("{:?}", once));
            }
            out["opt_idempotent"] = json!(once == twice);
        }
        Err(_) => out["opt_panic"] = json!(true),
    }
    out
}
